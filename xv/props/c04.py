"""C04 -- implicit gradients of rootfinder / equilibrium / minimize: structural necessary conditions."""
from __future__ import annotations
import ast
from typing import List
from ..model import Model, own_nodes, norm_stmt, AnalysisError, AnchorError, enclosing_stmt, ancestors
from ..report import RuleResult
from ..flow import function_defs, names_loaded, def_use_closure
from ..rules import autograd as ac
from ..rules.hermitian import expr_sign

PROP = "C04"
LEVEL = "other"
EXPLANATION = (
    "Autograd-Function contract of _RootFinder decided from the source: (AC1) arity of backward and of the three "
    "wrappers' .apply calls; (AC2) every fixed slot (function, initial guess, options, counts) returns the literal None "
    "- the initial guess and non-tensor parameters receive no gradient; (AC3) pull-back and minimize's gradient closure "
    "record the graph iff the caller does; (AC4) pull-back passes allow_unused=True; (AC5) the linear solve in backward "
    "receives the saved backward options by ** splat (they select the solver); (AC6) rootfinder/equilibrium/minimize pass "
    "len(params) and append the object parameters of the same pure function; (J) the linear system is solve(A=J.H, "
    "B=-grad) with J = jac(fcn, (y_out, *params), idxs=[0]) at the *saved output*; (U) the pull-back re-evaluates fcn at "
    "the saved output inside useobjparams(<fresh differentiable copies>) under enable_grad and differentiates w.r.t. "
    "exactly those copies; total sign is negative. (AC16) cotangent values never steer control flow; (LS-N) the normal-equation fallback of the inner solve is A^H A x = A^H b; NOT decided: the IFT identity numerically, independence from method.")
ASSUMPTIONS = ["jac() returns the Jacobian operator (C17)", "solve() solves the linear system (C01/C02)"]

RF = "xitorch/optimize/rootfinder.py"


def rules(model: Model, tier: str) -> List[RuleResult]:
    fc = ac.get_fncls(model, "_RootFinder")
    R1 = RuleResult(PROP, "AC1", "arity of _RootFinder.backward and of the apply sites", min_instances=4)
    R2 = RuleResult(PROP, "AC2", "y0 and every non-tensor slot return the literal None", min_instances=7)
    R3 = RuleResult(PROP, "AC3", "create_graph=torch.is_grad_enabled() in rootfinder.py", min_instances=2)
    R4 = RuleResult(PROP, "AC4", "pull-back passes allow_unused=True", min_instances=1)
    R5 = RuleResult(PROP, "AC5", "inner solve receives the saved backward options by ** splat", min_instances=1)
    R6 = RuleResult(PROP, "AC6", "layout agreement of rootfinder/equilibrium/minimize with forward's split", min_instances=7)
    J = RuleResult(PROP, "C04-J", "linear system of the implicit function theorem: solve(A=J.H, B=-grad) at the saved output", min_instances=4)
    U = RuleResult(PROP, "C04-U", "pull-back re-evaluates fcn under useobjparams(fresh copies) and enable_grad", min_instances=4)

    ac.ac1_arity(model, fc, R1)
    ac.ac2_frozen_none(fc, R2)
    ac.ac3_create_graph(model, R3, files={RF})
    ac.ac4_allow_unused(fc, R4)
    ac.ac5_options_forwarding(model, fc, R5, {"solve"})
    # the linear solve that implements this backward must itself pass its backward options on to the nested adjoint solve, otherwise
    # the options select the solver for the first derivative only
    ac.ac5_options_forwarding(model, ac.get_fncls(model, "solve_torchfcn"), R5, {"solve"})
    ac.ac6_layout(model, fc, R6)
    _ift_system(fc, J)
    _pullback(fc, U)
    # the Jacobian operator used by the backward must re-evaluate consistently in both products (J^H x is the second-order path)
    from .c17 import refresh_consistency
    RJ = RuleResult(PROP, "C04-R", "the Jacobian operator refreshes its parameters identically in mv and rmv (the rmv path carries the second-order pull-back)", min_instances=2)
    refresh_consistency(model, RJ)
    from .c17 import _connect_unconditional, _connect
    _connect_unconditional(model, RJ)
    _connect(model, RJ)          # both products re-evaluate the function under enable_grad + useobjparams(self.objparams) and use the cache only while valid
    # the linear solve inside the backward returns the gradient w.r.t. its right-hand side on every path: the second-order gradient of the root finder flows through it
    RB = RuleResult(PROP, "C04-B", "solve_torchfcn.backward returns a gradient for B on every exit (no all-None shortcut)", min_instances=1)
    _sfc = ac.get_fncls(model, "solve_torchfcn")
    _bi = _sfc.fixed.index("B")
    for _r in ac.own_returns(_sfc.backward):
        _v = _r.value
        _ok = isinstance(_v, ast.Tuple) and len(_v.elts) > _bi and not (isinstance(_v.elts[_bi], ast.Constant) and _v.elts[_bi].value is None) and not isinstance(_v.elts[_bi], ast.Starred)
        if _ok:
            RB.ok(_sfc.backward.fq, "return slot of B is `%s`" % ast.unparse(_v.elts[_bi]))
        else:
            RB.bad(_sfc.backward, _r, "solve_torchfcn.backward has an exit without the gradient A^-H grad_x for B (e.g. an all-None shortcut for the zero right-hand side): in the "
                   "root finder's backward B is the cotangent -dL/dy, so at a stationary point the whole second derivative flows through this slot")
    _hy = ac.hygiene_rules(model, ac.get_fncls(model, '_RootFinder'), PROP, min_copies=1, min_opt=2, min_conv=0, min_idx=4)
    from ..rules import substitution as _subst
    _sub = _subst.rules(model, PROP, tier)
    # the adjoint systems of this backward are solved by the iterative methods; for a non-Hermitian / not positive definite operator their
    # set-up falls back to the normal equations, which must be A^H A x = A^H b (shared with C01-N)
    from ..rules import c01_layout as _c01l
    LSN = RuleResult(PROP, "LS-N", "inner linear solve: the normal-equation fallback applies one adjoint map to operator and right-hand side (A^H A x = A^H b)", min_instances=3)
    _c01l.check_normal_equations(model, LSN)
    from .c01 import krylov_loop_rules as _klr
    _ls = _klr(model, PROP)
    return [R1, R2, R3, R4, R5, R6, J, U, *_hy, RJ, RB, *_sub, LSN, *_ls]


def _saved_output_names(fc) -> set:
    """names in backward bound to ctx.saved_tensors[0] where forward saved its output first"""
    fw, bw = fc.forward, fc.backward
    out = set()
    # forward: ctx.save_for_backward(y, ...) with y returned
    rets = [r.value.id for r in ac.own_returns(fw) if isinstance(r.value, ast.Name)]
    first_saved = None
    for c in own_nodes(fw.node):
        if isinstance(c, ast.Call) and isinstance(c.func, ast.Attribute) and c.func.attr == "save_for_backward" and c.args:
            if isinstance(c.args[0], ast.Name):
                first_saved = c.args[0].id
    if first_saved is None or first_saved not in rets:
        raise AnalysisError("%s.forward does not save its returned output first" % fc.name)
    for s in own_nodes(bw.node):
        if isinstance(s, ast.Assign) and isinstance(s.targets[0], ast.Name) and ast.unparse(s.value) == "%s.saved_tensors[0]" % fc.bctx:
            out.add(s.targets[0].id)
    if not out:
        raise AnalysisError("%s.backward never reads ctx.saved_tensors[0]" % fc.name)
    return out


def _ift_system(fc, J: RuleResult):
    bw = fc.backward
    defs = function_defs(bw.node)
    youts = _saved_output_names(fc)
    call = None
    for c in own_nodes(bw.node):
        if isinstance(c, ast.Call) and isinstance(c.func, ast.Name) and c.func.id == "solve":
            call = c
    if call is None:
        raise AnchorError("no solve(...) in _RootFinder.backward")
    kws = {k.arg: k.value for k in call.keywords if k.arg}
    A = kws.get("A", call.args[0] if call.args else None)
    B = kws.get("B", call.args[1] if len(call.args) > 1 else None)
    st = enclosing_stmt(call)
    # A = <jac>.H
    if isinstance(A, ast.Attribute) and A.attr == "H" and isinstance(A.value, ast.Name):
        J.ok(bw.fq, "solve operator is %s (Hermitian adjoint of the Jacobian)" % ast.unparse(A))
        jd = defs.get(A.value.id, [])
        ok = False
        for d in jd:
            # jac(fcn, params=(yout, *params), idxs=[0])[0]
            dd = d.value if isinstance(d, ast.Subscript) else d
            if isinstance(dd, ast.Call) and isinstance(dd.func, ast.Name) and dd.func.id == "jac":
                k2 = {k.arg: k.value for k in dd.keywords if k.arg}
                prm = k2.get("params", dd.args[1] if len(dd.args) > 1 else None)
                idxs = k2.get("idxs", dd.args[2] if len(dd.args) > 2 else None)
                first = prm.elts[0] if isinstance(prm, ast.Tuple) and prm.elts else None
                pos0 = isinstance(first, ast.Name) and first.id in youts
                idx0 = idxs is not None and ast.unparse(idxs) in ("[0]", "0", "(0,)")
                f_ok = dd.args and isinstance(dd.args[0], ast.Name) and "%s.fcn" % fc.bctx in [ast.unparse(x) for x in defs.get(dd.args[0].id, [])] + [ast.unparse(dd.args[0])]
                what = "J = %s" % ast.unparse(d)
                if pos0 and idx0 and f_ok:
                    J.ok(bw.fq, what + " : Jacobian of ctx.fcn w.r.t. argument 0 at the saved output")
                    ok = True
                else:
                    J.bad(bw, st, "the Jacobian must be that of ctx.fcn w.r.t. its first argument, evaluated at the saved output "
                          "(pos0=%s idx0=%s fcn=%s)" % (pos0, idx0, f_ok), what=what)
                    ok = True
        if not ok:
            J.bad(bw, st, "the operator handed to solve does not come from jac(...)")
    else:
        J.bad(bw, st, "the linear system must be solved with the Hermitian adjoint J.H of the Jacobian", what=ast.unparse(A) if A is not None else "")
    # B = -grad_yout (sign) and built from the incoming cotangent
    cot = bw.params()[1]
    if B is not None and cot in def_use_closure(bw.node, names_loaded(B), defs):
        sB = expr_sign(B, defs)
        J.ok(bw.fq, "right-hand side %s derives from the incoming cotangent (sign %+d)" % (ast.unparse(B), sB))
    else:
        J.bad(bw, st, "right-hand side of the adjoint solve must be built from the incoming cotangent")
        sB = 1
    # total sign with the pull-back
    for c in own_nodes(bw.node):
        if isinstance(c, ast.Call) and ac.is_autograd_grad(c):
            go = ac._kw(c, "grad_outputs")
            s = sB * expr_sign(c.args[0], defs) * (expr_sign(go, defs) if go is not None else 1)
            # gyfcn sign already includes sB if it derives from the solve; avoid double counting
            what = "sign(B)*sign(outputs)*sign(grad_outputs) = %+d" % s
            if s == -1:
                J.ok(bw.fq, what + " (dy/dtheta = -J^-1 df/dtheta)")
            else:
                J.bad(bw, enclosing_stmt(c), "total sign of the implicit gradient must be negative", what=what)
            # grad_outputs must be the solution of the linear solve
            if go is not None and isinstance(go, ast.Name):
                clo = def_use_closure(bw.node, {go.id}, defs)
                src = " ".join(ast.unparse(d) for n in clo for d in defs.get(n, []))
                if "solve(" in src:
                    J.ok(bw.fq, "grad_outputs `%s` is the solution of the adjoint solve" % go.id)
                else:
                    J.bad(bw, enclosing_stmt(c), "grad_outputs of the pull-back is not the solution of the adjoint linear solve")


def _pullback(fc, U: RuleResult):
    bw = fc.backward
    defs = function_defs(bw.node)
    youts = _saved_output_names(fc)
    grads = [c for c in own_nodes(bw.node) if isinstance(c, ast.Call) and ac.is_autograd_grad(c)]
    if len(grads) != 1:
        raise AnalysisError("_RootFinder.backward: expected exactly one pull-back")
    g = grads[0]
    outs, inputs = g.args[0], g.args[1]
    if not (isinstance(outs, ast.Name) and isinstance(inputs, ast.Name)):
        raise AnalysisError("pull-back outputs/inputs are not plain names")
    # inputs = fresh copies
    idef = defs.get(inputs.id, [])
    fresh = len(idef) == 1 and isinstance(idef[0], ast.ListComp) and "clone()" in ast.unparse(idef[0].elt) and "requires_grad_" in ast.unparse(idef[0].elt)
    src_saved = fresh and "saved_tensors" in " ".join(ast.unparse(d) for n in def_use_closure(bw.node, names_loaded(idef[0].generators[0].iter), defs) for d in defs.get(n, []))
    if fresh and src_saved:
        U.ok(bw.fq, "pull-back inputs `%s` are fresh differentiable clones of the saved tensor parameters" % inputs.id)
    else:
        U.bad(bw, enclosing_stmt(g), "pull-back inputs must be fresh `.clone().requires_grad_()` copies of the saved tensors")
    # outputs = fcn(yout, *params_copy) inside with useobjparams(objparams_copy) inside enable_grad
    odef = None
    for s in own_nodes(bw.node):
        if isinstance(s, ast.Assign) and isinstance(s.targets[0], ast.Name) and s.targets[0].id == outs.id:
            odef = s
    if odef is None or not isinstance(odef.value, ast.Call):
        raise AnalysisError("definition of the pull-back outputs not found")
    call = odef.value
    at_out = call.args and isinstance(call.args[0], ast.Name) and call.args[0].id in youts
    if at_out:
        U.ok(bw.fq, "function re-evaluated at the saved output: %s" % norm_stmt(odef))
    else:
        U.bad(bw, odef, "the pull-back must evaluate the function at the saved output (the returned point)")
    star = [a for a in call.args if isinstance(a, ast.Starred)]
    copies_clo = def_use_closure(bw.node, names_loaded(star[0]) if star else set(), defs)
    if star and inputs.id in copies_clo:
        U.ok(bw.fq, "explicit parameters passed to the function derive from the fresh copies")
    else:
        U.bad(bw, odef, "explicit parameters of the re-evaluation are not the fresh copies")
    withs = [a for a in ancestors(odef) if isinstance(a, ast.With)]
    use = [w for w in withs if any("useobjparams" in ast.unparse(i.context_expr) for i in w.items)]
    eg = [w for w in withs if any("enable_grad" in ast.unparse(i.context_expr) for i in w.items)]
    inner_ok = False
    for w in use[:1]:
        for i in w.items:
            c = i.context_expr
            if isinstance(c, ast.Call) and c.args and inputs.id in def_use_closure(bw.node, names_loaded(c.args[0]), defs):
                inner_ok = True
    if inner_ok and eg:
        U.ok(bw.fq, "re-evaluation is inside useobjparams(<copies>) and torch.enable_grad()")
    else:
        U.bad(bw, odef, "the re-evaluation must run inside `with <fcn>.useobjparams(<fresh copies>)` under torch.enable_grad() "
              "(object-held tensors would otherwise not receive gradients)")
