"""C02 -- gradients through solve: structural necessary conditions of the implicit backward."""
from __future__ import annotations
import ast
from typing import List
from ..model import Model, own_nodes, norm_stmt, AnalysisError, AnchorError, enclosing_stmt
from ..report import RuleResult
from ..flow import function_defs, names_loaded, def_use_closure
from ..rules import autograd as ac
from ..rules.hermitian import hermitian_idiom, expr_sign

PROP = "C02"
LEVEL = "other"
EXPLANATION = (
    "Autograd-Function contract of solve_torchfcn decided from the source: (AC1) backward returns one gradient per forward "
    "input and every .apply site matches forward's signature; (AC2) only B and E may carry a gradient; (AC3) every "
    "autograd.grad records the graph iff the caller does (second order); (AC4) both parameter pull-backs pass "
    "allow_unused=True (non-influencing inputs get no gradient instead of an error); (AC5) the adjoint solve receives the "
    "saved backward options by ** splat; (AC6) the wrapper passes len(params) in the slot forward uses to split *rest and "
    "backward returns the two parameter groups in the same order; (H) the adjoint system uses A.H, M.H, conj(E), grad_E "
    "contracts V with conj(M X), and every last-two-axes transpose in adjoint-role code is conjugated; (S) the pull-back "
    "signs are - for A and + for M. NOT decided: equality with the derivative of (A - E M)^-1 B.")
ASSUMPTIONS = ["torch.autograd semantics", "LinearOperator.H of the operand is its Hermitian adjoint (C11)"]

SOLVE_PUB = "xitorch/linalg/solve.py"
ADJ_FILES = {"xitorch/linalg/solve.py", "xitorch/_impls/linalg/solve.py", "xitorch/_core/linop.py"}
H_EXCEPTIONS = {
    ("xitorch/_impls/linalg/solve.py", "wrap_gmres"): "layout transposition of a real right-hand side (complex is rejected by an assert)",
}


def rules(model: Model, tier: str) -> List[RuleResult]:
    fc = ac.get_fncls(model, "solve_torchfcn")
    R1 = RuleResult(PROP, "AC1", "arity: backward returns one gradient per forward input; apply sites match", min_instances=2)
    R2 = RuleResult(PROP, "AC2", "only B and E slots may carry a gradient; all other fixed slots are the literal None", min_instances=8)
    R3 = RuleResult(PROP, "AC3", "autograd.grad(create_graph=torch.is_grad_enabled()) in solve.py", min_instances=2)
    R4 = RuleResult(PROP, "AC4", "parameter pull-backs pass allow_unused=True", min_instances=2)
    R5 = RuleResult(PROP, "AC5", "adjoint solve receives the saved backward options by ** splat", min_instances=1)
    R6 = RuleResult(PROP, "AC6", "layout agreement between solve(), forward's split of *all_params and backward's returned groups", min_instances=3)
    H = RuleResult(PROP, "C02-H", "Hermitian-adjoint idiom in adjoint-role code", min_instances=9)
    S = RuleResult(PROP, "C02-S", "sign parity of the pull-backs: - for A, + for M", min_instances=2)

    ac.ac1_arity(model, fc, R1)
    ac.ac2_frozen_none(fc, R2)
    ac.ac3_create_graph(model, R3, files={SOLVE_PUB, "xitorch/_core/linop.py"})   # incl. the adjoint trick behind rmv/rmm
    ac.ac4_allow_unused(fc, R4)
    ac.ac5_options_forwarding(model, fc, R5, {"solve"})
    ac.ac6_layout(model, fc, R6)
    _backward_group_order(fc, R6)
    _adjoint_system(model, fc, H)
    hermitian_idiom(model, H, ADJ_FILES, H_EXCEPTIONS)
    _signs(fc, S)
    from ..rules import linopalg
    ADJ = RuleResult(PROP, "C02-A", "the adjoint used by the backward solve: composed operators' _rmv is the formal adjoint of _mv", min_instances=4)
    STL = RuleResult(PROP, "C02-F", "the adjoint operator is derived afresh on every backward: LinearOperator.H / AdjointLinearOperator keep no cached state", min_instances=5)
    linopalg.adjoint_structure(model, ADJ)
    _lin = model.cls(linopalg.LINOP, "LinearOperator")
    _adj = model.cls(linopalg.LINOP, "AdjointLinearOperator")
    linopalg.stateless(model, STL, classes=[_lin], only_methods={"H", "m", "mv", "mm", "rmv", "rmm", "fullmatrix", "uselinopparams"})
    linopalg.stateless(model, STL, classes=[_adj])
    HF = RuleResult(PROP, "C02-HF", "Hermitian flag of composed operators (a wrong True makes A.H the operator itself in the adjoint solve)", min_instances=4)
    linopalg.hermitian_flags(model, HF)
    _hy = ac.hygiene_rules(model, ac.get_fncls(model, 'solve_torchfcn'), PROP, min_copies=2, min_opt=2)
    from ..rules import substitution as _subst
    _sub = _subst.rules(model, PROP, tier)
    # the adjoint systems of this backward are solved by the iterative methods; for a non-Hermitian / not positive definite operator their
    # set-up falls back to the normal equations, which must be A^H A x = A^H b (shared with C01-N)
    from ..rules import c01_layout as _c01l
    LSN = RuleResult(PROP, "LS-N", "inner linear solve: the normal-equation fallback applies one adjoint map to operator and right-hand side (A^H A x = A^H b)", min_instances=3)
    _c01l.check_normal_equations(model, LSN)
    from .c01 import _zero_rhs_shortcut as _zrs
    ZS = RuleResult(PROP, "C02-Z", "the zero right-hand-side shortcut is taken only for an exactly zero right-hand side (a tiny non-zero one would get X = 0 and zero gradients)", min_instances=1)
    _zrs(model, ZS)
    from .c01 import krylov_loop_rules as _klr
    _ls = _klr(model, PROP)
    return [R1, R2, R3, R4, R5, R6, H, S, *_hy, ADJ, STL, HF, *_sub, LSN, ZS, *_ls]


def _backward_group_order(fc, R6: RuleResult):
    """backward's starred results follow forward's segment order: the i-th starred name is the result of a
    pull-back whose `inputs` derive from the i-th slice of the saved parameters"""
    bw = fc.backward
    defs = function_defs(bw.node)
    rets = ac.own_returns(bw)
    # segments in backward: names defined as <x>[:ctx.na] / <x>[ctx.na:]
    seg_of = {}
    for nm, ds in defs.items():
        for d in ds:
            if isinstance(d, ast.Subscript) and isinstance(d.slice, ast.Slice):
                lo, hi = d.slice.lower, d.slice.upper
                if lo is None and hi is not None and "na" in ast.unparse(hi):
                    seg_of[nm] = 0
                elif hi is None and lo is not None and "na" in ast.unparse(lo):
                    seg_of[nm] = 1
    for r in rets:
        if not isinstance(r.value, ast.Tuple):
            continue
        stars = [e.value for e in r.value.elts if isinstance(e, ast.Starred)]
        order = []
        for s in stars:
            if not isinstance(s, ast.Name):
                order.append(None)
                continue
            segs = set()
            for d in defs.get(s.id, []):
                if isinstance(d, ast.Call) and ac.is_autograd_grad(d):
                    inp = ac._kw(d, "inputs") or (d.args[1] if len(d.args) >= 2 else None)
                    if inp is None:
                        continue
                    clo = def_use_closure(bw.node, names_loaded(inp), defs)
                    segs |= {seg_of[n] for n in clo if n in seg_of}
            order.append(segs.pop() if len(segs) == 1 else None)
        what = "backward returns starred groups %s built from segments %s" % ([ast.unparse(s) for s in stars], order)
        if order == list(range(len(stars))) and len(stars) == 2:
            R6.ok(bw.fq, what)
        else:
            R6.bad(bw, r, "the starred gradient groups returned by backward are not in the order in which forward "
                   "splits *all_params (A's parameters, then M's)", what=what)


def _adjoint_system(model: Model, fc, H: RuleResult):
    bw = fc.backward
    defs = function_defs(bw.node)
    ctx = fc.bctx
    call = None
    for c in own_nodes(bw.node):
        if isinstance(c, ast.Call) and isinstance(c.func, ast.Name) and c.func.id == "solve":
            call = c
    if call is None:
        raise AnchorError("no adjoint solve(...) call in solve_torchfcn.backward")
    if len(call.args) < 4:
        raise AnalysisError("adjoint solve call without positional (A, B, E, M)")

    def resolve(e):
        d = 0
        while isinstance(e, ast.Name) and len(defs.get(e.id, [])) == 1 and d < 5:
            e = defs[e.id][0]
            d += 1
        return e

    def strip_ifexp(e):
        # `X.H if X is not None else None` in either polarity: the arm that is not the literal None
        if isinstance(e, ast.IfExp):
            arms = [a for a in (e.body, e.orelse) if not (isinstance(a, ast.Constant) and a.value is None)]
            return arms[0] if len(arms) == 1 else e
        return e

    a = resolve(call.args[0])
    what = "adjoint solve operator = %s" % ast.unparse(a)
    if isinstance(a, ast.Attribute) and a.attr == "H" and ast.unparse(a.value) == "%s.A" % ctx:
        H.ok(bw.fq, what)
    else:
        H.bad(bw, enclosing_stmt(call), "the operator of the adjoint solve must be ctx.A.H", what=what)
    m = strip_ifexp(resolve(call.args[3]))
    what = "adjoint solve M = %s" % ast.unparse(m)
    if isinstance(m, ast.Attribute) and m.attr == "H" and ast.unparse(m.value) == "%s.M" % ctx:
        H.ok(bw.fq, what)
    else:
        H.bad(bw, enclosing_stmt(call), "M of the adjoint solve must be ctx.M.H", what=what)
    e = strip_ifexp(resolve(call.args[2]))
    what = "adjoint solve shift = %s" % ast.unparse(e)
    if isinstance(e, ast.Call) and isinstance(e.func, ast.Attribute) and e.func.attr == "conj":
        H.ok(bw.fq, what)
    else:
        H.bad(bw, enclosing_stmt(call), "the shifts of the adjoint solve must be conj(E)", what=what)
    # right-hand side is the incoming cotangent
    b = call.args[1]
    if isinstance(b, ast.Name) and b.id == bw.params()[1]:
        H.ok(bw.fq, "adjoint solve right-hand side is the incoming cotangent %s" % b.id)
    else:
        H.bad(bw, enclosing_stmt(call), "right-hand side of the adjoint solve must be the incoming cotangent")
    # grad_E = <v, conj(M x)>; v is whatever name the adjoint solve is bound to (and plain aliases of it)
    st = enclosing_stmt(call)
    v_names = {t.id for t in getattr(st, "targets", []) if isinstance(t, ast.Name)} if isinstance(st, ast.Assign) and st.value is call else set()
    grew = True
    while grew:
        grew = False
        for nm, ds in defs.items():
            if nm not in v_names and len(ds) == 1 and isinstance(ds[0], ast.Name) and ds[0].id in v_names:
                v_names.add(nm)
                grew = True
    found = False
    for s in own_nodes(bw.node):
        if not (isinstance(s, ast.Assign) and isinstance(s.targets[0], ast.Name) and isinstance(s.value, ast.Call)):
            continue
        fn_ = ast.unparse(s.value.func)
        ops = conj = None
        if fn_.endswith("einsum") and len(s.value.args) == 3:
            ops = s.value.args[1:]
            conj = [isinstance(o, ast.Call) and isinstance(o.func, ast.Attribute) and o.func.attr == "conj" for o in ops]
        elif fn_.endswith("vecdot") and len(s.value.args) >= 2:
            # torch.linalg.vecdot(a, b, dim) = sum(conj(a) * b, dim): the first operand is the conjugated one
            ops = s.value.args[:2]
            explicit = [isinstance(o, ast.Call) and isinstance(o.func, ast.Attribute) and o.func.attr == "conj" for o in ops]
            conj = [not explicit[0], explicit[1]]
        if ops is None:
            continue
        found = True
        what = "%s" % norm_stmt(s, 100)
        if conj.count(True) == 1:
            other = ops[conj.index(False)]
            v_ok = isinstance(other, ast.Name) and other.id in v_names
            if v_ok:
                H.ok(bw.fq, "grad_E contracts the adjoint solution with a conjugated M x: " + what)
            else:
                H.bad(bw, s, "grad_E must contract the adjoint solution V with conj(M X)", what=what)
        else:
            H.bad(bw, s, "grad_E must conjugate exactly the M X operand", what=what)
    if not found:
        H.undecided(bw, bw.node, "cannot find the contraction that forms grad_E (einsum / vecdot)")


def _signs(fc, S: RuleResult):
    bw = fc.backward
    defs = function_defs(bw.node)
    n = 0
    for c in own_nodes(bw.node):
        if isinstance(c, ast.Call) and ac.is_autograd_grad(c):
            outs = c.args[0] if c.args else None
            go = ac._kw(c, "grad_outputs")
            if outs is None or go is None:
                S.bad(bw, enclosing_stmt(c), "pull-back without explicit outputs/grad_outputs")
                continue
            sign = expr_sign(outs, defs) * expr_sign(go, defs)
            clo_src = " ".join(ast.unparse(d) for nm in def_use_closure(bw.node, names_loaded(outs), defs) for d in defs.get(nm, []))
            which = "A" if ".A.mm" in clo_src else ("M" if ".M.mm" in clo_src else "?")
            want = {"A": -1, "M": 1}.get(which)
            n += 1
            what = "pull-back through %s.mm: sign(outputs)*sign(grad_outputs) = %+d" % (which, sign)
            if want is None:
                S.bad(bw, enclosing_stmt(c), "cannot tell which operator this pull-back differentiates", what=what)
            elif sign == want:
                S.ok(bw.fq, what)
            else:
                S.bad(bw, enclosing_stmt(c), "sign of the %s pull-back must be %+d (d(AX - MXE - B) = 0)" % (which, want), what=what)
    return n
