"""C14 -- Interp1D evaluates the declared interpolant of the samples (structural part)."""
from __future__ import annotations
import ast
from fractions import Fraction as Fr
from typing import List, Dict, Optional, Tuple
from ..model import Model, FuncInfo, own_nodes, norm_stmt, AnalysisError, AnchorError, enclosing_stmt, ancestors
from ..report import RuleResult
from ..flow import function_defs, names_loaded
from ..callgraph import dict_literal_entries
from ..domains.poly import Rat, Poly, C, S, Uninterpretable, eval_expr
from ..domains import splinesys

PROP = "C14"
LEVEL = "other"
EXPLANATION = (
    "Decided from the source for every grid, query set and y at once: (E) both internal evaluation formulas of the cubic spline (chosen "
    "by comparing query and knot counts) normalise to the SAME rational function, the cubic Hermite interpolant "
    "y_l(2t^3-3t^2+1) + y_r(-2t^3+3t^2) + k_l dx (t^3-2t^2+t) + k_r dx (t^3-t^2), t = (xq-x_l)/(x_r-x_l) - hence value-interpolating at "
    "the knots and C1 for any slopes; both linear formulas normalise to y_l(1-t)+y_r t; (S) the interval search clamps the right index to "
    "[1, nr-1] and the left index is right-1; (B) the slope system L k = R y built by _get_spline_mat_inv, interpreted in a "
    "size-parametric band/stencil domain (no unrolling), has as interior row the C2 condition derived from that same Hermite "
    "polynomial, and for each bc_type (natural, clamped, not-a-knot, periodic) its first and last rows are the documented boundary "
    "condition (rows compared up to a common scaling of L and R), and the slopes are solve(L, R) y in both places they are computed; "
    "(X) the extrapolation modes routed by the caller are exactly those the helpers handle, every other value raises, the default "
    "mode per bc_type is a handled one; (M) the position-mapping modes are the identity's inverse pair (x-xmin)/(xmax-xmin) <-> "
    "u*(xmax-xmin)+xmin around: fractional part (periodic), clamp to [0,1] (bound), the triangle wave (mirror; decided by a parity "
    "case split on the integer part); (P) a y supplied at construction or at call time is permuted with the sort permutation of x; "
    "(D) the gradient path: no detach/no_grad on y, ks, xq inside the evaluation (only the index search is detached); (H) the evaluation "
    "methods write no instance state, so a result cannot depend on earlier calls. NOT decided: "
    "numerical agreement with SciPy, batching/broadcast shapes.")
ASSUMPTIONS = ["torch.gather(v, -1, idx) selects v at idx; v[..., :-1] / v[..., 1:] are the left / right knot values of each interval",
               "torch.searchsorted(x, xq, right=False) returns the index of the first knot >= xq",
               "torch.linalg.solve(L, R) returns L^-1 R; torch.diagonal returns a writable view",
               "the slope system is interpreted for a symbolic size nr >= 6 (named boundary columns distinct) and, separately, for the concrete small sizes nr = 3, 4, 5"]

I1D = "xitorch/_impls/interpolate/interp_1d.py"
INTERP = "xitorch/interpolate/interp1.py"
EXTRAP = "xitorch/_impls/interpolate/extrap_utils.py"


def hermite(t: Rat) -> Rat:
    yl, yr, kl, kr = S("yl"), S("yr"), S("kl"), S("kr")
    dx = S("xr") - S("xl")
    t2 = t * t
    t3 = t2 * t
    return (yl * (C(2) * t3 - C(3) * t2 + C(1)) + yr * (C(-2) * t3 + C(3) * t2) +
            kl * dx * (t3 - C(2) * t2 + t) + kr * dx * (t3 - t2))


def linear(t: Rat) -> Rat:
    return S("yl") * (C(1) - t) + S("yr") * t


T_EXPECT = (S("xq") - S("xl")) / (S("xr") - S("xl"))


class _Sel:
    """knot-indexed raw array (x, y, ks): not yet selected at a side"""
    def __init__(self, base):
        self.base = base


class _EvalInterp:
    """selector abstraction: v[..., :-1] -> left knot, v[..., 1:] -> right knot; gather(v, idxl) -> left, gather(v, idxr) -> right;
    gather(<per-interval quantity>, idxl) -> the quantity; match_dim / contiguous: identity"""
    SYMS = {"x": ("xl", "xr"), "y": ("yl", "yr"), "ks": ("kl", "kr")}

    def __init__(self, fi: FuncInfo, roles: Dict[str, str], sides: Dict[str, str], source: str):
        self.fi = fi
        self.env: Dict[str, object] = {}
        self.roles = dict(roles)      # local name -> base role (x / y / ks / xq)
        self.sides = dict(sides)      # index local -> "L" / "R"
        self.source = source

    def sel(self, base, side):
        l, r = self.SYMS[base]
        return S(l if side == "L" else r)

    def need(self, v, e):
        if isinstance(v, _Sel):
            raise Uninterpretable("knot array `%s` used arithmetically without selecting a side" % ast.unparse(e))
        return v

    def ev(self, e):
        if isinstance(e, ast.Constant) and isinstance(e.value, (int, float)) and not isinstance(e.value, bool):
            from ..domains.exact import fold
            return C(fold(e, self.source))
        if isinstance(e, ast.Name):
            if e.id in self.env:
                return self.env[e.id]
            if e.id in self.roles:
                r = self.roles[e.id]
                return S("xq") if r == "xq" else _Sel(r)
            raise Uninterpretable("unknown name %s" % e.id)
        if isinstance(e, ast.Attribute) and isinstance(e.value, ast.Name) and e.value.id == "self" and ("self." + e.attr) in self.roles:
            return _Sel(self.roles["self." + e.attr])
        if isinstance(e, ast.UnaryOp) and isinstance(e.op, ast.USub):
            return -self.need(self.ev(e.operand), e.operand)
        if isinstance(e, ast.BinOp):
            a, b = self.need(self.ev(e.left), e.left), self.need(self.ev(e.right), e.right)
            if isinstance(e.op, ast.Add):
                return a + b
            if isinstance(e.op, ast.Sub):
                return a - b
            if isinstance(e.op, ast.Mult):
                return a * b
            if isinstance(e.op, ast.Div):
                return a / b
            if isinstance(e.op, ast.Pow) and isinstance(e.right, ast.Constant) and isinstance(e.right.value, int):
                return a ** e.right.value
            raise Uninterpretable("operator %s" % type(e.op).__name__)
        if isinstance(e, ast.Subscript):
            v = self.ev(e.value)
            sl = e.slice.elts if isinstance(e.slice, ast.Tuple) else [e.slice]
            last = sl[-1]
            lead_ok = all(isinstance(s, ast.Constant) and s.value is Ellipsis for s in sl[:-1])
            if isinstance(v, _Sel) and isinstance(last, ast.Slice) and last.step is None and lead_ok:
                lo, hi = last.lower, last.upper
                if lo is None and isinstance(hi, ast.UnaryOp) and isinstance(hi.op, ast.USub) and isinstance(hi.operand, ast.Constant) and hi.operand.value == 1:
                    return self.sel(v.base, "L")
                if hi is None and isinstance(lo, ast.Constant) and lo.value == 1:
                    return self.sel(v.base, "R")
            raise Uninterpretable("subscript %s" % ast.unparse(e))
        if isinstance(e, ast.Call):
            f = e.func
            name = ast.unparse(f)
            if name == "torch.gather":
                args = list(e.args) + [k.value for k in e.keywords if k.arg in ("index", "input")]
                v = self.ev(e.args[0] if e.args else [k.value for k in e.keywords if k.arg == "input"][0])
                dims = [a for a in e.args[1:2]] + [k.value for k in e.keywords if k.arg == "dim"]
                if not dims or ast.unparse(dims[0]) != "-1":
                    raise Uninterpretable("gather along a dimension other than the last: %s" % ast.unparse(e))
                idx = [a for a in list(e.args[2:3]) + [k.value for k in e.keywords if k.arg == "index"] if isinstance(a, ast.Name) and a.id in self.sides]
                if not idx:
                    raise Uninterpretable("gather index is not the left/right interval index: %s" % ast.unparse(e))
                side = self.sides[idx[0].id]
                if isinstance(v, _Sel):
                    return self.sel(v.base, side)
                if side == "L":
                    return v      # a per-interval quantity is indexed by its left knot
                raise Uninterpretable("per-interval quantity gathered with the right index: %s" % ast.unparse(e))
            if isinstance(f, ast.Attribute) and f.attr in ("contiguous", "clone") and not e.args:
                return self.ev(f.value)
            raise Uninterpretable("call %s" % name)
        raise Uninterpretable("expression %s" % ast.unparse(e))

    def run(self, stmts):
        for s in stmts:
            if isinstance(s, ast.Return):
                return self.need(self.ev(s.value), s.value)
            if isinstance(s, ast.Assign) and len(s.targets) == 1:
                tg = s.targets[0]
                if isinstance(tg, ast.Tuple) and isinstance(s.value, ast.Call) and ast.unparse(s.value.func) == "match_dim":
                    args = [a for a in s.value.args]
                    if len(args) != len(tg.elts):
                        raise Uninterpretable("match_dim arity")
                    new_roles, new_sides, new_env = {}, {}, {}
                    for t, a in zip(tg.elts, args):
                        if not isinstance(t, ast.Name):
                            raise Uninterpretable("match_dim target")
                        an = ast.unparse(a)
                        if isinstance(a, ast.Name) and a.id in self.sides:
                            new_sides[t.id] = self.sides[a.id]
                        elif isinstance(a, ast.Name) and a.id in self.env:
                            new_env[t.id] = self.env[a.id]
                        elif an in self.roles:
                            new_roles[t.id] = self.roles[an]
                        else:
                            raise Uninterpretable("match_dim argument %s" % an)
                    for k in list(new_roles) + list(new_sides) + list(new_env):
                        self.roles.pop(k, None)
                        self.sides.pop(k, None)
                        self.env.pop(k, None)
                    self.roles.update(new_roles)
                    self.sides.update(new_sides)
                    self.env.update(new_env)
                    continue
                if isinstance(tg, ast.Name):
                    v = self.ev(s.value)
                    self.roles.pop(tg.id, None)
                    self.sides.pop(tg.id, None)
                    if isinstance(v, _Sel):
                        self.roles[tg.id] = v.base
                        self.env.pop(tg.id, None)
                    else:
                        self.env[tg.id] = v
                    continue
                raise Uninterpretable("assignment target %s" % ast.unparse(tg))
            elif isinstance(s, ast.AugAssign) and isinstance(s.target, ast.Name):
                cur = self.need(self.ev(ast.Name(id=s.target.id, ctx=ast.Load())), s.target)
                v = self.need(self.ev(s.value), s.value)
                if isinstance(s.op, ast.Add):
                    r = cur + v
                elif isinstance(s.op, ast.Sub):
                    r = cur - v
                elif isinstance(s.op, ast.Mult):
                    r = cur * v
                elif isinstance(s.op, ast.Div):
                    r = cur / v
                else:
                    raise Uninterpretable("augmented operator")
                self.env[s.target.id] = r
            elif isinstance(s, ast.Expr) and isinstance(s.value, ast.Constant):
                continue
            else:
                raise Uninterpretable("statement %s" % type(s).__name__)
        raise Uninterpretable("branch does not return")


def _split_interp(fi: FuncInfo):
    """prologue statements, the numel test, the two branches"""
    pro = []
    body = fi.node.body
    for i, s in enumerate(body):
        if isinstance(s, ast.If) and "numel" in ast.unparse(s.test):
            # the two formulas: the arms of the test, each followed by the rest of the function unless it returns
            # (if/else and guard-clause spellings give the same two statement sequences)
            rest = list(body[i + 1:])
            ends = lambda b: bool(b) and isinstance(b[-1], (ast.Return, ast.Raise))
            s._arms = (list(s.body) + ([] if ends(s.body) else rest), list(s.orelse) + ([] if ends(s.orelse) else rest))
            return pro, s
        pro.append(s)
    raise AnalysisError("C14-E: %s no longer chooses between two evaluation formulas by comparing numel(xq) and numel(x)" % fi.fq)


def _prologue(fi: FuncInfo, pro, Sx: RuleResult, is_spline: bool):
    """roles of the locals before the branch: which name is x, xq, y, ks; which index is right / left; checks the search"""
    P = fi.params()
    xq_p, y_p = P[1], P[2]
    roles = {xq_p: "xq", y_p: "y", "self.x": "x", "self.y": "y", "self.ks": "ks"}
    sides = {}
    nr_names = set()
    search = None
    for s in pro:
        if isinstance(s, ast.If):
            # `if self.y_is_given: ks = self.ks else: ks = matmul(...)` / `if self.y_is_given: y = self.y`
            for br in (s.body, s.orelse):
                for a in br:
                    if isinstance(a, ast.Assign) and isinstance(a.targets[0], ast.Name):
                        nm = a.targets[0].id
                        v = ast.unparse(a.value)
                        if v == "self.ks" or "spline_mat_inv" in v:
                            roles[nm] = "ks"
                        elif v == "self.y":
                            roles[nm] = "y"
            continue
        if not isinstance(s, ast.Assign):
            continue
        tg, v = s.targets[0], s.value
        if isinstance(tg, ast.Tuple) and isinstance(v, ast.Call) and ast.unparse(v.func) == "match_dim":
            for t, a in zip(tg.elts, v.args):
                an = ast.unparse(a)
                if an in roles and isinstance(t, ast.Name):
                    roles[t.id] = roles[an]
            continue
        if isinstance(tg, ast.Name):
            src = ast.unparse(v)
            if src.endswith(".shape[-1]") and roles.get(src[:-len(".shape[-1]")]) == "x":
                nr_names.add(tg.id)
            elif isinstance(v, ast.Call) and ast.unparse(v.func) == "torch.searchsorted":
                search = (tg.id, v, s)
                sides[tg.id] = "R"
            elif isinstance(v, ast.Call) and ast.unparse(v.func) == "torch.clamp" and v.args and isinstance(v.args[0], ast.Name) and v.args[0].id in sides:
                kwc = {k.arg: k.value for k in v.keywords}
                lo = v.args[1] if len(v.args) > 1 else kwc.get("min")
                hi = v.args[2] if len(v.args) > 2 else kwc.get("max")
                ok_lo = isinstance(lo, ast.Constant) and lo.value == 1
                ok_hi = isinstance(hi, ast.BinOp) and isinstance(hi.op, ast.Sub) and isinstance(hi.left, ast.Name) and hi.left.id in nr_names \
                    and isinstance(hi.right, ast.Constant) and hi.right.value == 1
                if ok_lo and ok_hi:
                    Sx.ok(fi.fq, "right index clamped to [1, nr-1]: `%s`" % norm_stmt(s))
                else:
                    Sx.bad(fi, s, "the right interval index must be clamped to [1, nr - 1] (left index 0..nr-2)")
                sides[tg.id] = "R"
            elif isinstance(v, ast.BinOp) and isinstance(v.op, ast.Sub) and isinstance(v.left, ast.Name) and v.left.id in sides \
                    and isinstance(v.right, ast.Constant) and v.right.value == 1:
                sides[tg.id] = "L"
                Sx.ok(fi.fq, "left index = right index - 1: `%s`" % norm_stmt(s))
            elif isinstance(v, ast.Call) and ("spline_mat_inv" in src) and is_spline:
                roles[tg.id] = "ks"
    if search is None:
        raise AnalysisError("C14-S: the interval search (torch.searchsorted) vanished from %s" % fi.fq)
    nm, call, st = search
    a0 = call.args[0] if call.args else None
    a1 = call.args[1] if len(call.args) > 1 else None

    def strip(e):
        while isinstance(e, ast.Call) and isinstance(e.func, ast.Attribute) and e.func.attr in ("detach", "contiguous") and not e.args:
            e = e.func.value
        return ast.unparse(e)
    kw = {k.arg: ast.unparse(k.value) for k in call.keywords}
    if a0 is not None and a1 is not None and roles.get(strip(a0)) == "x" and roles.get(strip(a1)) == "xq" and kw.get("right", "False") == "False" and kw.get("side", "'left'").strip("'\"") == "left":
        Sx.ok(fi.fq, "interval search: searchsorted(<knots>, <queries>, right=False)")
    else:
        Sx.bad(fi, st, "the interval search must be searchsorted(x, xq, right=False)")
    if "L" not in sides.values():
        Sx.bad(fi, st, "no left interval index (right index - 1) is defined")
    return roles, sides


def _formulas(model: Model, E: RuleResult, Sx: RuleResult, D: RuleResult):
    for clsname, expect_fn, label in (("CubicSpline1D", hermite, "cubic Hermite interpolant"), ("LinearInterp1D", linear, "linear interpolant")):
        fi = model.func(I1D, clsname + "._interp")
        pro, br = _split_interp(fi)
        roles, sides = _prologue(fi, pro, Sx, clsname == "CubicSpline1D")
        # the test must compare the numbers of queries and knots (any orientation): both formulas are then interchangeable anyway
        expected = expect_fn(T_EXPECT)
        vals = []
        for bi, body in enumerate(br._arms):
            it = _EvalInterp(fi, roles, sides, fi.module.source)
            try:
                yq = it.run(body)
            except Uninterpretable as e:
                raise AnalysisError("C14-E: cannot interpret branch %d of %s: %s" % (bi, fi.fq, e))
            vals.append(yq)
            what = "%s._interp, %s: yq == %s at t=(xq-xl)/(xr-xl)" % (clsname, "many-queries formula" if bi == 0 else "few-queries formula", label)
            if yq.eq(expected):
                E.ok(fi.fq, what)
            else:
                rets = [r for s in body for r in ast.walk(s) if isinstance(r, ast.Return)]
                # diagnose: which basis coefficient differs
                diff = []
                for sym in ("yl", "yr", "kl", "kr"):
                    a = (yq.n * expected.d).coeff_of(sym, 1)
                    b = (expected.n * yq.d).coeff_of(sym, 1)
                    if a != b:
                        diff.append(sym)
                E.bad(fi, rets[-1] if rets else br, "the evaluated formula is not the %s (coefficients of %s differ)" % (label, diff or "the denominator / t"), what=what)
        if vals[0].eq(vals[1]):
            E.ok(fi.fq, "%s._interp: the two formulas are the same rational function of (xq, xl, xr, yl, yr%s)" % (clsname, ", kl, kr" if clsname == "CubicSpline1D" else ""))
        else:
            E.bad(fi, br, "the two evaluation formulas differ: the result would depend on the number of query points")
        # gradient path: only the search detaches
        dets = []
        for n in ast.walk(fi.node):
            if isinstance(n, ast.Call) and isinstance(n.func, ast.Attribute) and n.func.attr in ("detach", "item", "tolist", "numpy"):
                par = [a for a in ancestors(n) if isinstance(a, ast.Call) and ast.unparse(a.func) == "torch.searchsorted"]
                if not par:
                    dets.append(n)
            if isinstance(n, ast.With) and "no_grad" in ast.unparse(n.items[0].context_expr):
                dets.append(n)
        if dets:
            D.bad(fi, enclosing_stmt(dets[0]) if not isinstance(dets[0], ast.With) else dets[0], "a value on the differentiable path (y, slopes, queries) is detached in the evaluation")
        else:
            D.ok(fi.fq, "%s._interp: only the arguments of the index search are detached" % clsname)


# ------------------------------------------------------------------------------------------ slopes
def _slopes(model: Model, K: RuleResult):
    init = model.func(I1D, "CubicSpline1D.__init__")
    interp = model.func(I1D, "CubicSpline1D._interp")

    def ks_defs(fi):
        out = []
        for s in ast.walk(fi.node):
            if isinstance(s, ast.Assign) and isinstance(s.value, ast.Call) and "spline_mat_inv" in ast.unparse(s.value) and "matmul" in ast.unparse(s.value.func):
                out.append(s)
        return out

    def shape_ok(s, yname):
        v = s.value
        # torch.matmul(self.spline_mat_inv, y.unsqueeze(-1)).squeeze(-1)
        if not (isinstance(v, ast.Call) and isinstance(v.func, ast.Attribute) and v.func.attr == "squeeze" and [ast.unparse(a) for a in v.args] == ["-1"]):
            return False
        m = v.func.value
        return (isinstance(m, ast.Call) and ast.unparse(m.func) == "torch.matmul" and len(m.args) == 2 and ast.unparse(m.args[0]) == "self.spline_mat_inv"
                and ast.unparse(m.args[1]) == "%s.unsqueeze(-1)" % yname)
    for fi, yname in ((init, init.params()[2]), (interp, interp.params()[2])):
        ds = ks_defs(fi)
        if len(ds) == 1 and shape_ok(ds[0], yname):
            K.ok(fi.fq, "slopes = spline_mat_inv @ %s (the y that is interpolated): `%s`" % (yname, norm_stmt(ds[0])))
        else:
            K.bad(fi, ds[0] if ds else fi.node, "the knot slopes must be spline_mat_inv @ y for the same y that is interpolated")
    # every definition of the slopes that can reach the formulas is one of the two accepted ones
    ksnames = set()
    for a in ast.walk(interp.node):
        if isinstance(a, ast.Assign) and isinstance(a.targets[0], ast.Name) and (ast.unparse(a.value) == "self.ks" or a in ks_defs(interp)):
            ksnames.add(a.targets[0].id)
    stray = []
    for a in ast.walk(interp.node):
        tgts = []
        if isinstance(a, ast.Assign):
            for t in a.targets:
                tgts += [e for e in (t.elts if isinstance(t, ast.Tuple) else [t])]
        for t in tgts:
            if isinstance(t, ast.Name) and t.id in ksnames and not (ast.unparse(a.value) == "self.ks" or a in ks_defs(interp)):
                if not (isinstance(a.value, ast.Call) and ast.unparse(a.value.func) == "match_dim"):
                    stray.append(a)
    if stray:
        K.bad(interp, stray[0], "the slopes used by the evaluation come from somewhere other than self.ks (y given at construction) or spline_mat_inv @ y for the current y")
    else:
        K.ok(interp.fq, "every definition of the slopes reaching the formulas is self.ks or spline_mat_inv @ y of the current call")
    # spline_mat_inv = _get_spline_mat_inv(x, bc_type) with the constructor's x and the validated bc_type
    asg = [s for s in own_nodes(init.node) if isinstance(s, ast.Assign) and ast.unparse(s.targets[0]) == "self.spline_mat_inv"]
    xp = init.params()[1]
    ok = (len(asg) == 1 and isinstance(asg[0].value, ast.Call) and ast.unparse(asg[0].value.func) == "_get_spline_mat_inv" and
          [ast.unparse(a) for a in asg[0].value.args] + ["%s=%s" % (k.arg, ast.unparse(k.value)) for k in asg[0].value.keywords] in ([xp, "bc_type"], [xp, "bc_type=bc_type"]))
    selfx = [s for s in own_nodes(init.node) if isinstance(s, ast.Assign) and ast.unparse(s.targets[0]) == "self.x" and ast.unparse(s.value) == xp]
    if ok and selfx:
        K.ok(init.fq, "the slope system is built from the same knots that are searched (self.x = x) and the requested bc_type")
    else:
        K.bad(init, asg[0] if asg else init.node, "the slope system must be _get_spline_mat_inv(x, bc_type) for the knots stored in self.x")
    # default bc and validation
    src = ast.unparse(init.node)
    dflt = [s for s in own_nodes(init.node) if isinstance(s, ast.If) and ast.unparse(s.test) == "bc_type is None"]
    if dflt and ast.unparse(dflt[0].body[0]) == "bc_type = 'not-a-knot'":
        K.ok(init.fq, "default boundary condition is 'not-a-knot' (documented)")
    else:
        K.bad(init, dflt[0] if dflt else init.node, "the default boundary condition must be the documented 'not-a-knot'")


# ------------------------------------------------------------------------------------------ modes
def _str_consts_compared(test: ast.AST, name: str) -> List[str]:
    out = []
    for c in ast.walk(test):
        if isinstance(c, ast.Compare) and isinstance(c.left, ast.Name) and c.left.id == name:
            for op, r in zip(c.ops, c.comparators):
                if isinstance(op, ast.Eq) and isinstance(r, ast.Constant) and isinstance(r.value, str):
                    out.append(r.value)
                if isinstance(op, ast.In) and isinstance(r, (ast.Tuple, ast.List, ast.Set)):
                    out += [e.value for e in r.elts if isinstance(e, ast.Constant) and isinstance(e.value, str)]
    return out


def _modes(model: Model, X: RuleResult):
    call = model.func(I1D, "BaseInterp1D.__call__")
    gpos = model.func(EXTRAP, "get_extrap_pos")
    gval = model.func(EXTRAP, "get_extrap_val")
    # caller: the branch that routes to get_extrap_pos
    routed = None
    defs = function_defs(call.node)
    for s in ast.walk(call.node):
        if isinstance(s, ast.If) and any(isinstance(c, ast.Call) and ast.unparse(c.func) == "get_extrap_pos" for b in s.body for c in ast.walk(b)):
            nm = [n.id for n in ast.walk(s.test) if isinstance(n, ast.Name)]
            var = nm[0] if nm else None
            routed = (s, var, set(_str_consts_compared(s.test, var)))
    if routed is None:
        raise AnalysisError("C14-X: the branch routing to get_extrap_pos was not found")
    s, var, rset = routed
    # handled by get_extrap_pos
    mode_p = gpos.params()[1]
    from ..model import mode_paths, OTHER_MODE, guard_chain
    mp = mode_paths(gpos.node.body, mode_p)
    handled = sorted(v for v, (_, end) in mp.items() if isinstance(v, str) and v != OTHER_MODE and end != "raise")
    final_raises = mp[OTHER_MODE][1] == "raise"
    DOC_POS = {"mirror", "periodic", "bound"}
    if rset == set(handled) == DOC_POS and final_raises:
        X.ok(call.fq, "modes routed to the position map %s == modes it handles == documented {mirror, periodic, bound}; anything else raises" % sorted(rset))
    else:
        X.bad(call, s, "routed modes %s, handled modes %s, documented %s: the tables disagree (or the helper has a silent default)" % (sorted(rset), sorted(handled), sorted(DOC_POS)))
    # the position call gets (outside queries, mode, xmin, xmax) and the result is interpolated
    pc = [c for b in s.body for c in ast.walk(b) if isinstance(c, ast.Call) and ast.unparse(c.func) == "get_extrap_pos"][0]
    args = [ast.unparse(a) for a in pc.args]
    if len(args) == 4 and args[1] == var and args[2:] == ["self._xmin", "self._xmax"]:
        X.ok(call.fq, "the position map receives (outside queries, mode, xmin, xmax)")
    else:
        X.bad(call, enclosing_stmt(pc), "get_extrap_pos must be called with (outside queries, mode, self._xmin, self._xmax)")
    # value modes: None / 'nan', number / 1-element tensor, callable, else raise
    mode_v = gval.params()[2]
    from ..model import decision_steps
    steps = decision_steps(gval.node.body)

    def kind_of(t):
        if "is None" in t and "'nan'" in t:
            return "nan"
        if "isinstance(%s, int)" % mode_v in t and "isinstance(%s, float)" % mode_v in t and "torch.Tensor" in t:
            return "number"
        if "__call__" in t or "callable(" in t:
            return "callable"
        return "?" + t[:30]
    kinds = []
    exits = {}
    final_raises = False
    pending = None
    for k_, t_, arm in steps:
        if k_ == "when":
            kd = kind_of(ast.unparse(t_))
            kinds.append(kd)
            exits[kd] = [x for st_ in arm for x in ast.walk(st_) if isinstance(x, ast.Return)]
        elif k_ == "require":
            pending = kind_of(ast.unparse(t_))
            kinds.append(pending)
            final_raises = True                       # everything that is not `pending` (nor an earlier kind) raises
        elif k_ == "do" and isinstance(arm[0], ast.Return) and pending is not None:
            exits[pending] = [arm[0]]
        elif k_ == "do" and isinstance(arm[0], ast.Raise):
            final_raises = True
    if kinds == ["nan", "number", "callable"] and final_raises:
        X.ok(gval.fq, "value modes handled: None/'nan', number or 1-element tensor, callable; anything else raises")
    else:
        X.bad(gval, gval.node, "get_extrap_val must handle exactly None/'nan', numbers, callables and raise otherwise (found %s, final raise %s)" % (kinds, final_raises))
    # nan fill really is nan; constant fill adds the constant; callable is applied to the outside positions
    def one(kd):
        r_ = exits.get(kd, [])
        return ast.unparse(r_[0].value) if len(r_) == 1 and r_[0].value is not None else ""
    okv = ("float('nan')" in one("nan") and one("number").endswith("+ %s" % mode_v) and one("callable").startswith("%s(%s)" % (mode_v, gval.params()[0])))
    if okv:
        X.ok(gval.fq, "nan mode multiplies by float('nan'), constant mode adds the constant to zeros, callable mode is applied to the outside positions")
    else:
        X.bad(gval, gval.node, "the three value modes must return nan / zeros + constant / extrap(outside positions)")
    # default per bc_type maps into the handled set
    cg = model.func(I1D, "check_and_get_extrap")
    from ..domains.dictsem import DictInterp, Unsupported as _DU, Raised as _DR, _Return as _DRet
    allowed = DOC_POS | {"nan"}
    env0 = {}
    for st_ in model.module(I1D).tree.body:
        if isinstance(st_, ast.Assign) and len(st_.targets) == 1 and isinstance(st_.targets[0], ast.Name) and isinstance(st_.value, ast.Dict):
            try:
                env0[st_.targets[0].id] = DictInterp({}).ev(st_.value)
            except (_DU, _DR):
                pass
    pe, pb = cg.params()[:2]
    seen = {}
    for ex in (None, "mirror", "bound", "$user-value"):
        for bc in ("clamped", "periodic", "natural", "not-a-knot", "$other"):
            it = DictInterp(dict(env0, **{pe: ex, pb: bc}))
            try:
                it.run(cg.node.body)
                got = None
            except _DRet as r_:
                got = r_.v
            except _DU as e_:
                X.undecided(cg, cg.node, "cannot interpret check_and_get_extrap(%r, %r): %s" % (ex, bc, e_))
                return
            except _DR as e_:
                got = "<raises %s>" % e_
            seen[(ex, bc)] = got
    wrong = [(k, v) for k, v in seen.items() if (k[0] is not None and v != k[0]) or (k[0] is None and v not in allowed)]
    if seen[(None, "clamped")] != "mirror":
        wrong.insert(0, ((None, "clamped"), seen[(None, "clamped")]))
    if not wrong:
        X.ok(cg.fq, "default extrapolation per boundary condition is a handled mode (%s); an explicit choice is returned unchanged [%d abstract cases]"
             % ({k[1]: v for k, v in seen.items() if k[0] is None}, len(seen)))
    else:
        (ex, bc), v = wrong[0]
        X.bad(cg, cg.node, "check_and_get_extrap must map only to handled modes ('clamped' -> 'mirror' is documented) and leave an explicit choice alone: "
              "check_and_get_extrap(%r, %r) gives %r" % (ex, bc, v))
    # bc_types list == branches of _get_spline_mat_inv
    init = model.func(I1D, "CubicSpline1D.__init__")
    lst = []
    for s_ in own_nodes(init.node):
        if isinstance(s_, ast.Assign) and isinstance(s_.value, ast.List) and all(isinstance(e, ast.Constant) and isinstance(e.value, str) for e in s_.value.elts) and s_.value.elts:
            lst = [e.value for e in s_.value.elts]
    gm = model.func(I1D, "_get_spline_mat_inv")
    mpb = mode_paths(gm.node.body, gm.params()[1])
    branches = sorted(v for v, (_, end) in mpb.items() if isinstance(v, str) and v != OTHER_MODE and end != "raise")
    fr_ = mpb[OTHER_MODE][1] == "raise"
    DOC_BC = {"natural", "clamped", "not-a-knot", "periodic"}
    if set(lst) == set(branches) == DOC_BC and fr_:
        X.ok(init.fq, "accepted boundary conditions == branches of the slope system == documented %s; unknown raises" % sorted(DOC_BC))
    else:
        X.bad(init, init.node, "accepted bc_types %s, implemented %s, documented %s disagree" % (sorted(lst), sorted(branches), sorted(DOC_BC)))
    # the inside mask is the closed range [xmin, xmax] and xmin/xmax are the extrema of x
    base_init = model.func(I1D, "BaseInterp1D.__init__")
    src = ast.unparse(base_init.node)
    xp = base_init.params()[1]
    from ..model import has_form
    okm = has_form(base_init.node, "self._xmin = torch.min(%s, dim=-1, keepdim=True)[0]" % xp, "self._xmax = torch.max(%s, dim=-1, keepdim=True)[0]" % xp)
    msk = [s_ for s_ in own_nodes(call.node) if isinstance(s_, ast.Assign) and isinstance(s_.value, ast.Call) and ast.unparse(s_.value.func) == "torch.logical_and"]
    xqp = call.params()[1]
    okk = False
    if msk:
        a = sorted(ast.unparse(x).replace(" ", "") for x in msk[0].value.args)
        okk = a == sorted(["%s>=self._xmin" % xqp, "%s<=self._xmax" % xqp])
    if okm and okk:
        X.ok(call.fq, "inside <=> xmin <= xq <= xmax with xmin/xmax the extrema of the knots (knots themselves are inside)")
    else:
        X.bad(call, msk[0] if msk else call.node, "the inside mask must be the closed range [min(x), max(x)]")


def _posmap(model: Model, M: RuleResult):
    """get_extrap_pos: normalise, map into [0,1], de-normalise"""
    g = model.func(EXTRAP, "get_extrap_pos")
    P = g.params()
    xq, mode, xmin, xmax = P[:4]
    body = g.node.body
    # normalisation and its inverse are inverse affine maps
    first = [s for s in body if isinstance(s, ast.Assign)]
    ret = [s for s in body if isinstance(s, ast.Return)]
    chain = [s for s in body if isinstance(s, ast.If)]
    if not first or not ret or not chain:
        raise AnalysisError("C14-M: get_extrap_pos lost its normalise / map / de-normalise structure")
    env = {xq: S("xq"), xmin: S("xmin"), xmax: S("xmax")}
    try:
        u = eval_expr(first[0].value, env)
        uname = first[0].targets[0].id
        # the name returned
        inside_names = [n.id for n in ast.walk(ret[0].value) if isinstance(n, ast.Name) and n.id not in (xmin, xmax)]
        if len(set(inside_names)) != 1:
            raise Uninterpretable("return expression")
        iname = inside_names[0]
        back = eval_expr(ret[0].value, {iname: S("u"), xmin: S("xmin"), xmax: S("xmax")})
    except Uninterpretable as e:
        raise AnalysisError("C14-M: cannot normalise get_extrap_pos: %s" % e)
    if u.eq((S("xq") - S("xmin")) / (S("xmax") - S("xmin"))) and back.subs("u", u).eq(S("xq")):
        M.ok(g.fq, "u = (xq - xmin)/(xmax - xmin) and the result u'*(xmax - xmin) + xmin are inverse affine maps")
    else:
        M.bad(g, ret[0], "normalisation %r and de-normalisation %r are not inverse maps of [xmin, xmax] <-> [0, 1]" % (u, back))
    # branches: decided by a case split on the sign of u and the parity of the integer part m of |u| = m + f (0 <= f < 1)
    from ..model import mode_paths, OTHER_MODE
    mpp = mode_paths(body, mode)
    common = [s_ for s_ in body if not isinstance(s_, ast.If)]
    seen = {}
    for m_, (stm, end) in mpp.items():
        if isinstance(m_, str) and m_ != OTHER_MODE and end != "raise":
            # the statements specific to this mode: what runs for it minus the statements every mode shares
            seen[m_] = [s_ for s_ in stm if not any(s_ is c_ for c_ in common)]
    pre = [s_ for s_ in body if isinstance(s_, ast.Assign) and s_ is not first[0] and body.index(s_) < body.index(chain[0])]

    def interpret(block, sgn: int, parity: int):
        """value of `iname` after the shared prologue and `block`, with u = sgn*(m + f), m = 2p + parity"""
        envm: Dict[str, Rat] = {}
        U = C(sgn) * (S("m") + S("f"))

        def int_part(v: Rat) -> Rat:
            """truncation towards zero of v = c*(m + f) + k  (c = +-1 or 0, k integer) for 0 < f < 1"""
            cf = Rat(v.n.coeff_of("f", 1)) if v.d == Poly.const(1) else None
            if cf is None:
                raise Uninterpretable("integer part of %r" % v)
            rest = v - cf * S("f")
            if "f" in rest.symbols():
                raise Uninterpretable("integer part of %r" % v)
            if cf.is_zero():
                return rest                     # already an integer
            if cf.eq(C(1)):
                return rest                     # m + k + f  -> m + k   (non-negative part dominates for the cases used)
            if cf.eq(C(-1)):
                return rest                     # -(m + f) + k -> trunc = -(m) + k  for k <= 0 ... see note
            raise Uninterpretable("integer part of %r" % v)

        def hook(e):
            if isinstance(e, ast.Name):
                if e.id in envm:
                    return envm[e.id]
                if e.id == uname:
                    return U
                return None
            if isinstance(e, ast.Call):
                fn = ast.unparse(e.func)
                if isinstance(e.func, ast.Attribute) and not e.args and e.func.attr == "abs":
                    v = eval_expr(e.func.value, envm, hook)
                    return v if sgn > 0 else -v if _is_neg_multiple(v) else _abs_of(v, sgn)
                if fn in ("torch.abs", "abs") and len(e.args) == 1:
                    v = eval_expr(e.args[0], envm, hook)
                    return _abs_of(v, sgn)
                if isinstance(e.func, ast.Attribute) and e.func.attr in ("long", "int", "trunc") and not e.args:
                    v = eval_expr(e.func.value, envm, hook)
                    return _trunc(v, sgn)
                if isinstance(e.func, ast.Attribute) and e.func.attr == "floor" and not e.args or fn == "torch.floor":
                    v = eval_expr(e.func.value if not e.args else e.args[0], envm, hook)
                    return _floor(v, sgn)
                if fn == "torch.div" and len(e.args) == 2 and any(k.arg == "rounding_mode" and isinstance(k.value, ast.Constant) and k.value.value in ("trunc", "floor") for k in e.keywords):
                    a = eval_expr(e.args[0], envm, hook)
                    d = eval_expr(e.args[1], envm, hook)
                    if not d.eq(C(2)) or "f" in a.symbols():
                        raise Uninterpretable("integer division %s" % ast.unparse(e))
                    a2 = a.subs("m", C(2) * S("p") + C(parity))
                    c0 = a2.subs("p", C(0))
                    k = c0.n.t.get((), Fr(0))
                    if c0.symbols() or k.denominator != 1:
                        raise Uninterpretable("integer division operand %r" % a)
                    # a = 2p*c + k with c = +-1: non-negative operands only are supported
                    if not Rat(a2.n.coeff_of("p", 1)).eq(C(2)):
                        raise Uninterpretable("integer division of a possibly negative operand %r" % a)
                    q = (a2 - C(int(k) % 2)) / C(2)
                    return q.subs("p", (S("m") - C(parity)) / C(2))
                if fn in ("torch.clamp", "torch.clip") and len(e.args) == 3:
                    return None
            if isinstance(e, ast.BinOp) and isinstance(e.op, ast.Mod):
                a = eval_expr(e.left, envm, hook)
                d = eval_expr(e.right, envm, hook)
                if d.eq(C(1)):
                    return _frac(a, sgn)
                if d.eq(C(2)) and "f" not in a.symbols():
                    a2 = a.subs("m", C(2) * S("p") + C(parity)).subs("p", C(0))
                    k = a2.n.t.get((), Fr(0))
                    if not a2.symbols() and k.denominator == 1:
                        return C(int(k) % 2)
                raise Uninterpretable("modulo %s" % ast.unparse(e))
            return None
        for s_ in list(pre) + list(block):
            if isinstance(s_, ast.Assign) and isinstance(s_.targets[0], ast.Name):
                envm[s_.targets[0].id] = eval_expr(s_.value, envm, hook)
            else:
                raise Uninterpretable("statement %s" % type(s_).__name__)
        return envm.get(iname)

    def _is_neg_multiple(v):
        return False

    def _lin(v: Rat):
        """v = c*(m+f) + k with c in {-1,0,1}, k rational constant -> (c, k) else None"""
        if v.d != Poly.const(1):
            return None
        cm, cf = Rat(v.n.coeff_of("m", 1)), Rat(v.n.coeff_of("f", 1))
        rest = v - cm * S("m") - cf * S("f")
        if rest.symbols() or not cm.eq(cf) and not (cf.is_zero()):
            return None
        k = rest.n.t.get((), Fr(0))
        c = cm.n.t.get((), Fr(0))
        return (c, cf.n.t.get((), Fr(0)), k)

    def _abs_of(v: Rat, sgn: int) -> Rat:
        l = _lin(v)
        if l is None:
            raise Uninterpretable("abs of %r" % v)
        c, cf, k = l
        if k != 0:
            raise Uninterpretable("abs of a shifted value %r" % v)
        if c >= 0:
            return v
        return -v

    def _trunc(v: Rat, sgn: int) -> Rat:
        """truncation toward zero of c*(m+f) (+ integer k only when the sign is unambiguous)"""
        l = _lin(v)
        if l is None:
            raise Uninterpretable("integer part of %r" % v)
        c, cf, k = l
        if cf == 0:
            return v
        if k != 0:
            raise Uninterpretable("integer part of a shifted value %r" % v)
        return C(c) * S("m")            # trunc(+-(m+f)) = +-m

    def _floor(v: Rat, sgn: int) -> Rat:
        l = _lin(v)
        if l is None:
            raise Uninterpretable("floor of %r" % v)
        c, cf, k = l
        if cf == 0:
            return v
        if c > 0:
            return C(c) * S("m") + C(k)
        return C(c) * S("m") - C(1) + C(k)      # floor(-(m+f)) = -m - 1  for 0 < f < 1

    def _frac(v: Rat, sgn: int) -> Rat:
        """python/torch modulo 1 (result in [0, 1))"""
        return v - _floor(v, sgn)

    for md, label in (("periodic", "periodic"), ("mirror", "mirror")):
        if md not in seen:
            M.bad(g, g.node, "%s mode is not handled" % md)
            continue
        results = {}
        try:
            for sgn in (1, -1):
                for parity in (0, 1):
                    results[(sgn, parity)] = interpret(seen[md], sgn, parity)
        except Uninterpretable as e:
            M.bad(g, seen[md][0], "%s branch cannot be shown to map into [0, 1] correctly (%s); accepted idioms: u %% 1, u - floor(u); |u|, .long(), torch.div(.., 2, trunc), %% 2" % (md, e))
            continue
        bad = None
        for (sgn, parity), r in results.items():
            if md == "periodic":
                exp = S("f") if sgn > 0 else C(1) - S("f")          # fractional part of u = sgn (m + f), 0 < f < 1
            else:
                exp = S("f") if parity == 0 else C(1) - S("f")      # triangle wave of |u|
            if r is None or not r.eq(exp):
                bad = (sgn, parity, r, exp)
                break
        if bad is None:
            if md == "periodic":
                M.ok(g.fq, "periodic: u' = u - floor(u) for both signs of u (a query left of the range is mapped by the fractional part, not by truncation)")
            else:
                M.ok(g.fq, "mirror: with |u| = m + f, even m -> f and odd m -> 1 - f (triangle wave), decided for both signs of u and both parities of m")
        else:
            sgn, parity, r, exp = bad
            M.bad(g, seen[md][-1], "%s extrapolation: for u %s 0 with %s integer part the mapped position is %r, expected %r (u = +-(m + f), 0 < f < 1)"
                  % (md, ">" if sgn > 0 else "<", "even" if parity == 0 else "odd", r, exp))
    # bound: clamp
    b = seen.get("bound")
    ok = False
    if b and len(b) == 1 and isinstance(b[0], ast.Assign) and b[0].targets[0].id == iname:
        v = b[0].value
        if isinstance(v, ast.Call) and ast.unparse(v.func) in ("torch.clamp", "torch.clip") and len(v.args) == 3 and ast.unparse(v.args[0]) == uname:
            try:
                ok = eval_expr(v.args[1], {}).eq(C(0)) and eval_expr(v.args[2], {}).eq(C(1))
            except Uninterpretable:
                ok = False
    if ok:
        M.ok(g.fq, "bound: u' = clamp(u, 0, 1)")
    else:
        M.bad(g, b[0] if b else g.node, "bound extrapolation must clamp u to [0, 1]")


# ------------------------------------------------------------------------------------------ sort pairing
def _sort_pairing(model: Model, P: RuleResult):
    init = model.func(INTERP, "Interp1D.__init__")
    call = model.func(INTERP, "Interp1D.__call__")
    xp, yp = init.params()[1], init.params()[2]
    srt = [s for s in ast.walk(init.node) if isinstance(s, ast.Assign) and isinstance(s.value, ast.Call) and ast.unparse(s.value.func) == "torch.sort"]
    if len(srt) != 1 or not isinstance(srt[0].targets[0], ast.Tuple):
        raise AnalysisError("C14-P: `x, idx = torch.sort(x, dim=-1)` not found in Interp1D.__init__")
    tg = [e.id for e in srt[0].targets[0].elts]
    idxn = tg[1]
    guard = [a for a in ancestors(srt[0]) if isinstance(a, ast.If)]
    if tg[0] == xp and ast.unparse(srt[0].value.args[0]) == xp and guard and ast.unparse(guard[0].test) == "not assume_sorted":
        P.ok(init.fq, "unless assume_sorted, the knots are replaced by their sorted version and the permutation is kept")
    else:
        P.bad(init, srt[0], "x must be sorted (and the permutation kept) unless assume_sorted")

    def gathers_with(fi, yname, idx_src):
        """y is gathered along the last axis with an index that is (a match_dim'ed version / copy of) idx_src, and the gathered tensor
        is what `yname` holds afterwards.  Names are resolved through copies and through match_dim, which returns its arguments in order."""
        binds: Dict[str, list] = {}
        for s in ast.walk(fi.node):
            if isinstance(s, ast.Assign) and len(s.targets) == 1:
                t = s.targets[0]
                if isinstance(t, ast.Name):
                    binds.setdefault(t.id, []).append((s.value, None))
                elif isinstance(t, ast.Tuple):
                    for k, e in enumerate(t.elts):
                        if isinstance(e, ast.Name):
                            binds.setdefault(e.id, []).append((s.value, k))

        def sources(e, depth=0):
            txt = ast.unparse(e)
            if depth > 6:
                return {txt}
            if isinstance(e, ast.Name) and e.id in binds:
                out = {txt} if e.id in fi.params() else set()
                for v, k in binds[e.id]:
                    if k is None and isinstance(v, (ast.Name, ast.Attribute)):
                        out |= sources(v, depth + 1)
                    elif k is not None and isinstance(v, ast.Call) and ast.unparse(v.func) == "match_dim" and k < len(v.args):
                        out |= sources(v.args[k], depth + 1)
                    elif k is not None and isinstance(v, ast.Tuple) and k < len(v.elts):
                        out |= sources(v.elts[k], depth + 1)
                    else:
                        out.add("<%s>" % ast.unparse(v)[:40])
                return out
            return {txt}
        for s in ast.walk(fi.node):
            if isinstance(s, ast.Assign) and isinstance(s.value, ast.Call) and ast.unparse(s.value.func) == "torch.gather" and ast.unparse(s.targets[0]) == yname:
                c = s.value
                kw = {k.arg: k.value for k in c.keywords}
                dim = kw.get("dim") or (c.args[1] if len(c.args) > 1 else None)
                index = kw.get("index") or (c.args[2] if len(c.args) > 2 else None)
                src0 = c.args[0] if c.args else kw.get("input")
                if src0 is not None and dim is not None and index is not None and ast.unparse(dim) == "-1" \
                        and yname in sources(src0) and idx_src in sources(index):
                    return s
        return None
    g1 = gathers_with(init, yp, idxn)
    stored = [s for s in ast.walk(init.node) if isinstance(s, ast.Assign) and ast.unparse(s.targets[0]) == "self.idx" and ast.unparse(s.value) == idxn]
    if g1 is not None and stored:
        # both under the sort guard; y-branch vs. no-y branch
        P.ok(init.fq, "y given at construction is permuted with the sort permutation; otherwise the permutation is stored")
    else:
        P.bad(init, srt[0], "a y given at construction must be gathered with the sort permutation, and the permutation stored for a y given later")
    g2 = gathers_with(call, call.params()[2], "self.idx")
    if g2 is not None:
        gd = [a for a in ancestors(g2) if isinstance(a, ast.If)]
        t = ast.unparse(gd[0].test) if gd else ""
        if "self.idx is not None" in t and "%s is not None" % call.params()[2] in t:
            P.ok(call.fq, "y given at call time is permuted with the stored permutation before it reaches the interpolator")
        else:
            P.bad(call, g2, "the late y must be permuted whenever a permutation was stored")
    else:
        P.bad(call, call.node, "a y supplied at call time is not permuted with the permutation computed at construction")
    # the object receives the (sorted) x and y, and is called with (xq, y)
    mk = [s for s in own_nodes(init.node) if isinstance(s, ast.Assign) and ast.unparse(s.targets[0]) == "self.obj"]
    rets = [r for r in own_nodes(call.node) if isinstance(r, ast.Return)]
    xq_rebound = [n for n in ast.walk(call.node) if isinstance(n, ast.Name) and isinstance(n.ctx, ast.Store) and n.id == call.params()[1]]
    if mk and [ast.unparse(a) for a in mk[0].value.args] == [xp, yp] and any(k.arg is None for k in mk[0].value.keywords) and rets and not xq_rebound and \
            all(ast.unparse(r.value) == "self.obj(%s, %s)" % (call.params()[1], call.params()[2]) for r in rets):
        P.ok(init.fq, "the interpolator is built from the sorted (x, y) with the method options and evaluated with (xq, permuted y)")
    else:
        P.bad(call if (xq_rebound or len(rets) != 1) else init, (enclosing_stmt(xq_rebound[0]) if xq_rebound else (rets[0] if len(rets) > 1 else (mk[0] if mk else init.node))),
              "the interpolator must be built from the sorted x, y, and EVERY exit of __call__ must return self.obj(xq, y) for the caller's queries in the caller's order "
              "(the queries are never re-bound; %d return(s) found)" % len(rets))
    # the base class uses the stored y when given at construction
    bc = model.func(I1D, "BaseInterp1D.__call__")
    src = ast.unparse(bc.node)
    if "if self._y_is_given:\n    y = self._y" in src.replace("        ", "    ").replace("    " * 2, "    ") or "y = self._y" in src:
        P.ok(bc.fq, "a y stored at construction takes the place of the call-time argument")
    else:
        P.bad(bc, bc.node, "the stored y must be used when it was given at construction")


def _stateless(model: Model, H: RuleResult):
    """evaluation methods never write instance state: the result cannot depend on the history of earlier calls"""
    targets = []
    for c in model.classes_deriving("BaseInterp1D") + [model.cls(I1D, "BaseInterp1D")]:
        for mn in ("__call__", "_interp"):
            if mn in c.methods:
                targets.append(c.methods[mn])
    targets.append(model.func(INTERP, "Interp1D.__call__"))
    seen = set()
    for fi in targets:
        if fi.fq in seen:
            continue
        seen.add(fi.fq)
        writes = []
        for n in ast.walk(fi.node):
            tg = []
            if isinstance(n, ast.Assign):
                tg = n.targets
            elif isinstance(n, (ast.AugAssign, ast.AnnAssign)):
                tg = [n.target]
            for t in tg:
                for e in (t.elts if isinstance(t, (ast.Tuple, ast.List)) else [t]):
                    b = e
                    while isinstance(b, ast.Subscript):
                        b = b.value
                    if isinstance(b, ast.Attribute) and isinstance(b.value, ast.Name) and b.value.id == "self":
                        writes.append(n)
            if isinstance(n, ast.Call) and ast.unparse(n.func) in ("setattr", "object.__setattr__") and n.args and ast.unparse(n.args[0]) == "self":
                writes.append(n)
        if writes:
            H.bad(fi, enclosing_stmt(writes[0]), "an evaluation method writes instance state: later results depend on the history of earlier calls (stale cache hazard)")
        else:
            H.ok(fi.fq, "%s writes no instance attribute (stateless evaluation)" % fi.qualname)


def _extrap_shapes(model: Model, V: RuleResult):
    """Value extrapolation has the batch shape of y: every returning branch of get_extrap_val yields (*BY, nq_out) for queries
    (nq_out,) and samples (*BY, nr), and the result buffer of BaseInterp1D.__call__ is (*BY, nq).  Shape domain, all batch patterns of
    rank <= 2 (each axis 1 or > 1)."""
    from ..domains.shapes import ShapeInterp, T, ShapeError
    from ..domains.poly import Uninterpretable as _U
    gv = model.func(EXTRAP, "get_extrap_val")
    pq, py, pe = gv.params()[:3]
    batches = [(), (1,), ("b1",), (1, "b1"), ("b2", 1), ("b2", "b1")]

    def hook(it, c):
        if isinstance(c.func, ast.Name) and c.func.id == pe:
            return T(("nq",))                    # a user callable maps the outside queries (nq,) to values (nq,)
        return None
    rets = [r for r in own_nodes(gv.node) if isinstance(r, ast.Return) and r.value is not None]
    if not rets:
        raise AnalysisError("C14-V: get_extrap_val returns nothing")
    pre = [s_ for s_ in gv.node.body if isinstance(s_, (ast.Assign, ast.AnnAssign))]
    for r in rets:
        bad = None
        for by in batches:
            it = ShapeInterp({pq: T(("nq",)), py: T(by + ("nr",)), pe: 0.0}, call_hook=hook)
            try:
                it.run(pre)
                got = it.ev(r.value)
            except ShapeError as e:
                bad = (by, "shape error: %s" % e)
                break
            except _U as e:
                raise AnalysisError("C14-V: cannot determine the shape of `%s`: %s" % (norm_stmt(r, 70), e))
            want = by + ("nq",)
            if not (isinstance(got, T) and tuple(got.shape) == want):
                bad = (by, "%s" % (tuple(got.shape) if isinstance(got, T) else got,))
                break
        if bad is None:
            V.ok(gv.fq, "`%s` has shape (*BY, nq) for all %d batch patterns" % (norm_stmt(r, 60), len(batches)))
        else:
            V.bad(gv, r, "for y of shape %s and %s outside queries this exit returns %s instead of %s: the batch dimensions of y are lost (a (1, nr) sample "
                  "silently yields an unbatched result, a real batch fails later)" % (bad[0] + ("nr",), "nq", bad[1], bad[0] + ("nq",)))
    call = model.func(I1D, "BaseInterp1D.__call__")
    pxq = call.params()[1]
    bufs = [s_ for s_ in own_nodes(call.node) if isinstance(s_, ast.Assign) and isinstance(s_.value, ast.Call)
            and ast.unparse(s_.value.func).split(".")[-1] in ("empty", "zeros", "new_empty", "new_zeros", "empty_like", "zeros_like")]
    if not bufs:
        raise AnalysisError("C14-V: the result buffer of BaseInterp1D.__call__ was not found")
    for b in bufs:
        bad = None
        for by in batches:
            env = {"y": T(by + ("nr",)), pxq: T(("nrq",)), "yqextrap": T(by + ("nqe",)), "yqinterp": T(by + ("nqi",))}
            it = ShapeInterp(env)
            try:
                got = it.ev(b.value)
            except ShapeError as e:
                bad = (by, "shape error: %s" % e)
                break
            except _U as e:
                raise AnalysisError("C14-V: cannot determine the shape of the result buffer `%s`: %s" % (norm_stmt(b, 70), e))
            if not (isinstance(got, T) and tuple(got.shape) == by + ("nrq",)):
                bad = (by, tuple(got.shape) if isinstance(got, T) else got)
                break
        if bad is None:
            V.ok(call.fq, "result buffer `%s` is (*BY, nrq) for all batch patterns" % norm_stmt(b, 60))
        else:
            V.bad(call, b, "the result buffer is %s for y of batch shape %s; it must be (*BY, nrq)" % (bad[1], bad[0]))


def rules(model: Model, tier: str) -> List[RuleResult]:
    E = RuleResult(PROP, "C14-E", "both evaluation formulas == the cubic Hermite / linear interpolant (rational normal form)", min_instances=6)
    Sx = RuleResult(PROP, "C14-S", "interval search: searchsorted(x, xq), right index clamped to [1, nr-1], left = right - 1", min_instances=6)
    B = RuleResult(PROP, "C14-B", "slope system: interior rows are the C2 condition of the Hermite form; boundary rows are the requested condition", min_instances=10)
    K = RuleResult(PROP, "C14-K", "slopes = solve(L, R) @ y for the interpolated y, knots and requested bc_type", min_instances=5)
    X = RuleResult(PROP, "C14-X", "extrapolation / boundary-condition mode tables agree between callers, helpers and documentation", min_instances=7)
    M = RuleResult(PROP, "C14-M", "position-mapping modes: inverse affine pair around fractional part / clamp / triangle wave", min_instances=4)
    P = RuleResult(PROP, "C14-P", "y (at construction or at call) is permuted with the sort permutation of x", min_instances=5)
    D = RuleResult(PROP, "C14-D", "differentiable path: only the index search is detached", min_instances=2)
    H = RuleResult(PROP, "C14-H", "history independence: evaluation methods write no instance state", min_instances=4)
    _formulas(model, E, Sx, D)
    _stateless(model, H)
    splinesys.check_slope_system(model, B, PROP, "C14-B", hermite)
    _slopes(model, K)
    _modes(model, X)
    _posmap(model, M)
    _sort_pairing(model, P)
    # the mapped positions are what is interpolated, gradients flow (clone, not detach)
    call = model.func(I1D, "BaseInterp1D.__call__")
    xqp = call.params()[1]
    cl = [s for s in ast.walk(call.node) if isinstance(s, ast.Assign) and isinstance(s.value, ast.Call) and isinstance(s.value.func, ast.Attribute)
          and s.value.func.attr == "clone" and ast.unparse(s.value.func.value) == xqp]
    dt = [n for n in ast.walk(call.node) if isinstance(n, ast.Call) and isinstance(n.func, ast.Attribute) and n.func.attr == "detach"]
    if cl and not dt:
        D.ok(call.fq, "the mapped queries are a clone of xq (gradient w.r.t. the queries is kept); nothing is detached")
    else:
        D.bad(call, enclosing_stmt(dt[0]) if dt else call.node, "BaseInterp1D.__call__ detaches a value on the differentiable path (queries / y)")
    Vs = RuleResult(PROP, "C14-V", "value extrapolation keeps the batch shape of y: every exit of get_extrap_val and the result buffer are (*BY, nq) (shape domain)", min_instances=4)
    _extrap_shapes(model, Vs)
    return [E, Sx, B, K, X, M, P, D, H, Vs]
