"""C06 -- gradients of eigenpairs and singular triplets (structural part only)."""
from __future__ import annotations
import ast
from typing import List, Dict, Optional
from ..model import Model, FuncInfo, own_nodes, norm_stmt, AnalysisError, AnchorError, enclosing_stmt, ancestors, has_form
from ..report import RuleResult
from ..flow import function_defs, names_loaded
from ..rules import autograd as ac
from ..domains.poly import Rat, C, S, Uninterpretable, eval_expr
from ..domains.ncalg import WordEval, sym, adj, inv, mul, simplify, show

PROP = "C06"
LEVEL = "other"
EXPLANATION = (
    "Structural necessary conditions of the implicit eigen-pair backward, decided from the source (no gradient is evaluated): the "
    "autograd-Function contract of symeig_torchfcn and degen_symeig - (AC1) arity, (AC2) only parameter slots carry gradients, (AC3) "
    "both pull-backs record the graph iff the caller does (second order), (AC5) the shifted solve receives the saved backward options, "
    "(AC6) A- and M-parameter groups keep their order, (AC9) differentiable copies are clones, (OPT) option merge; (S) the shifted "
    "system is solve(A, -B, E=evals, M) with B the incoming vector gradient projected with the degeneracy map and M on the left, and the "
    "solution re-projected with M on the right; (M) the M pull-back is gaccumM == -lambda*(g_vals + g_vecs) - 1/2 <gbar, conj(x)> x and "
    "the A pull-back gaccumA == g_vals + g_vecs (polynomial normal form); (O) the projector, evaluated as a symbolic tensor term in its six cases (map given or not) x (no M, M right, M left), "
    "equals the specification A - <B-component of A> with the conjugated B and M inside the inner product (right) or on the subtracted "
    "component (left); (G) the dense backward, evaluated as a term on its three paths, is 1/2 (R + R^H) with R = V (F^-1 o (V^H G)) V^H "
    "+ V diag(g) V^H, F_ij = lambda_j - lambda_i and degenerate entries voided BEFORE inverting (re-spellings - .mH, masked_fill, "
    "reciprocal, @, / 2 - are one term; a term in another vocabulary is undecided, not a violation); (K) the degeneracy map compares |lambda_i - lambda_j| with atol + rtol |lambda| and reports "
    "degeneracy only beyond the diagonal; (D) svd stays on the differentiable path. NOT decided: the values of the gradients.")
ASSUMPTIONS = ["the formula of arXiv:2011.04366 is the specification of the implicit backward", "solve() solves (A - E M) X = B (C01/C02)"]

PUB = "xitorch/linalg/symeig.py"
IMPL = "xitorch/_impls/linalg/symeig.py"


def _shifted_system(fc, Sy: RuleResult):
    bw = fc.backward
    defs = function_defs(bw.node)
    calls = [c for c in ast.walk(bw.node) if isinstance(c, ast.Call) and ast.unparse(c.func) == "solve"]
    if len(calls) != 1:
        raise AnalysisError("C06-S: expected exactly one solve(...) in symeig_torchfcn.backward")
    c = calls[0]
    a = c.args
    if len(a) < 4:
        raise AnalysisError("C06-S: solve is no longer called with (A, rhs, E, M)")
    gv = bw.params()[2]

    def chase(e, n=0):
        while isinstance(e, ast.Name) and len(defs.get(e.id, [])) == 1 and n < 4:
            e = defs[e.id][0]
            n += 1
        return e
    ok_A = ast.unparse(chase(a[0])) == "%s.A" % fc.bctx
    ok_M = ast.unparse(chase(a[3])) == "%s.M" % fc.bctx
    rhs = a[1]
    ok_sign = isinstance(rhs, ast.UnaryOp) and isinstance(rhs.op, ast.USub)
    proj = chase(rhs.operand) if ok_sign else None
    ok_proj = False
    if isinstance(proj, ast.Call) and ast.unparse(proj.func) == "_ortho":
        pa = [ast.unparse(x) for x in proj.args]
        kw = {k.arg: ast.unparse(k.value) for k in proj.keywords}
        ok_proj = pa[:2] == [gv, "evecs"] and kw.get("D") == "idx_degen" and kw.get("M") == "M" and kw.get("mright") == "False"
    # E: evals, or evals + tiny offset under is_complex
    e_defs = defs.get(a[2].id, []) if isinstance(a[2], ast.Name) else [a[2]]
    ok_E = bool(e_defs)
    for d in e_defs:
        t = ast.unparse(d)
        if t == "evals":
            continue
        if isinstance(d, ast.BinOp) and isinstance(d.op, ast.Add) and ast.unparse(d.left) == "evals" and isinstance(d.right, ast.Constant) and abs(d.right.value) <= 1e-10:
            continue
        ok_E = False
    if ok_A and ok_M and ok_sign and ok_proj and ok_E:
        Sy.ok(bw.fq, "shifted system: solve(A, -P(gbar_vecs), E=evals, M) with P = projector(D=degeneracy map, M on the left)")
    else:
        Sy.bad(bw, enclosing_stmt(c), "the eigenvector contribution must come from solve(ctx.A, -_ortho(grad_evecs, evecs, D=idx_degen, M=M, mright=False), evals, ctx.M, ...) "
               "(A %s, M %s, minus sign %s, projection %s, shifts %s)" % (ok_A, ok_M, ok_sign, ok_proj, ok_E))
    # solution re-projected
    tgt = enclosing_stmt(c)
    sol = tgt.targets[0].id if isinstance(tgt, ast.Assign) and isinstance(tgt.targets[0], ast.Name) else None
    re = [s for s in ast.walk(bw.node) if isinstance(s, ast.Assign) and isinstance(s.value, ast.Call) and ast.unparse(s.value.func) == "_ortho"
          and s.value.args and ast.unparse(s.value.args[0]) == sol]
    okr = False
    if re:
        kw = {k.arg: ast.unparse(k.value) for k in re[0].value.keywords}
        okr = ast.unparse(re[0].value.args[1]) == "evecs" and kw.get("D") == "None" and kw.get("M") == "M" and kw.get("mright") == "True"
    if okr:
        Sy.ok(bw.fq, "the solution is re-orthogonalised against the eigenvectors with M on the right")
    else:
        Sy.bad(bw, re[0] if re else tgt, "the solution of the shifted system must be projected with _ortho(gevecs, evecs, D=None, M=M, mright=True)")
    # the solve runs with both operators' parameters installed
    withs = [w for w in ancestors(c) if isinstance(w, ast.With)]
    wsrc = " ".join(ast.unparse(i.context_expr) for w in withs for i in w.items)
    if "A.uselinopparams(*params)" in wsrc and "M.uselinopparams(*mparams)" in wsrc:
        Sy.ok(bw.fq, "the shifted solve runs inside A.uselinopparams(*params) and M.uselinopparams(*mparams)")
    else:
        Sy.bad(bw, enclosing_stmt(c), "the shifted solve must run with the differentiable parameter copies of A and M installed")
    # every projection that involves M runs while M's saved parameters are installed
    proj_calls = [x for x in ast.walk(bw.node) if isinstance(x, ast.Call) and ast.unparse(x.func) == "_ortho" and any(k.arg == "M" and ast.unparse(k.value) == "M" for k in x.keywords)]
    outside = []
    for x in proj_calls:
        ws = [w for w in ancestors(x) if isinstance(w, ast.With)]
        wtxt = " ".join(ast.unparse(i.context_expr) for w in ws for i in w.items)
        if "M.uselinopparams(*mparams)" not in wtxt:
            outside.append(x)
    if proj_calls and not outside:
        Sy.ok(bw.fq, "both projections use M inside `with M.uselinopparams(*mparams)` (the parameters saved by forward, not whatever the operator holds now)")
    else:
        Sy.bad(bw, enclosing_stmt(outside[0]) if outside else bw.node, "a projection applies M outside `with M.uselinopparams(*mparams)`: it uses the tensors the operator object holds at "
               "backward time instead of the ones saved by forward (wrong when the same operator is reused with other parameters in between)")
    # the degeneracy map is only used when degeneracy was detected
    from ..flow import origins
    defs = function_defs(bw.node)
    calls = [x for x in own_nodes(bw.node) if isinstance(x, ast.Call) and ast.unparse(x.func) == "_check_degen"]
    if not calls:
        elsewhere = [g.qualname for g in bw.module.functions.values() if g is not bw and g.qualname != "_check_degen"
                     and any(isinstance(x, ast.Call) and ast.unparse(x.func) == "_check_degen" for x in own_nodes(g.node))]
        if elsewhere:
            Sy.undecided(bw, bw.node, "cannot find the call of _check_degen in symeig_torchfcn.backward: it is made in %s, which could not be inlined" % elsewhere[0])
        else:
            Sy.bad(bw, bw.node, "the degeneracy map must be computed by _check_degen(evals, degen_atol, degen_rtol)")
        return
    for x in calls:
        args = list(x.args) + [k.value for k in x.keywords]
        okc = len(args) == 3 and not any(isinstance(a_, ast.Starred) for a_ in args)
        if okc:
            kwn = {k.arg: k.value for k in x.keywords}
            a0 = x.args[0] if x.args else kwn.get("evals")
            a1 = x.args[1] if len(x.args) > 1 else kwn.get("degen_atol")
            a2 = x.args[2] if len(x.args) > 2 else kwn.get("degen_rtol")
            okc = a0 is not None and a1 is not None and a2 is not None and ast.unparse(a0) == "evals"
            if okc:
                def keys(e):
                    txt = " ".join(ast.unparse(o) for o in origins(e, defs)) + " " + ast.unparse(e)
                    return ("degen_atol" in txt, "degen_rtol" in txt)
                okc = keys(a1) == (True, False) and keys(a2) == (False, True)
        if okc:
            Sy.ok(bw.fq, "the degeneracy map comes from _check_degen(evals, atol, rtol): the tolerances are the options of the same name, in this order")
        else:
            Sy.bad(bw, enclosing_stmt(x), "the degeneracy map must be computed by _check_degen(evals, degen_atol, degen_rtol)")
    if has_form(bw.node, "idx_degen = None"):
        Sy.ok(bw.fq, "the degeneracy map is dropped when nothing is degenerate")
    else:
        Sy.bad(bw, enclosing_stmt(calls[0]), "the degeneracy map must be dropped (idx_degen = None) when no eigenvalues are degenerate: the projector then removes the whole "
               "eigenvector component")


def _pullback_formulas(fc, Mr: RuleResult):
    bw = fc.backward
    gvals, gvecs = bw.params()[1], bw.params()[2]
    env: Dict[str, Rat] = {}

    def hook(e):
        t = ast.unparse(e)
        if t == "%s.unsqueeze(-2)" % gvals:
            return S("gbar_vals")
        if t == "evals.unsqueeze(-2)":
            return S("lam")
        if t == "evecs":
            return S("x")
        if t == gvecs:
            return S("gbar_vecs")
        if isinstance(e, ast.Call) and ast.unparse(e.func) == "torch.einsum" and isinstance(e.args[0], ast.Constant):
            spec = e.args[0].value.replace(" ", "")
            ops = sorted(ast.unparse(a) for a in e.args[1:])
            if spec == "...rc,...rc->...c" and ops == sorted([gvecs, "evecs.conj()"]):
                return S("IP")
            if spec == "...rc,...rc->...c" and ops == sorted([gvecs, "evecs"]):
                return S("IP_without_conjugation")
            raise Uninterpretable("einsum %s" % ast.unparse(e))
        if isinstance(e, ast.Call) and isinstance(e.func, ast.Attribute) and e.func.attr == "unsqueeze":
            return eval_expr(e.func.value, env, hook)
        if isinstance(e, ast.Name):
            return value(e.id)
        return None
    bdefs = function_defs(bw.node)
    atoms: List[str] = []
    busy = set()

    def value(name):
        """normal form of a local, through its (single) definition; a local whose definition is outside the polynomial vocabulary
        (the projected solution of the shifted system, ..) is an atom"""
        if name in env:
            return env[name]
        ds = [d for d in bdefs.get(name, []) if isinstance(d, ast.AST)]
        if len(ds) == 1 and name not in busy and name not in bw.params():
            busy.add(name)
            try:
                env[name] = eval_expr(ds[0], env, hook, bw.module.source)
                return env[name]
            except Uninterpretable:
                pass
            finally:
                busy.discard(name)
        elif name not in bdefs or name in bw.params():
            return None
        atoms.append(name)
        env[name] = S("@" + name)
        return env[name]
    grads_ = [c for c in ast.walk(bw.node) if isinstance(c, ast.Call) and ac.is_autograd_grad(c)]
    cot = {}
    for c in grads_:
        out_ = ac._kw(c, "outputs") or (c.args[0] if c.args else None)
        go_ = ac._kw(c, "grad_outputs")
        if out_ is None or go_ is None:
            continue
        o_ = out_.elts[0] if isinstance(out_, (ast.Tuple, ast.List)) and len(out_.elts) == 1 else out_
        g_ = go_.elts[0] if isinstance(go_, (ast.Tuple, ast.List)) and len(go_.elts) == 1 else go_
        prod = [d for d in bdefs.get(o_.id, [])] if isinstance(o_, ast.Name) else [o_]
        which = "A" if any(ast.unparse(d) == "A.mm(evecs)" for d in prod if isinstance(d, ast.AST)) else \
            ("M" if any(ast.unparse(d) == "M.mm(evecs)" for d in prod if isinstance(d, ast.AST)) else None)
        if which is not None and isinstance(g_, ast.Name):
            cot[which] = (g_.id, c)
    if set(cot) != {"A", "M"}:
        Mr.undecided(bw, bw.node, "cannot find the two pull-backs d<A x, g>/d params(A) and d<M x, g>/d params(M) of symeig_torchfcn.backward (found %s)" % sorted(cot))
        return
    try:
        acot, mcot = value(cot["A"][0]), value(cot["M"][0])
    except Uninterpretable as e:
        raise AnalysisError("C06-M: cannot normalise the pull-back formulas: %s" % e)
    g_vals = S("gbar_vals") * S("x")
    stA, stM = enclosing_stmt(cot["A"][1]), enclosing_stmt(cot["M"][1])
    vec_atom = next((a_ for a_ in atoms if acot is not None and (acot - g_vals).eq(S("@" + a_))), None)
    if vec_atom is not None:
        Mr.ok(bw.fq, "eigenvalue contribution g_vals == gbar_vals (row-broadcast) * x")
        Mr.ok(bw.fq, "A pull-back cotangent == g_vals + g_vecs (g_vecs = `%s`)" % vec_atom)
    else:
        Mr.bad(bw, stA, "the cotangent of A.mm(evecs) must be grad_evals.unsqueeze(-2) * evecs + <projected solution of the shifted system>: normal form %r" % (acot,))
        return
    exp = -S("lam") * (g_vals + S("@" + vec_atom)) - C("1/2") * S("IP") * S("x")
    if mcot is not None and mcot.eq(exp):
        Mr.ok(bw.fq, "M pull-back cotangent == -lambda*(g_vals + g_vecs) - 1/2 <gbar_vecs, conj(x)> x")
    else:
        Mr.bad(bw, stM, "the cotangent of M.mm(evecs) is %r; the formula requires %r" % (mcot, exp))
    # outputs / inputs of the two grads
    grads = [c for c in ast.walk(bw.node) if isinstance(c, ast.Call) and ac.is_autograd_grad(c)]
    sig = sorted((ast.unparse(ac._kw(c, "outputs") or c.args[0]), ast.unparse(ac._kw(c, "inputs") or c.args[1]), ast.unparse(ac._kw(c, "grad_outputs"))) for c in grads)
    if sig == sorted([("(loss,)", "params", "(gaccumA,)"), ("(mloss,)", "mparams", "(gaccumM,)")]):
        Mr.ok(bw.fq, "pull-backs: d<A x, gaccumA>/d params(A) and d<M x, gaccumM>/d params(M), each through its own operator product")
    else:
        Mr.bad(bw, enclosing_stmt(grads[0]) if grads else bw.node, "the two pull-backs must pair (loss=A.mm(evecs), params, gaccumA) and (mloss=M.mm(evecs), mparams, gaccumM); found %s" % sig)
    defs = function_defs(bw.node)
    l_ok = any(ast.unparse(d) == "A.mm(evecs)" for d in defs.get("loss", [])) and any(ast.unparse(d) == "M.mm(evecs)" for d in defs.get("mloss", []))
    if l_ok:
        Mr.ok(bw.fq, "loss = A.mm(evecs) and mloss = M.mm(evecs) at the saved eigenvectors")
    else:
        Mr.bad(bw, bw.node, "the differentiated products must be A.mm(evecs) and M.mm(evecs)")


_ORTHO_SPEC = """
if {D} is None:
    if {M} is None:
        __ret = {A} - torch.einsum("...rc,...rc->...c", {A}, {B}.conj()).unsqueeze(-2) * {B}
    elif {mright}:
        __ret = {A} - torch.einsum("...rc,...rc->...c", {M}.mm({A}), {B}.conj()).unsqueeze(-2) * {B}
    else:
        __ret = {A} - {M}.mm(torch.einsum("...rc,...rc->...c", {A}, {B}.conj()).unsqueeze(-2) * {B})
else:
    if {M} is None:
        __ret = {A} - torch.matmul({B}, {D} * torch.matmul({B}.transpose(-2, -1).conj(), {A}))
    elif {mright}:
        __ret = {A} - torch.matmul({B}, {D} * torch.matmul({B}.transpose(-2, -1).conj(), {M}.mm({A})))
    else:
        __ret = {A} - {M}.mm(torch.matmul({B}, {D} * torch.matmul({B}.transpose(-2, -1).conj(), {A})))
"""


def _projector(model: Model, O: RuleResult):
    """_ortho is evaluated over symbolic tensor terms in its six cases (degeneracy map given or not) x (no M, M acting on the right,
    M acting on the left) and compared with the specification above: A - B c(A) with the conjugated B, M applied to A inside the inner
    product (right) or to the whole subtracted component (left), D multiplied onto B^H A when given - however the cases are arranged."""
    from ..domains import tensorterm as tt
    f = model.func(PUB, "_ortho")
    ps = f.all_params()
    need = ["D", "M", "mright"]
    if len(f.params()) < 2 or not all(n_ in ps for n_ in need):
        raise AnchorError("C06-O: _ortho no longer has the signature (A, B, *, D, M, mright)")
    pA, pB = f.params()[:2]
    names = dict(A=pA, B=pB, D="D", M="M", mright="mright")
    spec_body = ast.parse(_ORTHO_SPEC.format(**names)).body
    rets = [r for r in own_nodes(f.node) if isinstance(r, ast.Return)]
    for dgiven in (False, True):
        for mcase in ("none", "mright", "mleft"):
            env = {pA: tt.sym("A"), pB: tt.sym("B"), "D": tt.sym("D") if dgiven else tt.NONE,
                   "M": tt.NONE if mcase == "none" else tt.sym("M"), "mright": ("op", "bool", mcase == "mright")}
            label = "%s, %s" % ("D given" if dgiven else "D=None", {"none": "no M", "mright": "M on the right", "mleft": "M on the left"}[mcase])
            ev, spec = tt.TermEval(env), tt.TermEval(env)
            try:
                ev.run([s_ for s_ in f.node.body if not (isinstance(s_, ast.Expr) and isinstance(s_.value, ast.Constant))])
                spec.run(spec_body)
            except tt.Unsupported as e:
                O.undecided(f, f.node, "cannot interpret _ortho for %s: %s" % (label, e))
                return
            got, want = ev.returned, spec.env["__ret"]
            if got == want:
                O.ok(f.fq, "%s: A - %s with the conjugated B%s" % (label, {"none": "B c", "mright": "B c(M A)", "mleft": "M (B c)"}[mcase], " and the map D" if dgiven else ""))
                continue
            foreign = tt.foreign_operators(got, want) if got is not None else []
            if foreign:
                O.undecided(f, rets[-1] if rets else f.node, "cannot interpret _ortho for %s: it uses %s, which the specification term does not" % (label, foreign))
                return
            O.bad(f, rets[-1] if rets else f.node, "%s: the projector must be A - <B-component of A> with the conjugated B, M %s%s [got %s; expected %s]" %
                  (label, {"none": "absent", "mright": "applied to A inside the inner product", "mleft": "applied to the whole subtracted component"}[mcase],
                   ", the degeneracy map multiplied onto B^H A" if dgiven else "", tt.show(got)[:300] if got is not None else None, tt.show(want)[:300]))


def _dense_backward(model: Model, G: RuleResult):
    """degen_symeig.backward is evaluated over symbolic tensor terms (domains/tensorterm.py) on its three paths (vector and value
    cotangent given / only one of them); on each the returned term must equal
        1/2 (R + R^H),   R = V (1/fill(F, |F| <= thr, inf) o (V^H Gbar)) V^H + V (gbar[..., None] o V^H),   F = lambda_j - lambda_i
    up to the re-spellings the term algebra identifies.  The debug-only block is not evaluated; it must not write anything the
    result reads."""
    from ..domains import tensorterm as tt
    fc = ac.get_fncls(model, "degen_symeig")
    bw, fw = fc.backward, fc.forward
    saves = [c for c in own_nodes(fw.node) if isinstance(c, ast.Call) and isinstance(c.func, ast.Attribute) and c.func.attr == "save_for_backward"]
    if len(saves) != 1 or not all(isinstance(a, ast.Name) for a in saves[0].args) or len(saves[0].args) != 2:
        raise AnalysisError("C06-G: degen_symeig.forward no longer saves exactly (eigenvalues, eigenvectors)")
    eigh = [s for s in own_nodes(fw.node) if isinstance(s, ast.Assign) and isinstance(s.value, ast.Call) and ast.unparse(s.value.func) == "torch.linalg.eigh"
            and isinstance(s.targets[0], ast.Tuple) and len(s.targets[0].elts) == 2]
    if not eigh:
        raise AnalysisError("C06-G: degen_symeig.forward no longer unpacks torch.linalg.eigh")
    roles = {ast.unparse(eigh[0].targets[0].elts[0]): "E", ast.unparse(eigh[0].targets[0].elts[1]): "V"}
    saved = [roles.get(a.id) for a in saves[0].args]
    if sorted(x or "?" for x in saved) != ["E", "V"]:
        G.bad(fw, enclosing_stmt(saves[0]), "degen_symeig.forward must save eigh's (eigenvalues, eigenvectors) for the backward (saved: %s)" % [a.id for a in saves[0].args])
        return
    pctx, pg, pG = bw.params()[:3]
    E, V = tt.sym("E"), tt.sym("V")
    VH = tt.adjoint(V)
    F0 = tt.add(("unsq", E, -2), tt.neg(("unsq", E, -1)))

    def expected(thr, cmp_op, with_vec, with_val):
        parts = []
        if with_vec:
            Fv = ("fill", F0, ("cmp", cmp_op, tt.absv(F0), thr), tt.INF)
            parts.append(tt.mm(V, tt.had(tt.recip(Fv), tt.mm(VH, tt.sym("Gbar"))), VH))
        if with_val:
            parts.append(tt.mm(V, tt.had(("unsq", tt.sym("gbar"), -1), VH)))
        R = tt.add(*parts)
        return tt.scale(tt.Fraction(1, 2), tt.add(R, tt.adjoint(R)))

    def debug_only(term, node):
        if any(x[0] == "op" and x[1] == "is_debug_enabled" for x in tt.subterms(term)):
            return False
        raise tt.Unsupported("test %s" % ast.unparse(node)[:60])
    rets = [r for r in own_nodes(bw.node) if isinstance(r, ast.Return)]
    for with_vec, with_val in ((True, True), (True, False), (False, True)):
        env = {"%s.saved_tensors" % pctx: ("op", "tuple") + tuple(tt.sym(x) for x in saved),
               pG: tt.sym("Gbar") if with_vec else tt.NONE, pg: tt.sym("gbar") if with_val else tt.NONE}
        what = "path (vector cotangent %s, value cotangent %s)" % ("given" if with_vec else "None", "given" if with_val else "None")
        ev = tt.TermEval(env, debug_only)
        try:
            ev.run(bw.node.body)
        except tt.Unsupported as e:
            G.undecided(bw, bw.node, "cannot interpret degen_symeig.backward on the %s: %s" % (what, e))
            return
        got = ev.returned
        if got is None:
            G.bad(bw, bw.node, "degen_symeig.backward returns nothing on the %s" % what)
            continue
        # the debug-only statements must not feed the result
        dbg_stores = {n.id for st in ev.assumed_skipped for n in ast.walk(st) if isinstance(n, ast.Name) and isinstance(n.ctx, ast.Store)} | \
                     {n.value.id for st in ev.assumed_skipped for n in ast.walk(st) if isinstance(n, (ast.Subscript, ast.Attribute)) and isinstance(n.ctx, ast.Store)
                      and isinstance(n.value, ast.Name)}
        dbg_nodes = {id(n) for st in ev.assumed_skipped for n in ast.walk(st)}
        leak = [n for n in own_nodes(bw.node) if isinstance(n, ast.Name) and isinstance(n.ctx, ast.Load) and n.id in dbg_stores and id(n) not in dbg_nodes]
        if leak:
            G.undecided(bw, enclosing_stmt(leak[0]), "cannot identify the value of `%s`: it is written inside the debug-only block" % leak[0].id)
            return
        fills = [x for x in tt.subterms(got) if x[0] == "fill"]
        thr, cmp_op = tt.sym("thr"), "<="
        if fills and fills[0][2][0] == "cmp" and fills[0][2][1] in ("<=", "<"):
            thr, cmp_op = fills[0][2][3], fills[0][2][1]
        if any(x in (tt.sym("Gbar"), tt.sym("gbar"), V) for x in tt.subterms(thr)):
            G.bad(bw, bw.node, "the degeneracy threshold depends on the cotangents / eigenvectors: %s" % tt.show(thr))
            continue
        want = expected(thr, cmp_op, with_vec, with_val)
        if got == want:
            G.ok(bw.fq, "%s: returns 1/2 (R + R^H) with R = V (F^-1 o (V^H Gbar)) V^H + V diag(gbar) V^H, F = lambda_j - lambda_i, |F| <= thr voided before inversion" % what)
            continue
        foreign = tt.foreign_operators(got, want)
        if foreign:
            G.undecided(bw, rets[-1] if rets else bw.node, "cannot interpret degen_symeig.backward on the %s: it uses %s, which the specification term does not" % (what, foreign))
            return
        subs = list(tt.subterms(got))
        if with_vec and F0 not in subs and tt.neg(F0) in [x for x in subs] or (with_vec and any(x[0] == "fill" and x[1] == tt.neg(F0) for x in subs)):
            why = "F must be eival.unsqueeze(-2) - eival.unsqueeze(-1), i.e. F[i, j] = lambda_j - lambda_i (the sign of the eigenvector term depends on it)"
        elif with_vec and not any(x[0] == "recip" and x[1][0] == "fill" for x in subs):
            why = "degenerate entries of F must be voided (set to inf) before F is inverted"
        elif got[0] != "add" or tt.adjoint(got) != got:
            why = "the gradient w.r.t. a Hermitian matrix must be symmetrised: (R + R^H) / 2"
        else:
            why = "the dense backward must be V (F^-1 o (V^H G)) V^H + V (g (col) * V^H) with V^H = conj transpose"
        G.bad(bw, rets[-1] if rets else bw.node, "%s [%s: got %s; expected %s]" % (why, what, tt.show(got)[:400], tt.show(want)[:400]))
    if len(rets) == 1:
        G.ok(bw.fq, "one gradient for the one input")
    else:
        G.bad(bw, bw.node, "degen_symeig.backward must return the single gradient on one exit")
    G.ok(fw.fq, "forward saves eigh's (values, vectors): %s" % saved)


def _degeneracy_map(model: Model, K: RuleResult):
    f = model.func(PUB, "_check_degen")
    pe, pa, pr = f.params()[:3]
    env: Dict[str, Rat] = {}
    cmp_ = None

    def hook(e):
        t = ast.unparse(e)
        if t == "%s.unsqueeze(-2)" % pe:
            return S("lam_j")
        if t == "%s.unsqueeze(-1)" % pe:
            return S("lam_i")
        if isinstance(e, ast.Call) and ast.unparse(e.func) == "torch.abs" and len(e.args) == 1:
            if ast.unparse(e.args[0]) == pe:
                return S("ABSLAM")
            inner = eval_expr(e.args[0], env, hook)
            if inner.eq(S("lam_j") - S("lam_i")) or inner.eq(S("lam_i") - S("lam_j")):
                return S("DIST")
            if ast.unparse(e.args[0]) == pe:
                return S("ABSLAM")
            # a difference of *sub-ranges* of the eigenvalues (evals[..., 1:] - evals[..., :-1]) compares neighbours only: it cannot be the
            # all-pairs distance whatever is built from it afterwards - a distinct quantity, decided below; anything else stays uninterpreted
            def _has_range(x_):
                return any(isinstance(sb, ast.Subscript) and ast.unparse(sb.value) == pe and
                           any(isinstance(el, ast.Slice) and (el.lower is not None or el.upper is not None)
                               for el in (sb.slice.elts if isinstance(sb.slice, ast.Tuple) else [sb.slice])) for sb in ast.walk(x_))
            if _has_range(e.args[0]):
                return S("<|%s|>" % ast.unparse(e.args[0]).replace(" ", ""))
            raise Uninterpretable("abs of %s" % ast.unparse(e.args[0]))
        if isinstance(e, ast.Call) and isinstance(e.func, ast.Attribute) and e.func.attr == "unsqueeze":
            v = eval_expr(e.func.value, env, hook)
            return v
        if isinstance(e, ast.Name):
            if e.id in env:
                return env[e.id]
            if e.id in (pa, pr):
                return S(e.id)
            return None
        if isinstance(e, (ast.Call, ast.Subscript, ast.Attribute)):
            return S("<%s>" % ast.unparse(e).replace(" ", ""))      # an operation outside the vocabulary: a distinct, uninterpreted quantity
        return None
    try:
        for s_ in f.node.body:
            if isinstance(s_, ast.Assign) and isinstance(s_.targets[0], ast.Name):
                v = s_.value
                # strip `.to(dtype)` and a comparison
                while isinstance(v, ast.Call) and isinstance(v.func, ast.Attribute) and v.func.attr in ("to", "type", "float", "double"):
                    v = v.func.value
                if isinstance(v, ast.Compare) and len(v.ops) == 1:
                    cmp_ = (eval_expr(v.left, env, hook), v.ops[0], eval_expr(v.comparators[0], env, hook), s_)
                    continue
                try:
                    env[s_.targets[0].id] = eval_expr(v, env, hook)
                except Uninterpretable:
                    env[s_.targets[0].id] = S("<%s>" % s_.targets[0].id)
    except Uninterpretable as e:
        raise AnalysisError("C06-K: cannot normalise _check_degen: %s" % e)
    if cmp_ is None:
        raise AnalysisError("C06-K: the comparison defining the degeneracy map was not found")
    l_, op, r_, st = cmp_
    if isinstance(op, (ast.Gt, ast.GtE)):
        l_, r_ = r_, l_
    if l_.eq(S("DIST")):
        K.ok(f.fq, "the map is built from the pairwise distances |lambda_i - lambda_j| (symmetric)")
    else:
        K.bad(f, st, "the degeneracy map must compare |evals_i - evals_j|: left side normal form %r" % l_)
    if r_.eq(S(pa) + S(pr) * S("ABSLAM")) and isinstance(op, (ast.Lt, ast.LtE, ast.Gt, ast.GtE)):
        K.ok(f.fq, "degenerate <=> distance < degen_atol + degen_rtol * |lambda|")
    else:
        K.bad(f, st, "the threshold must be degen_atol + degen_rtol * |lambda|: normal form %r" % r_)
    rets = [r for r in own_nodes(f.node) if isinstance(r, ast.Return)]
    defs = function_defs(f.node)
    flag = rets[-1].value.elts[1] if rets and isinstance(rets[-1].value, ast.Tuple) and len(rets[-1].value.elts) == 2 else None
    fd = defs.get(flag.id, [None])[0] if isinstance(flag, ast.Name) else flag
    while isinstance(fd, ast.Call) and ast.unparse(fd.func) == "bool":
        fd = fd.args[0]
    okf = (isinstance(fd, ast.Compare) and len(fd.ops) == 1 and isinstance(fd.ops[0], ast.Gt) and ast.unparse(fd.left).startswith("torch.sum(")
           and ast.unparse(fd.comparators[0]) == "torch.numel(%s)" % pe)
    if okf:
        K.ok(f.fq, "degeneracy is reported only when the map has entries beyond the diagonal (sum > number of eigenvalues)")
    else:
        K.bad(f, rets[-1] if rets else f.node, "isdegenerate must mean: more marked pairs than the diagonal ones (sum(map) > numel(evals))")


def _svd_path(model: Model, D: RuleResult):
    f = model.func(PUB, "svd")
    bad = [n for n in ast.walk(f.node) if (isinstance(n, ast.Call) and isinstance(n.func, ast.Attribute) and n.func.attr in ("detach", "item")) or
           (isinstance(n, ast.With) and "no_grad" in ast.unparse(n.items[0].context_expr))]
    if bad:
        D.bad(f, enclosing_stmt(bad[0]) if not isinstance(bad[0], ast.With) else bad[0], "svd leaves the differentiable path (detach / no_grad)")
    else:
        D.ok(f.fq, "svd differentiates through symeig and A.mm / A.rmm: nothing is detached")
    ex = model.func(IMPL, "exacteig")
    bad = [n for n in ast.walk(ex.node) if isinstance(n, ast.Call) and isinstance(n.func, ast.Attribute) and n.func.attr in ("detach", "item")]
    uses = [c for c in ast.walk(ex.node) if isinstance(c, ast.Call) and ast.unparse(c.func) == "degen_symeig.apply"]
    if not bad and len(uses) == 2:
        D.ok(ex.fq, "the dense path differentiates through degen_symeig (degeneracy-safe backward) in both branches; nothing is detached")
    else:
        D.bad(ex, ex.node, "exacteig must use degen_symeig.apply in both branches and stay on the differentiable path")


def rules(model: Model, tier: str) -> List[RuleResult]:
    fc = ac.get_fncls(model, "symeig_torchfcn")
    dg = ac.get_fncls(model, "degen_symeig")
    R1 = RuleResult(PROP, "AC1", "arity of symeig_torchfcn / degen_symeig backward and of their apply sites", min_instances=3)
    R2 = RuleResult(PROP, "AC2", "only the parameter slots of A and M carry gradients; the seven fixed slots are None", min_instances=7)
    R3 = RuleResult(PROP, "AC3", "both pull-backs pass create_graph=torch.is_grad_enabled() (second order)", min_instances=2)
    R5 = RuleResult(PROP, "AC5", "the shifted solve receives the saved backward options by ** splat", min_instances=1)
    R6 = RuleResult(PROP, "AC6", "layout: symeig passes (na, *params, *mparams); forward splits at na; backward returns (*grad_params, *grad_mparams)", min_instances=3)
    Sy = RuleResult(PROP, "C06-S", "shifted system (A - e_i M) g_i = -P b_i and re-projection, all under the saved parameters of A and M", min_instances=5)
    Mr = RuleResult(PROP, "C06-M", "A and M pull-back cotangents (polynomial normal form) and their pairing with the operator products", min_instances=5)
    O = RuleResult(PROP, "C06-O", "projector: M placement, conjugation and degeneracy map in all six branches", min_instances=6)
    G = RuleResult(PROP, "C06-G", "dense backward: F orientation, degenerate entries voided before inversion, formula, symmetrisation", min_instances=5)
    K = RuleResult(PROP, "C06-K", "degeneracy map", min_instances=3)
    D = RuleResult(PROP, "C06-D", "svd / dense path stay differentiable", min_instances=2)
    ac.ac1_arity(model, fc, R1)
    ac.ac1_arity(model, dg, R1)
    ac.ac2_frozen_none(fc, R2)
    ac.ac3_create_graph(model, R3, files={PUB})
    ac.ac5_options_forwarding(model, fc, R5, {"solve"})
    ac.ac6_layout(model, fc, R6)
    from .c02 import _backward_group_order
    _backward_group_order(fc, R6)
    _shifted_system(fc, Sy)
    _pullback_formulas(fc, Mr)
    _projector(model, O)
    _dense_backward(model, G)
    _degeneracy_map(model, K)
    _svd_path(model, D)
    _hy = ac.hygiene_rules(model, fc, PROP, min_copies=2, min_opt=2)
    from ..rules import substitution as _subst
    _sub = _subst.rules(model, PROP, tier)
    from ..rules import linopalg
    from ..rules.hermitian import hermitian_idiom
    Hh = RuleResult(PROP, "C06-H", "every last-two-axes transpose in the symeig files and in the operator base class is conjugated", min_instances=8)
    hermitian_idiom(model, Hh, {"xitorch/_core/linop.py", "xitorch/linalg/symeig.py", "xitorch/_impls/linalg/symeig.py"},
                    {("xitorch/_impls/linalg/symeig.py", "davidson"): "real-only path"})
    ADJ = RuleResult(PROP, "C06-A", "operator algebra: composed operators' _rmv is the formal adjoint of _mv (the pull-backs go through A.mm / M.mm)", min_instances=4)
    linopalg.adjoint_structure(model, ADJ)
    # the implicit backward differentiates w.r.t. the tensors getparamnames lists: a composed operator must forward its operands' names with
    # the right prefix, or an operand's tensor resolves to another one (zero / wrong gradient for it) - shared with C11-P
    from .c11 import _paramnames as _pn
    PN = RuleResult(PROP, "C06-P", "composed operators forward _getparamnames of their operands with the operand's prefix", min_instances=4)
    _pn(model, PN)

    # the adjoint systems of this backward are solved by the iterative methods; for a non-Hermitian / not positive definite operator their
    # set-up falls back to the normal equations, which must be A^H A x = A^H b (shared with C01-N)
    from ..rules import c01_layout as _c01l
    LSN = RuleResult(PROP, "LS-N", "inner linear solve: the normal-equation fallback applies one adjoint map to operator and right-hand side (A^H A x = A^H b)", min_instances=3)
    _c01l.check_normal_equations(model, LSN)
    from .c01 import krylov_loop_rules as _klr
    _ls = _klr(model, PROP)
    return [R1, R2, R3, R5, R6, Sy, Mr, O, G, K, D, *_hy, Hh, ADJ, *_sub, PN, LSN, *_ls]
