"""C11 -- LinearOperator products are mutually consistent for every operator expression (structural part)."""
from __future__ import annotations
import ast
from typing import List, Optional, Dict, Set, Tuple
from ..model import path_conditions, effective_conditions, Model, FuncInfo, ClassInfo, own_nodes, norm_stmt, AnalysisError, AnchorError, enclosing_stmt, parent, ancestors
from ..report import RuleResult
from ..cfg import CFG, Node
from ..flow import function_defs, names_loaded
from ..rules.hermitian import hermitian_idiom

PROP = "C11"
LEVEL = "other"
EXPLANATION = (
    "Decided from xitorch/_core/linop.py (and every LinearOperator subclass of the package): (F) fall-back discipline - a "
    "reference to an optional private product (_rmv, _mm, _rmm, _fullmatrix) on self or on an operand operator is dominated "
    "in the CFG by a test of that receiver's capability flag on the implying branch; otherwise the public, fall-back-capable "
    "method must be used (so a composed operator works for operands that define _mv only); (C) the per-class capability "
    "cache is not an inheritable once-flag: a flag written through cls.X and read through plain attribute lookup in "
    "__new__/classmethods is history dependent; (V) validation dominance - shape / type / Hermiticity checks raise before any "
    "operator is constructed or any product is delegated (11 checks); (H) every last-two-axes transpose is conjugated "
    "(rmv/rmm apply the conjugate transpose); (P) each composed operator forwards _getparamnames to every operand it "
    "stores, with the attribute name as prefix (needed for gradients through compositions). NOT decided: numerical equality "
    "of the products, broadcasting arithmetic.")
ASSUMPTIONS = ["_mv is mandatory (enforced in __new__) and exempt from (F)"]

LINOP = "xitorch/_core/linop.py"
OPTIONAL = {"_rmv": "rmv", "_mm": "mm", "_rmm": "rmm", "_fullmatrix": "fullmatrix"}


def rules(model: Model, tier: str) -> List[RuleResult]:
    F = RuleResult(PROP, "C11-F", "fall-back discipline: optional private products only under the receiver's capability flag", min_instances=5)
    C = RuleResult(PROP, "C11-C", "per-class capability cache is not an inheritable once-flag", min_instances=1)
    V = RuleResult(PROP, "C11-V", "validation dominance: checks raise before construction / delegation", min_instances=11)
    H = RuleResult(PROP, "C11-H", "Hermitian-adjoint idiom in linop.py", min_instances=5)
    P = RuleResult(PROP, "C11-P", "_getparamnames forwards to every stored operand with its attribute prefix", min_instances=6)
    _fallback(model, F)
    _class_cache(model, C)
    _validation(model, V)
    hermitian_idiom(model, H, {LINOP}, {})
    _paramnames(model, P)
    from ..rules import linopalg
    A = RuleResult(PROP, "C11-A", "composed operators: _rmv is the formal adjoint of _mv (operator-algebra normal form)", min_instances=4)
    SH = RuleResult(PROP, "C11-SH", "composed operators declare the shape of their products for every batch pattern (shape domain)", min_instances=4)
    ST = RuleResult(PROP, "C11-ST", "operators are stateless after construction (no cached derived state)", min_instances=40)
    linopalg.adjoint_structure(model, A)
    ncfg = linopalg.constructor_shapes(model, SH, tier)
    linopalg.stateless(model, ST)
    HF = RuleResult(PROP, "C11-HF", "Hermitian flag of composed operators: truth table against the specification (Add: a and b; Mul, Adjoint: operand; Matmul: caller only)", min_instances=4)
    IP = RuleResult(PROP, "C11-IP", "products never modify in place a tensor obtained from their argument or from an operand's product", min_instances=20)
    SC = RuleResult(PROP, "C11-SC", "scalars admitted by __mul__ are those for which MulLinearOperator._rmv is the adjoint", min_instances=2)
    linopalg.hermitian_flags(model, HF)
    linopalg.no_inplace_in_products(model, IP)
    linopalg.scalar_validation(model, SC)
    Q = RuleResult(PROP, "C11-Q", "public capability properties report the per-class flags resolved by __new__ (inherited implementations included); .H wraps every "
                   "non-Hermitian, non-dense operator in AdjointLinearOperator (capability check + adjoint-trick fall-back)", min_instances=6)
    _capability_properties(model, Q)
    VW = RuleResult(PROP, "C11-VW", "product methods of every LinearOperator subclass never reshape (a view of) the operand with .view (the fall-backs pass transposed operands)", min_instances=10)
    linopalg.view_of_operand(model, VW)
    rules.extra_coverage = dict(shape_configurations=ncfg)
    return [F, C, V, H, P, A, SH, ST, HF, IP, SC, Q, VW]


def _capability_properties(model: Model, Q: RuleResult):
    base = model.cls(LINOP, "LinearOperator")
    new = base.methods.get("__new__")
    set_in_new = set()
    if new is not None:
        for n in ast.walk(new.node):
            if isinstance(n, ast.Attribute) and isinstance(n.ctx, ast.Store) and n.attr.startswith("_is_") and n.attr.endswith("_implemented"):
                set_in_new.add(n.attr)
    # each flag is computed from the method it speaks for: cls._is_<x>_implemented = <check>("_<x>")
    if new is not None:
        for st in ast.walk(new.node):
            if isinstance(st, ast.Assign) and len(st.targets) == 1 and isinstance(st.targets[0], ast.Attribute) and st.targets[0].attr.startswith("_is_") \
                    and st.targets[0].attr.endswith("_implemented") and isinstance(st.value, ast.Call):
                flag_ = st.targets[0].attr
                names_ = [a.value for a in st.value.args if isinstance(a, ast.Constant) and isinstance(a.value, str)]
                want_ = {"_is_gpn_implemented": "_getparamnames"}.get(flag_, "_" + flag_[len("_is_"):-len("_implemented")])
                if names_ and names_ != [want_]:
                    Q.bad(new, st, "the capability flag %s is computed from the method %s instead of `%s`: products are then dispatched to an implementation the "
                          "operator does not have (or a present one is ignored)" % (flag_, names_, want_))
                elif names_:
                    Q.ok(new.fq, "%s is resolved from `%s`" % (flag_, want_))
    for priv, pub in OPTIONAL.items():
        prop = base.methods.get("is_%s_implemented" % pub)
        flag = "_is_%s_implemented" % pub
        if prop is None:
            raise AnchorError("LinearOperator.is_%s_implemented vanished" % pub)
        rets = [r for r in own_nodes(prop.node) if isinstance(r, ast.Return)]
        ok = len(rets) == 1 and isinstance(rets[0].value, ast.Attribute) and isinstance(rets[0].value.value, ast.Name) and rets[0].value.value.id == prop.params()[0] \
            and rets[0].value.attr == flag and flag in set_in_new
        if ok:
            Q.ok(prop.fq, "is_%s_implemented returns self.%s, the flag __new__ resolves through the MRO" % (pub, flag))
        else:
            Q.bad(prop, rets[0] if rets else prop.node, "is_%s_implemented must report self.%s (set by __new__ for the instance's class, inherited implementations included); "
                  "any other answer makes AdjointLinearOperator / the fall-backs accept or refuse the wrong operators" % (pub, flag))
    hp = base.methods.get("H")
    if hp is None:
        raise AnchorError("LinearOperator.H vanished")
    me = hp.params()[0]
    for r in [r for r in own_nodes(hp.node) if isinstance(r, ast.Return)]:
        v = r.value
        txt = ast.unparse(v) if v is not None else "None"
        conds = effective_conditions(r)
        if isinstance(v, ast.Name) and v.id == me:
            good = ("%s._is_hermitian" % me, True) in conds or ("%s.is_hermitian" % me, True) in conds
            why = "returning the operator itself is right only under its Hermitian flag"
        elif isinstance(v, ast.Call) and ast.unparse(v.func) == "AdjointLinearOperator" and len(v.args) == 1 and ast.unparse(v.args[0]) == me:
            good, why = True, ""
        elif isinstance(v, ast.Call) and ast.unparse(v.func).endswith("LinearOperator.m") and any("isinstance(%s, MatrixLinearOperator)" % me == c for c, t in conds if t):
            good, why = True, ""
        else:
            good, why = False, "the adjoint of a general operator must be AdjointLinearOperator(self): it is the only class whose products fall back to the adjoint trick when an operand has no _rmv"
        if good:
            Q.ok(hp.fq, "H: `return %s` under %s" % (txt[:60], [c for c, t in conds if t] or "no condition"))
        else:
            Q.bad(hp, r, "LinearOperator.H returns `%s`: %s" % (txt[:80], why))



# ------------------------------------------------------------------------------------------------- F
def _linop_classes(model: Model) -> List[ClassInfo]:
    base = model.cls(LINOP, "LinearOperator")
    out = [base]
    for c in model.all_classes():
        if c is not base and base in c.mro():
            out.append(c)
    return out


def _flag_atoms(test: ast.AST) -> List[Tuple[str, str, ast.AST]]:
    """[(receiver source, product, node)] for every capability-flag read in a test"""
    out = []
    for n in ast.walk(test):
        if isinstance(n, ast.Attribute):
            a = n.attr
            for priv, pub in OPTIONAL.items():
                if a in ("_is_%s_implemented" % pub, "is_%s_implemented" % pub):
                    out.append((ast.unparse(n.value), priv, n))
    return out


def _eval3(test: ast.AST, atom: ast.AST, value: bool) -> Optional[bool]:
    """three-valued evaluation of `test` with the single attribute node `atom` set to `value`, everything else unknown"""
    if test is atom:
        return value
    if isinstance(test, ast.Constant) and isinstance(test.value, bool):
        return test.value
    if isinstance(test, ast.UnaryOp) and isinstance(test.op, ast.Not):
        r = _eval3(test.operand, atom, value)
        return None if r is None else (not r)
    if isinstance(test, ast.BoolOp):
        vals = [_eval3(v, atom, value) for v in test.values]
        if isinstance(test.op, ast.And):
            if any(v is False for v in vals):
                return False
            return True if all(v is True for v in vals) else None
        if any(v is True for v in vals):
            return True
        return False if all(v is False for v in vals) else None
    return None


def _edge_implies_flag(test: ast.AST, atom: ast.AST, label: bool) -> bool:
    """taking the `label` edge of `test` implies atom == True"""
    r = _eval3(test, atom, False)
    return r is not None and r != label


def _fallback(model: Model, F: RuleResult):
    for c in _linop_classes(model):
        for m in c.methods.values():
            refs = [n for n in own_nodes(m.node) if isinstance(n, ast.Attribute) and n.attr in OPTIONAL and isinstance(n.ctx, ast.Load)]
            # a class's own definition `def _rmv` is not a reference; getattr(cls, name) is reflective and not considered
            if not refs:
                continue
            cfg = None
            dom = None
            for r in refs:
                recv = ast.unparse(r.value)
                priv = r.attr
                if recv.startswith("super("):
                    continue
                par_ = getattr(r, "_parent", None)
                if isinstance(par_, ast.Compare) and all(isinstance(o_, (ast.Is, ast.IsNot)) for o_ in par_.ops):
                    # `cls._mm is not LinearOperator._mm`: an identity test of the method objects (how the capability flags are computed) is
                    # reflective, like getattr(cls, name); nothing is called
                    continue
                what = "%s.%s references %s.%s" % (c.name, m.name, recv, priv)
                # (1) expression-level guard: IfExp ancestor
                guarded = False
                child = r
                for a in ancestors(r):
                    if isinstance(a, ast.IfExp):
                        for rv, pv, atom in _flag_atoms(a.test):
                            if rv == recv and pv == priv:
                                if (child is a.body or _contains(a.body, r)) and _edge_implies_flag(a.test, atom, True):
                                    guarded = True
                                if _contains(a.orelse, r) and _edge_implies_flag(a.test, atom, False):
                                    guarded = True
                    if isinstance(a, ast.stmt):
                        break
                # (2) CFG dominance by a test of the flag on the implying edge
                if not guarded:
                    if cfg is None:
                        cfg = CFG(m.node)
                        dom = cfg.dominators(skip_exc=True)
                    st = enclosing_stmt(r)
                    for nd in cfg.nodes_of(st):
                        for d in dom.get(nd.id, ()):
                            t = cfg.nodes[d]
                            if t.kind != "test" or not isinstance(t.stmt, ast.If) or t is nd:
                                continue
                            for rv, pv, atom in _flag_atoms(t.stmt.test):
                                if rv != recv or pv != priv:
                                    continue
                                for lab in (True, False):
                                    if not _edge_implies_flag(t.stmt.test, atom, lab):
                                        continue
                                    # nd must be unreachable from the other edge
                                    other = [s for s, l in t.succ if l == (not lab)]
                                    reach_other = set()
                                    for o in other:
                                        reach_other |= _reach(cfg, o, stop=t.id)
                                    if nd.id not in reach_other:
                                        guarded = True
                if guarded:
                    F.ok(m.fq, what + " under its capability flag")
                else:
                    F.bad(m, enclosing_stmt(r), "optional private product `%s.%s` is used without a dominating test of %s's capability flag: "
                          "for an operand that defines only _mv this raises NotImplementedError - use the public `%s` (which falls back) "
                          "or guard it" % (recv, priv, recv, OPTIONAL[priv]), what=what)


def _contains(tree: ast.AST, node: ast.AST) -> bool:
    return any(n is node for n in ast.walk(tree))


def _reach(cfg: CFG, start: Node, stop: int) -> Set[int]:
    seen = {start.id}
    work = [start]
    while work:
        n = work.pop()
        for s, lab in n.succ:
            if lab == "exc" or s.id in seen or s.id == stop:
                continue
            seen.add(s.id)
            work.append(s)
    return seen


# ------------------------------------------------------------------------------------------------- C
def _class_cache(model: Model, C: RuleResult):
    n = 0
    for f in model.all_functions():
        if f.cls is None:
            continue
        decos = f.decorators()
        if not (f.name in ("__new__", "__init_subclass__") or "classmethod" in decos):
            continue
        clsname = f.params()[0] if f.params() else None
        if clsname is None:
            continue
        written = {}
        for s in own_nodes(f.node):
            if isinstance(s, ast.Assign):
                for t in s.targets:
                    if isinstance(t, ast.Attribute) and isinstance(t.value, ast.Name) and t.value.id == clsname:
                        written[t.attr] = s
        if not written:
            continue
        for i in own_nodes(f.node):
            if not isinstance(i, ast.If):
                continue
            # flags assigned inside this if's body
            inside = {a for a, s in written.items() if _contains_stmt(i.body, s)}
            reads_plain = {n_.attr for n_ in ast.walk(i.test) if isinstance(n_, ast.Attribute) and isinstance(n_.value, ast.Name)
                           and n_.value.id == clsname and n_.attr in inside}
            for g in ast.walk(i.test):
                if isinstance(g, ast.Call) and isinstance(g.func, ast.Name) and g.func.id in ("getattr", "hasattr") and len(g.args) >= 2 \
                        and isinstance(g.args[0], ast.Name) and g.args[0].id == clsname and isinstance(g.args[1], ast.Constant) \
                        and g.args[1].value in inside:
                    reads_plain.add(g.args[1].value)      # getattr() follows the MRO just like attribute syntax
            own_dict = {a for a in inside if ("%s.__dict__" % clsname) in ast.unparse(i.test) and repr(a) in ast.unparse(i.test).replace('"', "'")} | \
                       {a for a in inside if ("vars(%s)" % clsname) in ast.unparse(i.test) and repr(a) in ast.unparse(i.test).replace('"', "'")}
            if reads_plain or own_dict:
                n += 1
                what = "%s.%s: once-flag(s) %s guarded by `%s`" % (f.cls.name, f.name, sorted(reads_plain | own_dict), norm_stmt(i.test, 70))
                if reads_plain:
                    C.bad(f, i, "the once-flag `%s.%s` is written on the class but read through normal attribute lookup: a subclass "
                          "instantiated after its parent inherits the parent's flags, so its own optional products are ignored "
                          "(read it from %s.__dict__ instead)" % (clsname, sorted(reads_plain)[0], clsname), what=what)
                else:
                    C.ok(f.fq, what + " read from the class' own __dict__")
    return n


def _contains_stmt(body, stmt) -> bool:
    return any(any(x is stmt for x in ast.walk(b)) for b in body)


# ------------------------------------------------------------------------------------------------- V
def _shape_cmp(test: ast.AST) -> Optional[Tuple[str, str]]:
    """`X.shape[i] != Y.shape[j]` -> (left, right) sources (searching inside and/or)"""
    for n in ast.walk(test):
        if isinstance(n, ast.Compare) and len(n.ops) == 1 and isinstance(n.ops[0], ast.NotEq):
            l, r = ast.unparse(n.left), ast.unparse(n.comparators[0])
            if "shape" in l and "shape" in r:
                return (l, r)
    return None


VALIDATIONS = [
    # (method, kind, expected, exception)
    ("LinearOperator.matmul", "shape", ("self.shape[-1]", "b.shape[-2]"), "RuntimeError"),
    ("LinearOperator.__add__", "shape", ("self.shape[-2:]", "b.shape[-2:]"), "RuntimeError"),
    ("LinearOperator.__sub__", "shape", ("self.shape[-2:]", "b.shape[-2:]"), "RuntimeError"),
    ("LinearOperator.mv", "shape", ("x.shape[-1]", "self.shape[-1]"), "RuntimeError"),
    ("LinearOperator.mm", "shape", ("x.shape[-2]", "self.shape[-1]"), "RuntimeError"),
    ("LinearOperator.rmv", "shape", ("x.shape[-1]", "self.shape[-2]"), "RuntimeError"),
    ("LinearOperator.rmm", "shape", ("x.shape[-2]", "self.shape[-2]"), "RuntimeError"),
    ("LinearOperator.__init__", "shape", ("shape[-1]", "shape[-2]"), "RuntimeError"),
    ("LinearOperator.__init__", "rank", None, "RuntimeError"),
    ("LinearOperator.__mul__", "type", None, "TypeError"),
    ("LinearOperator.m", "hermit", None, "RuntimeError"),
]


def _raises(body, exc) -> bool:
    return bool(body) and isinstance(body[0], ast.Raise) and body[0].exc is not None and ast.unparse(body[0].exc).startswith(exc + "(")


def _validation(model: Model, V: RuleResult):
    for qual, kind, expected, exc in VALIDATIONS:
        f = model.func(LINOP, qual)
        cfg = CFG(f.node)
        dom = cfg.dominators(skip_exc=True)
        cand = None
        for i in own_nodes(f.node):
            if not isinstance(i, ast.If) or not _raises(i.body, exc):
                continue
            if kind == "shape":
                sc = _shape_cmp(i.test)
                if sc and set(sc) == set(expected):
                    if qual.endswith("__init__") and "is_hermitian" not in ast.unparse(i.test):
                        continue
                    cand = i
            elif kind == "rank":
                if "len(shape) < 2" in ast.unparse(i.test):
                    cand = i
            elif kind == "type":
                t = ast.unparse(i.test)
                if "isinstance" in t and "int" in t and "float" in t and t.startswith("not "):
                    cand = i
        if kind == "hermit":
            # a raise that happens exactly when the caller says hermitian and the matrix is not equal to its adjoint - whatever the nesting
            from ..model import effective_conditions, cond_atoms
            for r in own_nodes(f.node):
                if isinstance(r, ast.Raise) and r.exc is not None and ast.unparse(r.exc).startswith(exc + "("):
                    at = cond_atoms(effective_conditions(r))
                    if ("is_hermitian", True) in at and any(not pol and "allclose" in t and "transpose(-2, -1).conj()" in t for t, pol in at):
                        cand = next((a for a in ancestors(r) if isinstance(a, ast.If)), None)
        what = "%s: %s check raising %s" % (qual, kind if expected is None else "%s != %s" % expected, exc)
        if cand is None:
            V.bad(f, f.node, "validation vanished: %s" % what, what=what)
            continue
        # dominance over what follows: every return node constructing/delegating
        tnodes = cfg.nodes_of(cand)
        tids = {n.id for n in tnodes}
        bad_ret = None
        if kind != "hermit":
            for n in cfg.nodes:
                if n.kind == "return" and n.id in dom and not (dom[n.id] & tids):
                    bad_ret = n
            if qual.endswith("__init__"):
                # no return statements: the check must dominate the normal exit's predecessors
                for p, lab in cfg.exit.pred:
                    if lab != "exc" and p.id in dom and not (dom[p.id] & tids) and p.id not in tids:
                        bad_ret = p
        else:
            # hermit check must dominate the construction when is_hermitian is truthy: structural (same branch, before return)
            pass
        if bad_ret is None:
            V.ok(f.fq, what + " dominates every construction / delegation")
        else:
            V.bad(f, bad_ret.stmt, "an operator is constructed / a product delegated on a path that skips the validation (%s)" % what, what=what)


# ------------------------------------------------------------------------------------------------- P
def _paramnames(model: Model, P: RuleResult):
    base = model.cls(LINOP, "LinearOperator")
    for c in _linop_classes(model):
        if c is base or c.module.relpath != LINOP:
            continue
        init = c.methods.get("__init__")
        gp = c.methods.get("_getparamnames")
        if init is None or gp is None:
            P.bad(c.fq, c.node, "composed operator without __init__/_getparamnames", file=LINOP)
            continue
        # stored attributes coming from parameters annotated LinearOperator or torch.Tensor
        ann = {a.arg: (ast.unparse(a.annotation) if a.annotation is not None else "") for a in init.node.args.args}
        stored = {}
        for s in own_nodes(init.node):
            if isinstance(s, ast.Assign) and isinstance(s.targets[0], ast.Attribute) and isinstance(s.targets[0].value, ast.Name) \
                    and s.targets[0].value.id == "self" and isinstance(s.value, ast.Name) and s.value.id in ann:
                stored[s.targets[0].attr] = ann[s.value.id]
        src = ast.unparse(gp.node)
        for attr, typ in stored.items():
            if "LinearOperator" in typ:
                want = "self.%s._getparamnames(prefix=prefix + '%s.')" % (attr, attr)
                if want in src:
                    P.ok(gp.fq, "%s forwards to operand `%s` with prefix '%s.'" % (c.name, attr, attr))
                else:
                    P.bad(gp, gp.node, "%s._getparamnames does not forward to the stored operand `%s` with prefix '%s.': its parameters "
                          "would be invisible to autograd through this composition" % (c.name, attr, attr), what="operand %s" % attr)
            elif "Tensor" in typ:
                want = "prefix + '%s'" % attr
                if want in src:
                    P.ok(gp.fq, "%s lists its tensor `%s`" % (c.name, attr))
                else:
                    P.bad(gp, gp.node, "%s._getparamnames does not list its tensor `%s`" % (c.name, attr), what="tensor %s" % attr)
