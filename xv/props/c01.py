"""C01 -- solve returns the solution of AX - MXE = B, or warns that it did not (structural part)."""
from __future__ import annotations
import ast
from typing import List, Optional, Dict, Set, Tuple
from ..model import Model, FuncInfo, own_nodes, norm_stmt, AnalysisError, AnchorError, ancestors, enclosing_stmt
from ..report import RuleResult
from ..cfg import CFG
from ..flow import function_defs, names_loaded, def_use_closure, find_warn_flag, test_on_name, is_warn_call, flag_typestate
from ..callgraph import resolve_call, reachable_functions
from ..rules.solverloop import check_warn_or_converged, tolerance_params, enclosing_ifs
from ..rules.dispatch import dispatch_tables_in

PROP = "C01"
LEVEL = "other"
EXPLANATION = (
    "Static analysis (ast + own CFG/dataflow) of the iterative linear solvers reachable from the dispatch table of "
    "solve_torchfcn.forward. Decided: (W) on every path through a solver loop to a return either the convergence flag "
    "is True or a ConvergenceWarning was issued, and (W2) never both; (P) the flag is only set under a stopping test "
    "whose def-use closure contains a tolerance parameter and a loop-variant value; (T) the threshold compared with "
    "the residual norm is max(rtol*|B2|, atol) with |B2| the row-axis norm of the transformed right-hand side; "
    "(S) every Krylov sibling consumes the col_swapped flag of _setup_linear_problem and undoes the column swap before "
    "returning; (W') the SciPy wrapper tests the returned status and warns; (B) _get_batchdims broadcasts exactly the "
    "documented batch prefixes; (Z) all zero/initial-guess allocations use (*_get_batchdims(A,B,E,M), nr, ncols). "
    "(F) composed operators call an operand's optional private products only under its capability flag; NOT decided: numerical accuracy of the iterate, agreement between methods, conditioning.")
ASSUMPTIONS = [
    "the residual expression compared in the loop is the true residual of the returned iterate (numerical, not decided)",
    "torch / numpy / scipy primitives behave as documented",
    "call resolution is name based; unresolved calls are not followed",
]

SOLVE_PUB = "xitorch/linalg/solve.py"
SOLVE_IMPL = "xitorch/_impls/linalg/solve.py"
# iterative solvers behind the dispatch table (confirmed by reading); others are discovered by idiom
FROZEN_LOOPS = (SOLVE_IMPL + "::cg", SOLVE_IMPL + "::bicgstab", SOLVE_IMPL + "::gmres",
                "xitorch/_impls/optimize/root/rootsolver.py::_nonlin_solver")


def _solver_targets(model: Model) -> Tuple[List[FuncInfo], Dict[str, FuncInfo]]:
    fwd = model.func(SOLVE_PUB, "solve_torchfcn.forward")
    tables = dispatch_tables_in(model, fwd)
    if not tables:
        raise AnchorError("no method table passed to get_method in solve_torchfcn.forward")
    entries: Dict[str, FuncInfo] = {}
    for t in tables:
        for k, v in t.entries:
            r = model.resolve_expr(fwd.module, v)
            if r and r[0] == "func":
                entries[k] = r[1]
    roots = list(entries.values())
    reach = reachable_functions(model, roots, depth=5)
    return list(reach.keys()), entries


def rules(model: Model, tier: str) -> List[RuleResult]:
    W = RuleResult(PROP, "C01-W", "warn-or-converged: every return through a solver loop has flag=True or a ConvergenceWarning", min_instances=8)
    W2 = RuleResult(PROP, "C01-W2", "no ConvergenceWarning on a path where the convergence flag is True", min_instances=4)
    P = RuleResult(PROP, "C01-P", "convergence flag set only under a stopping test involving a tolerance parameter and a loop-variant value", min_instances=4)
    Wp = RuleResult(PROP, "C01-W'", "external (SciPy) solver: returned status is tested and the failure branch warns", min_instances=1)
    T = RuleResult(PROP, "C01-T", "threshold provenance: residual norm compared with max(rtol*|B2|_rows, atol)", min_instances=3)
    S = RuleResult(PROP, "C01-S", "Krylov protocol: callers of _setup_linear_problem use the transformed RHS and undo the column swap", min_instances=3)
    B = RuleResult(PROP, "C01-B", "_get_batchdims broadcasts exactly A[:-2], B[:-2], E[:-1] (if E), M[:-2] (if E and M)", min_instances=4)
    Z = RuleResult(PROP, "C01-Z", "zero / initial-guess allocations have shape (*_get_batchdims(A,B,E,M), nr, ncols)", min_instances=5)

    reach, entries = _solver_targets(model)
    loop_targets = []
    for f in reach:
        if f.module.relpath.startswith("xitorch/_tests"):
            continue
        has_loop = any(isinstance(n, (ast.For, ast.While)) for n in own_nodes(f.node))
        if has_loop and (find_warn_flag(f.node) is not None or f.fq in FROZEN_LOOPS):
            loop_targets.append(f)
    names = sorted(f.fq for f in loop_targets)
    for need in FROZEN_LOOPS:
        if need not in names:
            raise AnchorError("solver loop %s is no longer reachable from the solve dispatch table" % need)
    for f in sorted(loop_targets, key=lambda f: f.fq):
        check_warn_or_converged(f, W, W2, P)

    # --- W': scipy wrapper
    _check_external_status(model, reach, Wp)

    # --- T and S on the callers of _setup_linear_problem
    setup = model.func(SOLVE_IMPL, "_setup_linear_problem")
    callers = []
    for f in model.all_functions():
        for c in own_nodes(f.node):
            if isinstance(c, ast.Call) and resolve_call(model, f, c) is setup:
                callers.append((f, c))
    for f, c in sorted(callers, key=lambda x: x[0].fq):
        _check_threshold_and_protocol(model, f, c, T, S)

    _check_batchdims(model, B)
    _check_zero_alloc(model, Z)
    _zero_rhs_shortcut(model, Z)
    from ..rules import c01_layout
    N = RuleResult(PROP, "C01-N", "normal-equation fallback applies the same adjoint map to the operator and to the right-hand side", min_instances=3)
    E = RuleResult(PROP, "C01-E", "shift/column layout of the shifted systems, exhaustive over batch patterns in the shape domain", min_instances=2)
    c01_layout.check_normal_equations(model, N)
    ncfg = c01_layout.check_shift_layout(model, E, tier)
    rules.extra_coverage = dict(shape_configurations=ncfg)
    from ..rules import autograd as _ac
    _R11 = RuleResult(PROP, "AC11", "every exit of the public functional returns the Function's output; forward's solution comes only from the dispatched implementation; operands unchanged", min_instances=2)
    for _cn in ['solve_torchfcn']:
        _fc = _ac.get_fncls(model, _cn)
        _ac.ac11_wrapper_returns(model, _fc, _R11)
        _ac.ac11_forward_provenance(model, _fc, _R11)
    from ..rules import substitution as _subst
    _sub = _subst.rules(model, PROP, tier)
    from ..rules import linopalg
    SH = RuleResult(PROP, "C01-SH", "composed operators report the broadcast batch shape (solve sizes its right-hand side, initial guess and result from A.shape)", min_instances=4)
    linopalg.constructor_shapes(model, SH, tier)
    HF = RuleResult(PROP, "C01-HF", "Hermitian flag of composed operators (cg and the normal-equation fallback branch on it)", min_instances=4)
    linopalg.hermitian_flags(model, HF)
    # solve applies A.H (the adjoint operator) in the normal-equation fall-back and in every backward: for composed operators the products
    # of the adjoint are the formal adjoint of the forward products (shared with C11-A / C02-A)
    ADJ = RuleResult(PROP, "C01-A", "operator algebra: composed operators' _rmv is the formal adjoint of _mv (solve applies A.H)", min_instances=4)
    linopalg.adjoint_structure(model, ADJ)
    # sesquilinear roles: _dot conjugates its FIRST argument; within one solver a vector is either always the conjugated side or never
    DT = RuleResult(PROP, "C01-D", "inner products: a vector keeps its side (conjugated first argument / plain second argument) in every _dot of a solver", min_instances=3)
    _dot_roles(model, DT)
    # the products solve asks of a composed operator (rmv / rmm in the normal-equation path, .H in every backward) fall back to the public
    # products of the operands: a private product called without the capability flag raises NotImplementedError for matrix-free operands
    from .c11 import _fallback
    FB = RuleResult(PROP, "C01-F", "composed operators use an operand's optional private products only under its capability flag (shared with C11-F)", min_instances=5)
    _fallback(model, FB)
    GD = RuleResult(PROP, "C01-G", "divisor guards of the Krylov recurrences replace exact zeros only (no absolute magnitude threshold on quantities quadratic in the residual)", min_instances=1)
    _denominator_guards(model, GD)
    return [W, W2, P, Wp, T, S, B, Z, N, E, _R11, SH, HF, ADJ, DT, FB, GD, *_sub]


def _dot_roles(model: Model, DT: RuleResult):
    """<a, b> = sum conj(a) b is not symmetric for complex vectors.  The Krylov recurrences pair a fixed 'left' vector (the shadow residual
    r0hat of BiCGSTAB, the residual of CG, the search direction) with varying right ones; a call with the two swapped is the complex
    conjugate of the intended scalar - invisible for real systems, a wrong step length (non-convergence) for complex ones.  Belief rule:
    inside one function a name that is the first argument of one _dot and the second argument of another (with a different partner) is
    reported at the minority site."""
    dotf = model.module(SOLVE_IMPL).functions.get("_dot")
    if dotf is None:
        raise AnchorError("_dot vanished from %s" % SOLVE_IMPL)
    src = ast.unparse(dotf.node)
    p0 = dotf.params()[0]
    if "%s.conj()" % p0 not in src:
        DT.bad(dotf, dotf.node, "_dot must conjugate its first argument (sum conj(r) z)")
    else:
        DT.ok(dotf.fq, "_dot(r, z) = sum conj(r) z: the first argument is the conjugated one")
    for f in model.module(SOLVE_IMPL).functions.values():
        if f.parent is not None:
            continue
        first, second = {}, {}
        for c in own_nodes(f.node):
            if isinstance(c, ast.Call) and isinstance(c.func, ast.Name) and c.func.id == "_dot" and len(c.args) == 2:
                a, b = c.args
                ta, tb = ast.unparse(a), ast.unparse(b)
                if ta == tb:
                    continue
                if isinstance(a, ast.Name):
                    first.setdefault(a.id, []).append(c)
                if isinstance(b, ast.Name):
                    second.setdefault(b.id, []).append(c)
        both = sorted(set(first) & set(second))
        if not (first or second):
            continue
        if not both:
            DT.ok(f.fq, "%s: conjugated side %s, plain side %s" % (f.name, sorted(first), sorted(second)))
        for nm in both:
            minority = second[nm] if len(second[nm]) <= len(first[nm]) else first[nm]
            DT.bad(f, enclosing_stmt(minority[0]), "`%s` is the conjugated (first) argument of _dot in %d call(s) and the plain (second) argument in %d: `%s` is the complex "
                   "conjugate of the scalar the recurrence needs (wrong step for complex systems)" % (nm, len(first[nm]), len(second[nm]), ast.unparse(minority[0])))


def krylov_loop_rules(model: Model, prop: str) -> List[RuleResult]:
    """The adjoint systems of every implicit backward (C02, C04, C06) are solved by cg / bicgstab (more than five unknowns, or a method given in
    bck_options): a silent non-converged or stale iterate there is a silently wrong gradient.  The warn-or-converged typestate and the stopping
    threshold of the Krylov loops are therefore part of those properties as well (rule ids LS-W / LS-W2 / LS-P / LS-T / LS-G)."""
    W = RuleResult(prop, "LS-W", "inner linear solve: every return through a Krylov loop has flag=True or a ConvergenceWarning", min_instances=4)
    W2 = RuleResult(prop, "LS-W2", "inner linear solve: no ConvergenceWarning on a path where the flag is True", min_instances=2)
    P = RuleResult(prop, "LS-P", "inner linear solve: the convergence flag is set only under a stopping test with a tolerance parameter and a loop-variant value", min_instances=2)
    T = RuleResult(prop, "LS-T", "inner linear solve: residual norm compared with max(rtol*|B2|_rows, atol)", min_instances=2)
    S = RuleResult(prop, "LS-S", "inner linear solve: Krylov protocol (transformed right-hand side, column swap undone)", min_instances=2)
    G = RuleResult(prop, "LS-G", "inner linear solve: divisor guards replace exact zeros only", min_instances=1)
    mod = model.module(SOLVE_IMPL)
    for name in ("bicgstab", "cg"):
        f = mod.functions.get(name)
        if f is None:
            raise AnchorError("%s vanished from %s" % (name, SOLVE_IMPL))
        check_warn_or_converged(f, W, W2, P)
    setup = model.func(SOLVE_IMPL, "_setup_linear_problem")
    for f in sorted(mod.functions.values(), key=lambda f: f.fq):
        if f.name not in ("cg", "bicgstab"):
            continue
        for c in own_nodes(f.node):
            if isinstance(c, ast.Call) and resolve_call(model, f, c) is setup:
                _check_threshold_and_protocol(model, f, c, T, S)
    _denominator_guards(model, G)
    return [W, W2, P, T, S, G]


# ------------------------------------------------------------------------------------------------ C01-G denominator guards
def _denominator_guards(model: Model, G: RuleResult):
    """The step lengths of the Krylov recurrences are quotients of inner products that are *quadratic* in the residual, so they become
    legitimately tiny (|r|^2) long before the stopping test is met.  A guard on a divisor may therefore replace *exact zeros only*: a guard
    that replaces every divisor below an absolute constant (`|d| < eps`, `clamp_min(eps)`, `maximum(d, eps)`) silently shortens the
    steps once |r|^2 < eps - the iteration stagnates on well-conditioned systems with a small right-hand side / tight tolerance.  Decided
    for every divisor of cg / bicgstab / gmres that goes through a helper (or an inline selection): the selecting comparison is `== 0`."""
    mod = model.module(SOLVE_IMPL)
    helpers: Dict[str, List[Tuple[FuncInfo, ast.AST]]] = {}
    inline: List[Tuple[FuncInfo, ast.AST]] = []
    CLAMPS = {"clamp", "clamp_min", "clip", "maximum", "fmax", "clamp_"}

    def guard_expr(f, e, defs, depth=0):
        """the expression a divisor comes from, through plain local names"""
        while isinstance(e, ast.Name) and depth < 4:
            ds = defs.get(e.id, [])
            if len(ds) != 1 or not isinstance(ds[0], ast.AST):
                return e
            e = ds[0]
            depth += 1
        return e

    for f in mod.functions.values():
        if f.parent is not None or not any(isinstance(n, (ast.For, ast.While)) for n in own_nodes(f.node)):
            continue
        defs = {}
        for n in own_nodes(f.node):
            if isinstance(n, ast.Assign) and len(n.targets) == 1 and isinstance(n.targets[0], ast.Name):
                defs.setdefault(n.targets[0].id, []).append(n.value)
        for n in own_nodes(f.node):
            if isinstance(n, ast.BinOp) and isinstance(n.op, ast.Div):
                d = guard_expr(f, n.right, defs)
                if isinstance(d, ast.Call):
                    r = model.resolve_expr(mod, d.func)
                    if r and r[0] == "func" and r[1].module is mod and r[1].name != "_dot":
                        helpers.setdefault(r[1].name, []).append((f, n))
                    elif ast.unparse(d.func) in ("torch.where",) or (isinstance(d.func, ast.Attribute) and d.func.attr in CLAMPS | {"masked_fill", "where"}):
                        inline.append((f, d))

    def classify(where_fi, node, params):
        """-> ('zero' | 'threshold' | 'none', detail)"""
        cmps = [c for c in ast.walk(node) if isinstance(c, ast.Compare)]
        clamps = [c for c in ast.walk(node) if isinstance(c, ast.Call) and ((isinstance(c.func, ast.Attribute) and c.func.attr in CLAMPS)
                                                                          or ast.unparse(c.func) in ("torch.clamp", "torch.clamp_min", "torch.maximum", "torch.clip", "max"))]
        if clamps:
            return "threshold", ast.unparse(clamps[0])[:80]
        if not cmps:
            return "none", ""
        for c in cmps:
            if len(c.ops) != 1:
                return "none", ast.unparse(c)
            a, b = c.left, c.comparators[0]
            zero = [x for x in (a, b) if isinstance(x, ast.Constant) and isinstance(x.value, (int, float)) and not isinstance(x.value, bool) and x.value == 0]
            if isinstance(c.ops[0], ast.Eq) and zero:
                continue
            if isinstance(c.ops[0], (ast.Lt, ast.LtE, ast.Gt, ast.GtE)):
                other = [x for x in (a, b)]
                # an absolute threshold: one side is a literal or a plain parameter / name that is not derived from the data
                absolute = any(isinstance(x, ast.Constant) or (isinstance(x, ast.Name) and x.id in params and x.id != params[0]) for x in other)
                if absolute:
                    return "threshold", ast.unparse(c)
            return "none", ast.unparse(c)
        return "zero", ast.unparse(cmps[0])

    n = 0
    for name, sites in sorted(helpers.items()):
        h = mod.functions[name]
        kind, detail = classify(h, h.node, h.params())
        users = sorted({f.name for f, _ in sites})
        if kind == "none" and not any(isinstance(x, (ast.Compare, ast.Subscript)) or (isinstance(x, ast.Call) and ast.unparse(x.func) in ("torch.where",)) for x in ast.walk(h.node)):
            continue                 # not a guard (an ordinary helper that happens to produce a divisor)
        n += 1
        if kind == "zero":
            G.ok(h.fq, "%s (divisors of %s, %d site(s)) replaces exact zeros only: `%s`" % (name, ", ".join(users), len(sites), detail))
        elif kind == "threshold":
            G.bad(h, h.node, "the divisor guard %s (used by %s) replaces every divisor below an absolute threshold (`%s`); the quotients of the recurrences are quadratic in "
                  "the residual and fall below any fixed constant before the stopping test is met, so the steps are silently shortened (stagnation for small right-hand "
                  "sides / tight tolerances); only exact zeros may be replaced" % (name, ", ".join(users), detail))
        else:
            G.undecided(h, h.node, "cannot interpret the divisor guard %s (selection `%s`)" % (name, detail))
    for f, d in inline:
        kind, detail = classify(f, d, f.params())
        n += 1
        if kind == "zero":
            G.ok(f.fq, "inline divisor guard replaces exact zeros only: `%s`" % detail)
        elif kind == "threshold":
            G.bad(f, enclosing_stmt(d), "the divisor is replaced below an absolute threshold (`%s`): only exact zeros may be replaced (the quotients are quadratic in the residual)" % detail)
        else:
            G.undecided(f, enclosing_stmt(d), "cannot interpret the inline divisor guard `%s`" % ast.unparse(d)[:80])
    if n == 0:
        G.note("no divisor of the Krylov recurrences goes through a guard")


# ------------------------------------------------------------------------------------------------
def _check_external_status(model: Model, reach, Wp: RuleResult):
    n = 0
    for f in reach:
        for s in own_nodes(f.node):
            if isinstance(s, ast.Assign) and isinstance(s.value, ast.Call) and isinstance(s.targets[0], ast.Tuple):
                r = model.resolve_expr(f.module, s.value.func)
                if r and r[0] == "external" and r[1].startswith("scipy.sparse.linalg") and r[1].endswith("gmres"):
                    n += 1
                    tgt = s.targets[0].elts
                    if len(tgt) != 2 or not isinstance(tgt[1], ast.Name):
                        Wp.bad(f, s, "status returned by the external solver is not bound to a name")
                        continue
                    info = tgt[1].id
                    ok = False
                    # an `if` in the same block after the call that tests `info` and warns
                    blk = _block_of(s)
                    idx = blk.index(s)
                    for t in blk[idx + 1:]:
                        if isinstance(t, ast.If) and isinstance(t.test, ast.Compare) and len(t.test.ops) == 1 \
                                and isinstance(t.test.left, ast.Name) and t.test.left.id == info \
                                and isinstance(t.test.comparators[0], ast.Constant) and t.test.comparators[0].value == 0 \
                                and isinstance(t.test.ops[0], (ast.Gt, ast.NotEq)) and any(is_warn_call(b) for b in t.body):
                            ok = True
                        if isinstance(t, (ast.Assign,)) and info in {x.id for x in ast.walk(t.targets[0]) if isinstance(x, ast.Name)}:
                            break
                    if ok:
                        Wp.ok(f.fq, "status `%s` of %s tested; failure branch issues ConvergenceWarning" % (info, r[1]))
                    else:
                        Wp.bad(f, s, "status `%s` returned by %s is not tested by a branch that issues a ConvergenceWarning" % (info, r[1]))
    if n == 0:
        raise AnchorError("no call of scipy.sparse.linalg.gmres reachable from the solve dispatch table")


def _block_of(stmt):
    from ..model import parent
    p = parent(stmt)
    for fld in ("body", "orelse", "finalbody"):
        b = getattr(p, fld, None)
        if isinstance(b, list) and any(x is stmt for x in b):
            return b
    raise AnalysisError("statement block not found")


def _tuple_target_names(assign: ast.Assign) -> Optional[List[Optional[str]]]:
    t = assign.targets[0]
    if isinstance(t, ast.Tuple):
        return [e.id if isinstance(e, ast.Name) else None for e in t.elts]
    return None


def _mult_factors(e: ast.AST) -> List[ast.AST]:
    if isinstance(e, ast.BinOp) and isinstance(e.op, ast.Mult):
        return _mult_factors(e.left) + _mult_factors(e.right)
    return [e]


def _is_ones_like(e: ast.AST) -> bool:
    return isinstance(e, ast.Call) and ast.unparse(e.func).split(".")[-1] in ("ones_like", "ones") or \
        (isinstance(e, ast.Constant) and e.value in (1, 1.0))


def _check_threshold_and_protocol(model: Model, f: FuncInfo, call: ast.Call, T: RuleResult, S: RuleResult):
    from ..model import enclosing_stmt
    st = enclosing_stmt(call)
    if not isinstance(st, ast.Assign) or _tuple_target_names(st) is None or len(_tuple_target_names(st)) != 4:
        S.bad(f, st, "result of _setup_linear_problem is not unpacked into (A_fcn, AT_fcn, B2, col_swapped)")
        return
    _, _, b2, swapped = _tuple_target_names(st)
    defs = function_defs(f.node)
    params = set(f.all_params())
    rtols = {p for p in params if p == "rtol" or p.endswith("_rtol")}
    atols = {p for p in params if p == "atol" or p.endswith("_atol")}
    # ---- T: find the comparison that sets the flag
    found = find_warn_flag(f.node)
    if found is None:
        T.note("%s: no flag-guarded warning; threshold provenance not evaluated (C01-W reports it)" % f.fq)
        return
    flag, _ = found
    comps = []
    for n in own_nodes(f.node):
        from ..flow import bool_const_assign
        if bool_const_assign(n, flag) is True:
            for i, inbody in enclosing_ifs(n, f.node):
                if inbody:
                    for c in ast.walk(i.test):
                        if isinstance(c, ast.Compare) and len(c.ops) == 1 and isinstance(c.ops[0], (ast.Lt, ast.LtE)):
                            comps.append((i, c))
    if not comps:
        T.bad(f, st, "no `<residual norm> < <threshold>` comparison guards the convergence flag `%s`" % flag)
    for i, c in comps:
        thr = c.comparators[0]
        lhs = c.left
        ok, why = _threshold_ok(f, thr, lhs, b2, defs, rtols, atols)
        what = "`%s` with threshold %s" % (norm_stmt(c, 80), why)
        if ok:
            T.ok(f.fq, what)
        else:
            T.bad(f, i, "stopping threshold is not max(rtol*|B2|, atol): %s" % why, what=what)
    # ---- S(i): the B norm is taken from the transformed right-hand side (covered by T) ; S(ii) col_swapped consumed
    if swapped is None:
        S.bad(f, st, "col_swapped flag returned by _setup_linear_problem is discarded")
        return
    cfg = CFG(f.node)
    dom = cfg.dominators()
    start_nodes = cfg.nodes_of(st)
    if not start_nodes:
        raise AnalysisError("setup call not in CFG")
    after = cfg.reachable(start_nodes[0], skip_exc=True)
    nret = 0
    for node in cfg.nodes:
        if node.kind != "return" or node.id not in after or node.stmt.value is None:
            continue
        nret += 1
        retnames = names_loaded(node.stmt.value)
        undone = False
        for d in dom.get(node.id, ()):  # dominating tests
            dn = cfg.nodes[d]
            if dn.kind == "test" and isinstance(dn.stmt, ast.If):
                r = test_on_name(dn.stmt.test)
                if r and r[0] == swapped and r[1] is True:
                    assigned = set()
                    undo_expr = False
                    for b in dn.stmt.body:
                        if isinstance(b, ast.Assign):
                            for t in b.targets:
                                if isinstance(t, ast.Name):
                                    assigned.add(t.id)
                            src = ast.unparse(b.value)
                            if ("transpose" in src or "movedim" in src or "permute" in src or "swapaxes" in src):
                                undo_expr = True
                    if (assigned & retnames) and undo_expr:
                        undone = True
        # the same decision written as guard clauses / a conditional expression: a return that is only reached when the flag is False has
        # nothing to undo; one reached only when it is True must return the un-swapped expression itself
        from ..model import effective_conditions
        UNDO = ("transpose", "movedim", "permute", "swapaxes")
        conds = dict(effective_conditions(node.stmt))
        if conds.get(swapped) is False:
            undone = True
        elif conds.get(swapped) is True and any(u in ast.unparse(node.stmt.value) for u in UNDO):
            undone = True
        elif isinstance(node.stmt.value, ast.IfExp):
            r_ = test_on_name(node.stmt.value.test)
            if r_ and r_[0] == swapped:
                arm = node.stmt.value.body if r_[1] is True else node.stmt.value.orelse
                undone = undone or any(u in ast.unparse(arm) for u in UNDO)
        what = "return %s after _setup_linear_problem: column swap undone under `if %s`" % (ast.unparse(node.stmt.value), swapped)
        if undone:
            S.ok(f.fq, what)
        else:
            S.bad(f, node.stmt, "the per-column layout (col_swapped=`%s`) produced by _setup_linear_problem is not undone "
                  "before this return" % swapped, what=what)
    if nret == 0:
        raise AnalysisError("%s: no return after the set-up call" % f.fq)
    # the initial guess must use the swapped layout too
    uses = [n for n in own_nodes(f.node) if isinstance(n, ast.IfExp) and test_on_name(n.test) == (swapped, True)]
    if uses:
        S.ok(f.fq, "initial guess shape selected by `%s`" % swapped)
    else:
        S.bad(f, st, "initial guess does not select the per-column layout by `%s`" % swapped)


def _resolve_name_expr(e: ast.AST, defs, depth=0) -> ast.AST:
    while isinstance(e, ast.Name) and e.id in defs and len(defs[e.id]) == 1 and depth < 6:
        e = defs[e.id][0]
        depth += 1
    return e


def _is_row_norm_of(e: ast.AST, b2: str, defs) -> bool:
    e = _resolve_name_expr(e, defs)
    if isinstance(e, ast.Call):
        dimok = any(k.arg == "dim" and isinstance(k.value, ast.UnaryOp) and isinstance(k.value.op, ast.USub)
                    and isinstance(k.value.operand, ast.Constant) and k.value.operand.value == 2 for k in e.keywords)
        if isinstance(e.func, ast.Attribute) and e.func.attr == "norm" and isinstance(e.func.value, ast.Name) and e.func.value.id == b2:
            return dimok
        if ast.unparse(e.func).endswith("linalg.norm") and e.args and isinstance(e.args[0], ast.Name) and e.args[0].id == b2:
            return dimok
    return False


def _threshold_ok(f, thr, lhs, b2, defs, rtols, atols):
    thr = _resolve_name_expr(thr, defs)
    # clamp(x, min=a) / x.clamp(min=a) / clamp_min(x, a) with no upper bound is the element-wise max(x, a)
    if isinstance(thr, ast.Call) and ast.unparse(thr.func).split(".")[-1] in ("clamp", "clip", "clamp_min"):
        last = ast.unparse(thr.func).split(".")[-1]
        is_fn = isinstance(thr.func, ast.Attribute) and isinstance(thr.func.value, ast.Name) and thr.func.value.id == "torch"
        ops_ = list(thr.args) if is_fn else [thr.func.value] + list(thr.args)
        kw_ = {k.arg: k.value for k in thr.keywords}
        lo_ = kw_.get("min", ops_[1] if len(ops_) > 1 else None)
        hi_ = kw_.get("max", ops_[2] if len(ops_) > 2 and last != "clamp_min" else None)
        if ops_ and lo_ is not None and (hi_ is None or (isinstance(hi_, ast.Constant) and hi_.value is None)):
            thr = ast.Call(func=ast.Attribute(value=ast.Name(id="torch", ctx=ast.Load()), attr="max", ctx=ast.Load()), args=[ops_[0], lo_], keywords=[])
    if not (isinstance(thr, ast.Call) and ast.unparse(thr.func).split(".")[-1] in ("max", "maximum") and len(thr.args) == 2):
        return False, "threshold `%s` is not a two-argument max" % norm_stmt(thr, 60)
    got_r = got_a = False
    for a in thr.args:
        facs = [_resolve_name_expr(x, defs) if not isinstance(x, ast.Name) or x.id not in (rtols | atols) else x for x in _mult_factors(a)]
        names = {x.id for x in facs if isinstance(x, ast.Name)}
        raw = _mult_factors(a)
        has_norm = any(_is_row_norm_of(x, b2, defs) for x in raw)
        others = [x for x in raw if not (isinstance(x, ast.Name) and x.id in (rtols | atols)) and not _is_row_norm_of(x, b2, defs)]
        if names & rtols and has_norm and not others:
            got_r = True
        elif names & atols and not has_norm and all(_is_ones_like(_resolve_name_expr(x, defs)) for x in others):
            got_a = True
    if got_r and got_a:
        return True, "max(rtol*|%s|_rows, atol)" % b2
    return False, "arguments of max are `%s`" % ", ".join(norm_stmt(a, 50) for a in thr.args)


# ------------------------------------------------------------------------------------------------
def _check_batchdims(model: Model, B: RuleResult):
    f = model.func(SOLVE_IMPL, "_get_batchdims")
    ps = f.params()
    if len(ps) != 4:
        raise AnalysisError("_get_batchdims no longer takes (A, B, E, M)")
    pA, pB, pE, pM = ps
    got = set()
    listname = None

    def slice_entry(e) -> Optional[Tuple[str, int]]:
        # <p>.shape[:-k]
        if isinstance(e, ast.Subscript) and isinstance(e.value, ast.Attribute) and e.value.attr == "shape" \
                and isinstance(e.value.value, ast.Name) and isinstance(e.slice, ast.Slice) and e.slice.lower is None \
                and isinstance(e.slice.upper, ast.UnaryOp) and isinstance(e.slice.upper.op, ast.USub) \
                and isinstance(e.slice.upper.operand, ast.Constant):
            return (e.value.value.id, -e.slice.upper.operand.value)
        return None

    def guards(node) -> frozenset:
        g = set()
        from ..model import cond_atoms
        for i, inbody in enclosing_ifs(node, f.node):
            # `if E is not None and M is not None` guards with both; the atoms are read with their polarity
            for text, pol in cond_atoms([(ast.unparse(i.test), inbody)]):
                t = ast.parse(text, mode="eval").body
                if isinstance(t, ast.Compare) and isinstance(t.left, ast.Name) and isinstance(t.ops[0], ast.Is) \
                        and isinstance(t.comparators[0], ast.Constant) and t.comparators[0].value is None and not pol:
                    g.add(t.left.id)
                else:
                    g.add("?" + ("" if pol else "not ") + text[:40])
        return frozenset(g)

    for n in own_nodes(f.node):
        if isinstance(n, ast.Assign) and isinstance(n.value, ast.List) and isinstance(n.targets[0], ast.Name):
            ents = [slice_entry(e) for e in n.value.elts]
            if all(ents) and ents:
                listname = n.targets[0].id
                for e in ents:
                    got.add((e[0], e[1], guards(n)))
        if isinstance(n, ast.Call) and isinstance(n.func, ast.Attribute) and n.func.attr == "append" \
                and isinstance(n.func.value, ast.Name) and n.args:
            e = slice_entry(n.args[0])
            if e:
                got.add((e[0], e[1], guards(n)))
    want = {(pA, -2, frozenset()), (pB, -2, frozenset()), (pE, -1, frozenset([pE])), (pM, -2, frozenset([pE, pM]))}
    for w in sorted(want, key=str):
        what = "%s.shape[:%d] under guards %s" % (w[0], w[1], sorted(w[2]))
        if w in got:
            B.ok(f.fq, what)
        else:
            B.bad(f, f.node, "batch prefix %s is not broadcast (found: %s)" % (what, sorted((a, b, sorted(c)) for a, b, c in got)), what=what)
    for g in got - want:
        B.bad(f, f.node, "unexpected batch prefix entry %s.shape[:%d] under %s" % (g[0], g[1], sorted(g[2])))
    # the broadcast itself
    rets = [n for n in own_nodes(f.node) if isinstance(n, ast.Return)]
    okret = any(isinstance(r.value, ast.Call) and ast.unparse(r.value.func).endswith("get_bcasted_dims") and
                any(isinstance(a, ast.Starred) and isinstance(a.value, ast.Name) and a.value.id == listname for a in r.value.args)
                for r in rets)
    if not okret:
        B.bad(f, rets[0] if rets else f.node, "result is not get_bcasted_dims(*<collected prefixes>)")


def _check_zero_alloc(model: Model, Z: RuleResult):
    gb = model.func(SOLVE_IMPL, "_get_batchdims")
    sites = []
    for f in model.all_functions():
        if f.module.relpath not in (SOLVE_IMPL, SOLVE_PUB):
            continue
        for c in own_nodes(f.node):
            if isinstance(c, ast.Call) and resolve_call(model, f, c) is gb:
                sites.append((f, c))
    for f, c in sorted(sites, key=lambda x: x[0].fq):
        # (1) same four arguments, in order, being the caller's own A,B,E,M parameters
        want = ["A", "B", "E", "M"]
        args = [a.id if isinstance(a, ast.Name) else None for a in c.args]
        cparams = set(f.all_params()) | (set(f.parent.all_params()) if f.parent else set())
        if args != want or c.keywords or not set(want) <= cparams:
            Z.bad(f, c, "_get_batchdims must be called with the caller's (A, B, E, M) in this order")
            continue
        # (2) allocations using the result
        from ..model import enclosing_stmt
        st = enclosing_stmt(c)
        bname = None
        if isinstance(st, ast.Assign) and st.value is c and isinstance(st.targets[0], ast.Name):
            bname = st.targets[0].id
        defs = function_defs(f.node)
        nalloc = 0
        for n in own_nodes(f.node):
            if isinstance(n, ast.Tuple) and any(isinstance(e, ast.Starred) and ((isinstance(e.value, ast.Name) and e.value.id == bname) or e.value is c) for e in n.elts):
                from ..model import parent
                # only shapes that are used for zeros / initial guesses
                kind = _shape_form(n, bname, c, defs)
                usage = _shape_usage(n, f.node, defs)
                if usage is None:
                    continue
                nalloc += 1
                what = "%s allocation shape `%s` classified %s" % (usage, norm_stmt(n, 70), kind)
                if kind in ("(*batch, nr, ncols)", "(*batch, nr*ncols)", "(ncols, *batch, nr, 1)"):
                    Z.ok(f.fq, what)
                else:
                    Z.bad(f, enclosing_stmt(n), "shape of a zero / initial-guess allocation is not (*_get_batchdims(A,B,E,M), nr, ncols): %s" % kind, what=what)
        if nalloc == 0:
            Z.bad(f, st, "the broadcast batch shape is computed but no zero / initial-guess allocation uses it")


def _zero_rhs_shortcut(model: Model, Z: RuleResult):
    """The all-zero right-hand-side shortcut of solve_torchfcn.forward allocates the solution itself: its batch shape must be the broadcast
    of ALL FOUR operands (_get_batchdims(A, B, E, M)) - a shape built from A and B alone drops the batch axes that only E or M carry,
    and the zero case then returns another shape than every other right-hand side."""
    fw = model.func(SOLVE_PUB, "solve_torchfcn.forward")
    gb = model.func(SOLVE_IMPL, "_get_batchdims")
    defs = function_defs(fw.node)
    from ..model import effective_conditions
    from ..flow import def_use_closure, names_loaded
    found = 0
    for c in own_nodes(fw.node):
        if not (isinstance(c, ast.Call) and ast.unparse(c.func) in ("torch.zeros", "torch.zeros_like", "B.new_zeros") or
                (isinstance(c, ast.Call) and isinstance(c.func, ast.Attribute) and c.func.attr == "new_zeros")):
            continue
        conds = effective_conditions(c)
        if not any("== 0" in t and pol for t, pol in conds):
            continue
        found += 1
        _zero_test_exact(fw, c, defs, Z)
        shape_args = list(c.args[:1]) if ast.unparse(c.func) != "torch.zeros" else list(c.args)
        names = set()
        for a in shape_args:
            names |= names_loaded(a)
        closure_nodes = [a for a in shape_args]
        seen = set()
        work = list(names)
        while work:
            nm = work.pop()
            if nm in seen:
                continue
            seen.add(nm)
            for d in defs.get(nm, []):
                if isinstance(d, ast.AST):
                    closure_nodes.append(d)
                    work.extend(names_loaded(d))
        calls = [x for n_ in closure_nodes for x in ast.walk(n_) if isinstance(x, ast.Call) and resolve_call(model, fw, x) is gb]
        ok = any([ast.unparse(a) for a in x.args] == ["A", "B", "E", "M"] for x in calls)
        if ok:
            Z.ok(fw.fq, "zero right-hand side: the solution is allocated with the batch shape _get_batchdims(A, B, E, M)")
        else:
            Z.bad(fw, enclosing_stmt(c), "the all-zero solution of the zero right-hand-side shortcut must have the batch shape _get_batchdims(A, B, E, M): a shape from "
                  "fewer operands drops batch axes that only E or M carry")
    if found == 0:
        Z.note("solve_torchfcn.forward has no zero right-hand-side shortcut")


def _zero_test_exact(fw: FuncInfo, alloc: ast.AST, defs, Z: RuleResult):
    """X = 0 is returned without calling the method only if B is *exactly* zero.  The test must therefore be element-wise (`all(B == 0)`,
    `not B.any()`, `count_nonzero(B) == 0`); a reduction that squares the entries (norm, dot, pow) underflows for |B| below ~1e-162
    (float64) / ~1e-23 (float32): a tiny but non-zero right-hand side then takes the shortcut, the method (also a caller's callable) is never
    called and the solution and every gradient through it are zero although the direct path returns A^-1 B."""
    from ..model import parent as _parent
    node = alloc
    test = None
    while node is not None:
        par = _parent(node)
        if isinstance(par, ast.If) and any(node is x for x in par.body + par.orelse):
            if "== 0" in ast.unparse(par.test) or "any" in ast.unparse(par.test) or "count_nonzero" in ast.unparse(par.test):
                test = par.test
                break
        node = par
    if test is None:
        return

    def expand(e, depth=0):
        if isinstance(e, ast.Name) and depth < 4:
            ds = [d for d in defs.get(e.id, []) if isinstance(d, ast.AST)]
            if len(ds) == 1:
                return expand(ds[0], depth + 1)
        return e
    parts = [expand(n) for n in ast.walk(test) if isinstance(n, ast.Name)] + [test]
    txt = " ".join(ast.unparse(p_) for p_ in parts)
    squaring = [k for k in ("norm(", ".norm", "vector_norm", "dot(", "vdot(", "pow(", "square(", "** 2", "**2", "matmul(", "einsum(", "var(", "std(") if k in txt]
    if squaring:
        Z.bad(fw, test, "the zero right-hand-side shortcut is selected by a reduction that squares the entries (`%s`): it underflows to 0 for a tiny non-zero "
              "right-hand side, which then gets X = 0 (and zero gradients) without the method being called; the test must be element-wise (all(B == 0))"
              % ast.unparse(test)[:80])
        return
    elementwise = any(isinstance(c, ast.Compare) and len(c.ops) == 1 and isinstance(c.ops[0], (ast.Eq, ast.NotEq)) and
                      any(isinstance(x, ast.Constant) and x.value == 0 for x in (c.left, c.comparators[0])) and
                      any(isinstance(expand(x), (ast.Name, ast.Attribute)) for x in (c.left, c.comparators[0])) for p_ in parts for c in ast.walk(p_)) \
        or ".any()" in txt or "torch.any(" in txt or "count_nonzero" in txt
    if elementwise:
        Z.ok(fw.fq, "the zero right-hand-side shortcut is selected by an exact element-wise test: `%s`" % ast.unparse(test)[:60])
    else:
        Z.undecided(fw, test, "cannot interpret the test of the zero right-hand-side shortcut `%s`" % ast.unparse(test)[:80])


def _dim_role(e: ast.AST, defs, depth=0) -> str:
    """classify an expression as 'nr', 'ncols', 'nr*ncols', '1' or '?'"""
    if isinstance(e, ast.Constant) and e.value == 1:
        return "1"
    if isinstance(e, ast.BinOp) and isinstance(e.op, ast.Mult):
        a, b = _dim_role(e.left, defs), _dim_role(e.right, defs)
        if {a, b} == {"nr", "ncols"}:
            return "nr*ncols"
        return "?"
    if isinstance(e, ast.Subscript) and isinstance(e.value, ast.Attribute) and e.value.attr == "shape" and isinstance(e.value.value, ast.Name):
        who = e.value.value.id
        idx = e.slice
        if isinstance(idx, ast.UnaryOp) and isinstance(idx.op, ast.USub) and isinstance(idx.operand, ast.Constant):
            k = -idx.operand.value
            if who == "A" and k in (-1, -2):
                return "nr"
            if who == "B" and k == -2:
                return "nr"
            if who == "B" and k == -1:
                return "ncols"
        return "?"
    if isinstance(e, ast.Name) and depth < 4:
        ds = defs.get(e.id, [])
        roles = set()
        for d in ds:
            roles.add(_dim_role(d, defs, depth + 1))
        if len(roles) == 1:
            return roles.pop()
        # several definitions: the one that reaches this use in straight-line order (the closest one above it)
        before = [d for d in ds if getattr(d, "lineno", 0) and getattr(e, "lineno", 0) and d.lineno < e.lineno]
        if before:
            return _dim_role(max(before, key=lambda d: d.lineno), defs, depth + 1)
        # tuple unpacking  nr, ncols = B.shape[-2:]  /  nr, ncols = A.shape[-1], B.shape[-1]
        return "?"
    return "?"


def _tuple_unpack_roles(fn: ast.AST) -> Dict[str, str]:
    roles = {}
    for n in own_nodes(fn):
        if isinstance(n, ast.Assign) and isinstance(n.targets[0], ast.Tuple) and len(n.targets[0].elts) == 2 \
                and all(isinstance(t, ast.Name) for t in n.targets[0].elts):
            a, b = [t.id for t in n.targets[0].elts]
            v = n.value
            if isinstance(v, ast.Subscript) and ast.unparse(v) == "B.shape[-2:]":
                roles[a], roles[b] = "nr", "ncols"
            elif isinstance(v, ast.Tuple) and len(v.elts) == 2:
                ra, rb = _dim_role(v.elts[0], {}), _dim_role(v.elts[1], {})
                roles[a], roles[b] = ra, rb
    return roles


def _shape_form(t: ast.Tuple, bname, call, defs) -> str:
    from ..model import enclosing_function
    fn = enclosing_function(t)
    unpack = _tuple_unpack_roles(fn) if fn is not None else {}

    def role(e):
        if isinstance(e, ast.Name) and e.id in unpack:
            return unpack[e.id]
        if isinstance(e, ast.Starred):
            if (isinstance(e.value, ast.Name) and e.value.id == bname) or e.value is call:
                return "*batch"
            if ast.unparse(e.value) == "B.shape[-2:]":
                return "nr,ncols"
            return "*?"
        return _dim_role(e, defs)
    roles = [role(e) for e in t.elts]
    if roles == ["*batch", "nr", "ncols"] or roles == ["*batch", "nr,ncols"]:
        return "(*batch, nr, ncols)"
    if roles == ["*batch", "nr*ncols"]:
        return "(*batch, nr*ncols)"
    if roles == ["ncols", "*batch", "nr", "1"]:
        return "(ncols, *batch, nr, 1)"
    return "(" + ", ".join(roles) + ")"


def _returned_copy_closure(fn) -> set:
    """names whose value reaches a `return` through copy assignments only"""
    R = set()

    def ret_names(e):
        # the tensor a return hands back: a name, either arm of a conditional expression, the receiver of a chain of layout methods
        if isinstance(e, ast.Name):
            return {e.id}
        if isinstance(e, ast.IfExp):
            return ret_names(e.body) | ret_names(e.orelse)
        if isinstance(e, ast.Call) and isinstance(e.func, ast.Attribute) and e.func.attr in ("transpose", "squeeze", "unsqueeze", "reshape", "view", "movedim", "permute", "swapaxes", "contiguous"):
            return ret_names(e.func.value)
        return set()
    for n in own_nodes(fn):
        if isinstance(n, ast.Return) and n.value is not None:
            R |= ret_names(n.value)
    changed = True
    while changed:
        changed = False
        for n in own_nodes(fn):
            if isinstance(n, ast.Assign) and len(n.targets) == 1 and isinstance(n.targets[0], ast.Name) \
                    and n.targets[0].id in R and isinstance(n.value, ast.Name) and n.value.id not in R:
                R.add(n.value.id)
                changed = True
    return R


def _initial_guess_args(fn) -> set:
    """names passed as second positional argument to a call whose result is the solution (x = solver(f, x0, ..))"""
    out = set()
    for n in own_nodes(fn):
        if isinstance(n, ast.Call) and len(n.args) >= 2 and isinstance(n.args[1], ast.Name) and isinstance(n.func, ast.Name):
            out.add(n.args[1].id)
    return out


def _shape_usage(t: ast.Tuple, fn, defs) -> Optional[str]:
    """is this shape tuple the size of a torch.zeros whose result is solution-shaped (reaches a return
    through copies, or is handed to a solver as the initial guess)?"""
    from ..model import parent
    R = _returned_copy_closure(fn) | _initial_guess_args(fn)

    def zeros_target(call) -> Optional[str]:
        st = parent(call)
        if isinstance(st, ast.Assign) and isinstance(st.targets[0], ast.Name):
            return st.targets[0].id
        return None
    p = parent(t)
    hops = 0
    while p is not None and hops < 4:
        if isinstance(p, ast.Call) and ast.unparse(p.func).split(".")[-1] in ("zeros", "new_zeros"):
            tg = zeros_target(p)
            return "zeros->%s" % tg if tg in R else None
        if isinstance(p, ast.IfExp):
            p = parent(p)
            hops += 1
            continue
        if isinstance(p, ast.Assign) and isinstance(p.targets[0], ast.Name):
            nm = p.targets[0].id
            for c in own_nodes(fn):
                if isinstance(c, ast.Call) and ast.unparse(c.func).split(".")[-1] in ("zeros", "new_zeros") and c.args \
                        and isinstance(c.args[0], ast.Name) and c.args[0].id == nm:
                    tg = zeros_target(c)
                    if tg in R:
                        return "zeros(%s)->%s" % (nm, tg)
            return None
        break
    return None
