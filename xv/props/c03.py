"""C03 -- rootfinder / equilibrium / minimize return the point that met the stopping test (structural part)."""
from __future__ import annotations
import ast
from typing import List, Dict
from ..model import Model, FuncInfo, own_nodes, norm_stmt, AnalysisError, AnchorError, enclosing_stmt
from ..report import RuleResult
from ..flow import VN, names_loaded, function_defs, test_on_name
from ..callgraph import resolve_call, reachable_functions
from ..rules.solverloop import (check_warn_or_converged, check_returned_is_checked, check_zero_shortcut,
                                user_function_names)
from ..rules.dispatch import dispatch_tables_in
from ..flow import local_identity_functions, find_warn_flag

PROP = "C03"
LEVEL = "other"
EXPLANATION = (
    "Static analysis of the solver loops reachable from the dispatch tables of _RootFinder.forward "
    "(_nonlin_solver behind newton/broyden1/broyden2/linearmixing, anderson_acc, gd, adam). Decided: (W/W2/P) silence "
    "implies the termination test succeeded (typestate over the CFG, flag identified by role); (RC) on every converged "
    "exit path the returned expression is a reshaping of the very iterate passed to the termination test (path-wise "
    "value numbering); (RZ) the zero-residual shortcut returns the point at which the zero residual was measured; "
    "(RB) gd/adam hand to the termination object the point at which f was evaluated, the best point is only replaced "
    "under fval < best and is what is returned after the non-convergence warning; (SH) every solver returns a value "
    "reshaped to the initial guess's shape. (TN) the norms bounded by the tolerances are all-element 2-norms of step, iterate and function value; (TG) no cached value is reused on an approximate comparison; NOT decided: that contractive problems converge, agreement between methods.")
ASSUMPTIONS = [
    "TerminationCondition.check compares norms of its arguments with the tolerances (its body is checked only for "
    "using all four tolerances conjunctively)",
    "user function is the solver's first parameter; local closures calling it are user-function evaluations",
]

ROOTFINDER = "xitorch/optimize/rootfinder.py"
ROOTSOLVER = "xitorch/_impls/optimize/root/rootsolver.py"
EQUIL = "xitorch/_impls/optimize/equilibrium.py"
MINIMIZER = "xitorch/_impls/optimize/minimizer.py"


def _targets(model: Model):
    fwd = model.func(ROOTFINDER, "_RootFinder.forward")
    tables = dispatch_tables_in(model, fwd)
    ents: Dict[str, FuncInfo] = {}
    for t in tables:
        for k, v in t.entries:
            r = model.resolve_expr(fwd.module, v)
            if r and r[0] == "func":
                ents["%s/%s" % (t.label, k)] = r[1]
    if len(ents) < 7:
        raise AnchorError("expected >= 7 built-in optimisation methods behind _RootFinder.forward, found %d" % len(ents))
    return ents


def rules(model: Model, tier: str) -> List[RuleResult]:
    W = RuleResult(PROP, "C03-W", "warn-or-converged typestate on the root/equilibrium solver loops", min_instances=4)
    W2 = RuleResult(PROP, "C03-W2", "no ConvergenceWarning on a converged path", min_instances=2)
    P = RuleResult(PROP, "C03-P", "convergence flag set only under the termination test (tolerances + loop-variant iterate)", min_instances=2)
    RC = RuleResult(PROP, "C03-RC", "returned-is-checked: converged exits return the iterate passed to terminator.check", min_instances=2)
    RZ = RuleResult(PROP, "C03-RZ", "zero-residual shortcut returns the point where the residual was measured", min_instances=2)
    RB = RuleResult(PROP, "C03-RB", "gd/adam best-point bookkeeping (point passed with f is the point f was evaluated at)", min_instances=6)
    SH = RuleResult(PROP, "C03-SH", "result is reshaped to the initial guess's shape (identity wrappers only)", min_instances=2)
    TC = RuleResult(PROP, "C03-TC", "TerminationCondition.check requires all four tolerance tests conjunctively", min_instances=4)

    ents = _targets(model)
    reach = reachable_functions(model, list(ents.values()), depth=4)
    frozen = (ROOTSOLVER + "::_nonlin_solver", EQUIL + "::anderson_acc")
    loops = [f for f in reach if (find_warn_flag(f.node) is not None or f.fq in frozen) and
             any(isinstance(n, (ast.For, ast.While)) for n in own_nodes(f.node)) and
             f.module.relpath in (ROOTSOLVER, EQUIL)]
    fqs = sorted(f.fq for f in loops)
    for need in frozen:
        if need not in fqs:
            raise AnchorError("%s not reachable from the _RootFinder dispatch tables" % need)
    for f in sorted(loops, key=lambda f: f.fq):
        flag = check_warn_or_converged(f, W, W2, P)
        if flag is None:
            continue
        check_returned_is_checked(f, RC, flag)
        if not check_zero_shortcut(f, RZ):
            RZ.note("%s has no zero-residual shortcut" % f.fq)
        _check_shape(f, SH)
    TN = RuleResult(PROP, "C03-TN", "the quantities bounded by the tolerances are all-element 2-norms of the step, the iterate and the function value (shape independent)", min_instances=3)
    _termination_norms(model, TN)
    try:
        _check_termination_condition(model, TC)
    except AnalysisError as _e:
        if not TN.findings:
            raise
        # the norms the test bounds are already shown to be wrong; the truth table of a predicate it cannot read adds no verdict
        TC.min_instances = 0
        TC.undecided("xitorch/_impls/optimize/root/rootsolver.py::TerminationCondition.check", "TerminationCondition.check", str(_e))
    _check_best_point(model, ents, RB)
    from ..rules import autograd as _ac
    _R11 = RuleResult(PROP, "AC11", "every exit of the public functional returns the Function's output; forward's solution comes only from the dispatched implementation; operands unchanged", min_instances=2)
    for _cn in ['_RootFinder']:
        _fc = _ac.get_fncls(model, _cn)
        _ac.ac11_wrapper_returns(model, _fc, _R11)
        _ac.ac11_forward_provenance(model, _fc, _R11)
    # table / kind agreement: a dispatch table offers only algorithms of its own kind.  The three families solve different problems
    # (f(y) = 0, f(y) = y, min f): a fixed-point iteration offered as a root finder returns - silently, its own stopping test met -
    # a point where f(y) = y instead of f(y) = 0.
    KT = RuleResult(PROP, "C03-K", "table / kind agreement: every entry of a method table is an algorithm of the table's own family", min_instances=7)
    kind_of_module = {ROOTSOLVER: "rootfinder", EQUIL: "equilibrium", "xitorch/_impls/optimize/minimizer.py": "minimizer"}
    for key, fi_ in sorted(ents.items()):
        label, name = key.split("/", 1)
        k_ = kind_of_module.get(fi_.module.relpath)
        if not label:
            continue
        if k_ == label:
            KT.ok(ROOTFINDER, "%s method %r is %s (%s)" % (label, name, fi_.fq, k_))
        elif k_ is None:
            KT.undecided(fi_, fi_.node, "cannot identify the family of %s (offered as %s method %r): its module is not in the table of solver modules" % (fi_.fq, label, name))
        else:
            KT.bad(ROOTFINDER + "::_METHODS", fwd_table_node(model, name) or model.func(ROOTFINDER, "_RootFinder.forward").node,
                   "the %s table offers %r = %s, which is %s algorithm: it meets its own stopping test at a point that does not solve the %s problem"
                   % (label, name, fi_.fq, ("a " + k_) if k_ else "not a known", label), file=ROOTFINDER)
    # the family (rootfinder / equilibrium / minimizer) an algorithm is run in is chosen by comparing the method name before get_method sees
    # it: those comparisons must be case-insensitive like the dispatch itself, or "Anderson_Acc" is iterated on y - f(y) (shared with C18-C)
    from .c18 import _case
    CS = RuleResult(PROP, "C03-C", "pre-dispatch comparisons of `method` are case-insensitive (the family an algorithm runs in does not depend on the spelling)", min_instances=4)
    _case(model, CS)
    # roles of the arguments of the termination test: check(x, y, dx) tests y against the f-tolerances and dx against the x-tolerances
    CK = RuleResult(PROP, "C03-A", "terminator.check(x, y, dx): y involves the function value at x, dx (the step) does not", min_instances=2)
    for f in sorted(loops, key=lambda f: f.fq):
        _check_argument_roles(f, CK)
    return [W, W2, P, RC, RZ, RB, SH, TC, TN, KT, CS, CK, _R11]


def _check_argument_roles(f: FuncInfo, CK: RuleResult):
    """`check(x, y, dx)` compares |y| with f_tol / f_rtol and |dx| with x_tol / x_rtol.  y must therefore be (built from) the value of
    the user's function at the very iterate x that is tested, and dx the last step, which is not: with the two swapped the caller's
    f_tol is applied to the step, and a slowly moving iteration is declared converged while |f| is still above the tolerance."""
    from ..rules.solverloop import find_check_call
    chk = find_check_call(f)
    if chk is None or len(chk.value.args) < 3:
        CK.undecided(f, f.node, "cannot find the call <terminator>.check(x, y, dx) of %s" % f.qualname)
        return
    x, y, dx = chk.value.args[:3]
    if not isinstance(x, ast.Name):
        CK.undecided(f, chk, "cannot identify the iterate handed to check (%s)" % ast.unparse(x))
        return
    # definitions that textually follow the test inside its loop carry values of the *previous* iteration (y = ynew, xn = xnew): they are
    # functions of the previous iterate, not of the one under test
    loop = next((l for l in own_nodes(f.node) if isinstance(l, (ast.While, ast.For)) and any(n is chk for n in ast.walk(l))), None)
    later = set()
    if loop is not None:
        seen_chk = False
        order = []

        def visit(body):
            for st in body:
                order.append(st)
                for fld in ("body", "orelse", "finalbody"):
                    sub = getattr(st, fld, None)
                    if isinstance(sub, list) and not isinstance(st, (ast.FunctionDef, ast.Lambda)):
                        visit(sub)
                for h in getattr(st, "handlers", []) or []:
                    visit(h.body)
        visit(loop.body)
        for st in order:
            if seen_chk:
                later.update(id(n) for n in ast.walk(st))
            if any(n is chk for n in ast.walk(st)) and not any(n is chk for sub in ("body", "orelse") for b in (getattr(st, sub, None) or []) if isinstance(b, ast.AST) for n in ast.walk(b)):
                seen_chk = True
    defs = {k: [v for v in vs if id(v) not in later] for k, vs in function_defs(f.node).items()}

    def f_at_x(e, depth=0, seen=None) -> Optional[bool]:
        """does the expression involve a call that takes the iterate `x` as an argument (the function value at x)?  None: cannot tell"""
        seen = seen if seen is not None else set()
        unknown = False
        for n in ast.walk(e):
            if isinstance(n, ast.Call) and any(isinstance(a, ast.Name) and a.id == x.id for a in n.args) and not (isinstance(n.func, ast.Attribute) and n.func.attr in ("norm", "reshape", "clone", "detach")):
                return True
        for n in ast.walk(e):
            if isinstance(n, ast.Name) and n.id != x.id and n.id not in seen and depth < 4:
                seen.add(n.id)
                for d in defs.get(n.id, []):
                    if isinstance(d, ast.AST) and not isinstance(d, (ast.FunctionDef, ast.Lambda)):
                        r = f_at_x(d, depth + 1, seen)
                        if r:
                            return True
                        if r is None:
                            unknown = True
                    elif not isinstance(d, ast.AST):
                        unknown = True
        return None if unknown else False
    ry, rdx = f_at_x(y), f_at_x(dx)
    what = "%s: check(%s, %s, %s)" % (f.qualname, x.id, ast.unparse(y)[:40], ast.unparse(dx)[:40])
    if rdx is True or ry is False:
        CK.bad(f, chk, "the termination test receives its arguments in the wrong roles: check(x, y, dx) needs y = the function value at `%s` (tested against f_tol) and "
               "dx = the step (tested against x_tol); here y = `%s` %s and dx = `%s` %s" % (
                   x.id, ast.unparse(y)[:40], "involves f(%s)" % x.id if ry else "does not involve f(%s)" % x.id,
                   ast.unparse(dx)[:40], "involves f(%s)" % x.id if rdx else "does not involve f(%s)" % x.id), what=what)
    elif ry is True and rdx is False:
        CK.ok(f.fq, what + ": y involves f(%s), dx does not" % x.id)
    else:
        CK.ok(f.fq, what + ": roles not contradicted (y: %s, dx: %s)" % (ry, rdx))


def fwd_table_node(model: Model, name: str):
    for st in model.module(ROOTFINDER).tree.body:
        if isinstance(st, ast.Assign) and isinstance(st.value, ast.Dict):
            for k in st.value.keys:
                if isinstance(k, ast.Constant) and k.value == name:
                    return k
    return None


def _check_shape(f: FuncInfo, SH: RuleResult):
    """every return is an identity wrapper whose outermost op restores x0's shape: `_pack(x)`/`_unravel(x)`/
    `.reshape(xshape)` where the local helper ends in a reshape to a shape read from x0"""
    fn = f.node
    x0 = f.params()[1] if len(f.params()) > 1 else None
    if x0 is None:
        raise AnalysisError("%s: no initial-guess parameter" % f.fq)
    defs = function_defs(fn)
    # the shape that is restored must be the shape of the caller's initial guess: the parameter is never re-bound
    reb = [n for n in ast.walk(fn) if isinstance(n, ast.Name) and isinstance(n.ctx, ast.Store) and n.id == x0]
    if reb:
        SH.bad(f, enclosing_stmt(reb[0]), "the initial-guess parameter `%s` is re-bound inside the solver: the shape restored at the end is that of the re-bound value, not "
               "of the caller's tensor (e.g. a 0-dim guess comes back with shape (1,))" % x0)
    shape_names = set()
    for nm, vals in defs.items():
        for v in vals:
            src = ast.unparse(v)
            if src.startswith(x0 + ".shape"):
                shape_names.add(nm)
    users = user_function_names(f)
    ident = local_identity_functions(fn, users)

    def restores_shape(e) -> bool:
        # direct:  X.reshape(<shape names>)  or  local helper whose returns do so
        if isinstance(e, ast.Call):
            if isinstance(e.func, ast.Attribute) and e.func.attr in ("reshape", "view"):
                argn = set()
                for a in e.args:
                    argn |= names_loaded(a)
                return bool(argn) and argn <= shape_names
            if isinstance(e.func, ast.Name) and e.func.id in ident:
                helper = e.func.id
                for d in defs.get(helper, []):
                    if isinstance(d, ast.FunctionDef):
                        rets = [r for r in ast.walk(d) if isinstance(r, ast.Return) and r.value is not None]
                        hdefs = function_defs(d)

                        def val(r):
                            v = r.value
                            if isinstance(v, ast.Name) and len(hdefs.get(v.id, [])) == 1:
                                return hdefs[v.id][0]
                            return v
                        return bool(rets) and all(restores_shape(val(r)) for r in rets)
                    if isinstance(d, ast.Lambda):
                        return restores_shape(d.body)
                    if isinstance(d, ast.IfExp):
                        oks = []
                        for part in (d.body, d.orelse):
                            if isinstance(part, ast.Lambda):
                                oks.append(restores_shape(part.body))
                            elif isinstance(part, ast.Name):
                                oks.append(restores_shape(ast.Call(func=part, args=[ast.Name(id="_", ctx=ast.Load())], keywords=[])))
                            else:
                                oks.append(False)
                        return all(oks)
        if isinstance(e, ast.Name) and e.id == x0:
            return True
        if isinstance(e, ast.Name) and defs.get(e.id) and not any(isinstance(d, (ast.FunctionDef, ast.Lambda)) for d in defs[e.id]) and _depth[0] < 4:
            # a local that only ever holds reshaped values (`ret = _pack(xnew); ..; return ret`)
            _depth[0] += 1
            try:
                return all(isinstance(d, ast.AST) and restores_shape(d) for d in defs[e.id])
            finally:
                _depth[0] -= 1
        return False
    _depth = [0]

    for r in own_nodes(fn):
        if isinstance(r, ast.Return) and r.value is not None:
            what = "return %s" % ast.unparse(r.value)
            if restores_shape(r.value):
                SH.ok(f.fq, what + " restores %s.shape" % x0)
            else:
                SH.bad(f, r, "returned value is not reshaped to the shape of the initial guess `%s`" % x0, what=what)


def _all_element_norm(e: ast.AST):
    """(operand, verdict) for a norm expression: verdict True = the 2-norm over all elements whatever the shape; a message = a norm whose
    meaning depends on the shape of the operand; None = not recognised"""
    FLAT = ("reshape(-1)", "flatten()", "ravel()", "view(-1)")

    def flat(x):
        return ast.unparse(x).endswith(FLAT)
    if not isinstance(e, ast.Call):
        return None, None
    fn = ast.unparse(e.func)
    kws = {k.arg: k.value for k in e.keywords}
    if isinstance(e.func, ast.Attribute) and e.func.attr == "norm" and fn not in ("torch.norm", "torch.linalg.norm"):
        x = e.func.value
        if not e.args and not kws:
            return x, True
        if flat(x) and not ({"dim"} & set(kws)) and len(e.args) <= 1 and (not e.args or ast.unparse(e.args[0]) in ("2", "2.0", "'fro'")):
            return x, True
        return x, "`%s` is not the norm over all elements (dim / p given on an operand that is not flattened)" % ast.unparse(e)
    if fn in ("torch.norm", "torch.linalg.vector_norm") and e.args:
        x = e.args[0]
        o_ = e.args[1] if len(e.args) > 1 else kws.get("ord", kws.get("p"))
        if "dim" in kws or len(e.args) > 2:
            return x, "`%s` reduces over some dimensions only" % ast.unparse(e)
        if o_ is None or ast.unparse(o_) in ("2", "2.0") or (fn == "torch.norm" and ast.unparse(o_).strip("'\"") == "fro"):
            return x, True
        return x, "`%s` is not the 2-norm" % ast.unparse(e)
    if fn == "torch.linalg.norm" and e.args:
        x = e.args[0]
        o_ = e.args[1] if len(e.args) > 1 else kws.get("ord")
        if "dim" in kws or len(e.args) > 2:
            return x, "`%s` reduces over some dimensions only" % ast.unparse(e)
        if o_ is None or flat(x):
            return x, True if (o_ is None or ast.unparse(o_) in ("2", "2.0")) else "`%s` is not the 2-norm" % ast.unparse(e)
        return x, "`%s`: torch.linalg.norm with an explicit order is a MATRIX norm for a 2-D operand (spectral norm for ord=2) and an error " \
                  "for more dimensions; the solvers pass unflattened (batch, feature) iterates" % ast.unparse(e)
    return None, None


def _termination_norms(model: Model, TN: RuleResult):
    """TerminationCondition.check is shared by every root finder and by equilibrium's Anderson acceleration, which hands it (batch, feature)
    shaped iterates.  'Converged' means the norm over ALL elements is below the tolerance: the three norms the comparisons bound must be
    all-element 2-norms of (dx, x, y) - a matrix norm or a per-dimension norm under-reports the residual of a batched unknown."""
    from ..flow import origins
    chk = model.func(ROOTSOLVER, "TerminationCondition.check")
    ps = chk.params()[1:4]
    if len(ps) < 3:
        raise AnchorError("TerminationCondition.check no longer takes (x, y, dx)")
    defs = function_defs(chk.node)
    seen = {}
    for n in own_nodes(chk.node):
        if not (isinstance(n, ast.Call)):
            continue
        x, verdict = _all_element_norm(n)
        if x is None:
            continue
        root = x
        while isinstance(root, (ast.Call, ast.Attribute, ast.Subscript)):
            root = root.func if isinstance(root, ast.Call) else root.value
        if not (isinstance(root, ast.Name) and root.id in ps):
            continue
        seen.setdefault(root.id, []).append((n, verdict))
    for p_ in ps:
        if p_ not in seen:
            TN.undecided(chk, chk.node, "cannot find the norm of `%s` in TerminationCondition.check" % p_)
            continue
        for n, verdict in seen[p_]:
            what = "norm of %s: `%s`" % (p_, ast.unparse(n))
            if verdict is True:
                TN.ok(chk.fq, what + " is the 2-norm over all elements for every shape")
            else:
                TN.bad(chk, enclosing_stmt(n), "the termination test must bound the norm over all elements of `%s`: %s" % (p_, verdict), what=what)


def _check_termination_condition(model: Model, TC: RuleResult):
    """Truth table of TerminationCondition.check over the finite domain of comparison outcomes.  Each of the four tolerance
    comparisons is an atom with three states: holds (norm < tol), fails (norm >= tol), unordered (a NaN operand: every ordering
    comparison is False).  The function must return True iff all four atoms hold - in particular a NaN iterate is never
    'converged'.  3^4 assignments are enumerated; the code is interpreted, not executed."""
    import itertools
    chk = model.func(ROOTSOLVER, "TerminationCondition.check")
    TOLS = ("x_tol", "x_rtol", "f_tol", "f_rtol")

    def tol_of(e):
        names = [n.attr for n in ast.walk(e) if isinstance(n, ast.Attribute) and isinstance(n.value, ast.Name) and n.value.id == "self" and n.attr in TOLS]
        return names[0] if len(set(names)) == 1 else None
    seen_atoms = {}
    free_atoms = {}

    def ev(e, st):
        if isinstance(e, ast.Constant) and isinstance(e.value, bool):
            return e.value
        if isinstance(e, ast.BoolOp):
            vals = [ev(v, st) for v in e.values]
            return all(vals) if isinstance(e.op, ast.And) else any(vals)
        if isinstance(e, ast.UnaryOp) and isinstance(e.op, ast.Not):
            return not ev(e.operand, st)
        if isinstance(e, ast.Call) and ast.unparse(e.func) == "bool" and len(e.args) == 1:
            return ev(e.args[0], st)
        if isinstance(e, ast.Compare) and len(e.ops) == 1:
            l, r, op = e.left, e.comparators[0], e.ops[0]
            tl, tr = tol_of(l), tol_of(r)
            if tl is None and tr is None:
                # a comparison that involves no tolerance is a free atom: it can be true or false independently of the four bounds
                key = ast.unparse(e)
                free_atoms.setdefault(key, e)
                return st.get(("free", key), False)
            if tl is not None and tr is not None:
                raise AnalysisError("C03-TC: comparison `%s` does not bound a norm by exactly one tolerance" % ast.unparse(e))
            tol = tr or tl
            seen_atoms[tol] = e
            state = st[tol]
            less_like = isinstance(op, (ast.Lt, ast.LtE))
            greater_like = isinstance(op, (ast.Gt, ast.GtE))
            if not (less_like or greater_like):
                raise AnalysisError("C03-TC: unsupported comparison `%s`" % ast.unparse(e))
            if tr is not None:      # norm OP tol
                return state == "holds" if less_like else state == "fails"
            return state == "holds" if greater_like else state == "fails"     # tol OP norm
        raise AnalysisError("C03-TC: cannot interpret `%s` in TerminationCondition.check" % ast.unparse(e))

    def run(stmts, st):
        for s_ in stmts:
            if isinstance(s_, ast.Return):
                return ev(s_.value, st)
            if isinstance(s_, ast.If):
                r = run(s_.body if ev(s_.test, st) else s_.orelse, st)
                if r is not None:
                    return r
            elif isinstance(s_, (ast.Assign, ast.AnnAssign, ast.Expr, ast.Pass)):
                continue
            else:
                raise AnalysisError("C03-TC: unexpected statement `%s`" % norm_stmt(s_))
        return None
    bad = None
    n = 0
    # first pass discovers the free atoms (tolerance-free comparisons); then every assignment of them is enumerated as well
    for combo in itertools.product(("holds", "fails", "unordered"), repeat=4):
        run(chk.node.body, dict(zip(TOLS, combo)))
    frees = sorted(free_atoms)
    if len(frees) > 4:
        raise AnalysisError("C03-TC: too many tolerance-free comparisons in TerminationCondition.check: %s" % frees)
    for combo in itertools.product(("holds", "fails", "unordered"), repeat=4):
        for fv in itertools.product((False, True), repeat=len(frees)):
            st = dict(zip(TOLS, combo))
            st.update({("free", k): v for k, v in zip(frees, fv)})
            n += 1
            r = run(chk.node.body, st)
            want = all(c == "holds" for c in combo)
            if bool(r) != want and bad is None:
                bad = ({(k if isinstance(k, str) else "`%s`" % k[1]): v for k, v in st.items()}, r)
    missing = [t for t in TOLS if t not in seen_atoms]
    for tol in TOLS:
        if tol in missing:
            TC.bad(chk, chk.node, "tolerance self.%s does not take part in the termination test" % tol)
        elif bad is None:
            TC.ok(chk.fq, "`%s`: converged requires this bound to HOLD (fails / NaN -> not converged)" % ast.unparse(seen_atoms[tol]))
    if bad is not None:
        st, r = bad
        nan = any(v == "unordered" for v in st.values())
        TC.bad(chk, chk.node, "check returns %s when %s: %s" % (r, st, "an iterate with NaN norm is declared converged (ordering comparisons with NaN are False)"
                                                               if nan and r else "the four tolerance tests are not required conjunctively"))
    TC.paths = n


def _check_best_point(model: Model, ents, RB: RuleResult):
    tc = model.cls(MINIMIZER, "TerminationCondition")
    to_stop = tc.find_method("to_stop")
    get_best = tc.find_method("get_best_x")
    if to_stop is None or get_best is None:
        raise AnchorError("minimizer TerminationCondition.to_stop/get_best_x vanished")
    ps = to_stop.params()  # self, i, xnext, x, f, fprev
    if ps[:1] != ["self"] or len(ps) < 6:
        raise AnalysisError("to_stop signature changed")
    px, pf = ps[3], ps[4]
    # (1) call sites in gd/adam
    for name in ("gd", "adam"):
        f = model.func(MINIMIZER, name)
        users = {f.params()[0]}
        site = None
        for c in own_nodes(f.node):
            if isinstance(c, ast.Call) and isinstance(c.func, ast.Attribute) and c.func.attr == "to_stop":
                site = c
        if site is None:
            raise AnchorError("%s: no to_stop call" % f.fq)
        # walk the loop body in order with value numbering
        loop = [n for n in own_nodes(f.node) if isinstance(n, ast.For)]
        if not loop:
            raise AnalysisError("%s: no loop" % f.fq)
        vn = VN(set(), ident_methods={"detach", "clone", "contiguous"})
        evalpt = None
        fname = None
        okcall = False
        for s in loop[0].body:
            if isinstance(s, ast.Assign) and isinstance(s.value, ast.Call) and isinstance(s.value.func, ast.Name) \
                    and s.value.func.id in users and s.value.args:
                evalpt = vn.of(s.value.args[0])
                t = s.targets[0]
                fname = t.elts[0].id if isinstance(t, ast.Tuple) and isinstance(t.elts[0], ast.Name) else (t.id if isinstance(t, ast.Name) else None)
                vn.assign_stmt(s)
                continue
            if any(c is site for c in ast.walk(s)):
                if len(site.args) < 5:
                    raise AnalysisError("to_stop call with unexpected arguments")
                ax, af = site.args[2], site.args[3]
                same_pt = evalpt is not None and vn.of(ax) == evalpt
                same_f = isinstance(af, ast.Name) and (af.id == fname)
                what = "%s: to_stop(.., x=%s, f=%s): x is the point where f was evaluated" % (name, ast.unparse(ax), ast.unparse(af))
                if same_pt and same_f:
                    RB.ok(f.fq, what)
                else:
                    RB.bad(f, s, "the point passed as `%s` to to_stop is not the point at which `%s` was evaluated in this iteration" % (px, pf), what=what)
                okcall = True
                break
            if isinstance(s, (ast.Assign, ast.AugAssign, ast.AnnAssign)):
                # `f = f.detach()` keeps the role of f
                vn.assign_stmt(s)
        if not okcall:
            raise AnalysisError("%s: to_stop call not at loop-body level" % f.fq)
        # the result goes through get_best_x
        rets = [r for r in own_nodes(f.node) if isinstance(r, ast.Return) and r.value is not None]
        from ..flow import origins as _origins
        _fd = function_defs(f.node)
        is_gb = lambda o: isinstance(o, ast.Call) and isinstance(o.func, ast.Attribute) and o.func.attr == "get_best_x"
        if rets and all((lambda os_: bool(os_) and all(is_gb(o) for o in os_))(_origins(r.value, _fd)) for r in rets):
            RB.ok(f.fq, "%s returns terminator.get_best_x(..)" % name)
        else:
            RB.bad(f, rets[0] if rets else f.node, "result does not go through get_best_x (best-point fall-back lost)")
    # (2) _best_x assigned only from parameter x under fval < _best_f
    n_assign = 0
    for n in own_nodes(to_stop.node):
        if isinstance(n, ast.Assign) and any(isinstance(t, ast.Attribute) and t.attr == "_best_x" for t in n.targets):
            n_assign += 1
            from ..rules.solverloop import enclosing_ifs
            ifs = enclosing_ifs(n, to_stop.node)
            guard_ok = False
            for i, inbody in ifs:
                t = i.test
                if inbody and isinstance(t, ast.Compare) and isinstance(t.ops[0], (ast.Lt, ast.LtE)) \
                        and "_best_f" in ast.unparse(t.comparators[0]):
                    # left must derive from parameter f
                    defs = function_defs(to_stop.node)
                    from ..flow import def_use_closure
                    if pf in def_use_closure(to_stop.node, names_loaded(t.left), defs):
                        guard_ok = True
            src_ok = isinstance(n.value, ast.Name) and n.value.id == px
            what = "self._best_x = %s under %s" % (ast.unparse(n.value), [norm_stmt(i.test, 40) for i, _ in ifs])
            if guard_ok and src_ok:
                RB.ok(to_stop.fq, what)
            else:
                RB.bad(to_stop, n, "_best_x must be assigned from parameter `%s` only under `f < _best_f`" % px, what=what)
    if n_assign == 0:
        RB.bad(to_stop, to_stop.node, "_best_x is never recorded")
    # (2b) the flag that suppresses the non-convergence warning and the best-point fall-back may only be raised when to_stop
    #      itself reports convergence (its return value): otherwise a spurious hit silences the warning for a run that never stopped
    trets = [r for r in own_nodes(to_stop.node) if isinstance(r, ast.Return) and r.value is not None]
    sets = [n for n in own_nodes(to_stop.node) if isinstance(n, ast.Assign) and any(isinstance(t, ast.Attribute) and t.attr == "_ever_converge" for t in n.targets)]
    if len(trets) != 1 or not sets:
        raise AnalysisError("to_stop: expected one return and an assignment of _ever_converge")
    rv = trets[0].value
    tdefs = function_defs(to_stop.node)
    rtxt = ast.unparse(rv)
    rdef = ast.unparse(tdefs[rv.id][0]) if isinstance(rv, ast.Name) and len(tdefs.get(rv.id, [])) == 1 else rtxt
    from ..rules.solverloop import enclosing_ifs as _eifs
    for n in sets:
        if not (isinstance(n.value, ast.Constant) and n.value.value is True):
            continue
        conj = []
        for i_, inbody in _eifs(n, to_stop.node):
            if not inbody:
                continue
            t = i_.test
            conj += list(t.values) if isinstance(t, ast.BoolOp) and isinstance(t.op, ast.And) else [t]
        implied = any(ast.unparse(c) in (rtxt, rdef, "(%s)" % rdef) for c in conj)
        if implied:
            RB.ok(to_stop.fq, "_ever_converge is raised only when to_stop returns True (`%s`)" % rdef)
        else:
            RB.bad(to_stop, n, "_ever_converge is raised on a path where to_stop does not report convergence (`return %s`): the non-convergence "
                   "warning and the best-point fall-back are then skipped for a run that never stopped" % rtxt)
    # (3) get_best_x: warns and returns _best_x on the never-converged path, else its argument
    rets = [r for r in own_nodes(get_best.node) if isinstance(r, ast.Return) and r.value is not None]
    vals = sorted(ast.unparse(r.value) for r in rets)
    arg = get_best.params()[1]
    if vals == sorted(["self._best_x", arg]):
        from ..flow import is_warn_call
        from ..rules.solverloop import enclosing_ifs
        bx = [r for r in rets if ast.unparse(r.value) == "self._best_x"][0]
        from ..model import effective_conditions
        conds = effective_conditions(bx)
        # the fall-back exit is taken only under a condition on the convergence flag, and a warning is issued under (a subset of)
        # the same conditions before it - whether the function is written as if/else or with guard clauses
        cond = any("_ever_converge" in t_ for t_, _ in conds)
        warned = any(is_warn_call(s_, None) and s_.lineno < bx.lineno and set(effective_conditions(s_)) <= set(conds)
                     for s_ in own_nodes(get_best.node) if isinstance(s_, ast.stmt))
        if warned and cond:
            RB.ok(get_best.fq, "never-converged path warns and returns _best_x; otherwise returns its argument")
        else:
            RB.bad(get_best, bx, "returning _best_x must be on the never-converged path and be accompanied by a warning")
    else:
        RB.bad(get_best, get_best.node, "get_best_x must return either self._best_x or its argument (returns: %s)" % vals)
