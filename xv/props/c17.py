"""C17 -- jac and hess are the true Jacobian and Hessian as differentiable operators (structural part)."""
from __future__ import annotations
import ast
from typing import List
from ..model import Model, own_nodes, norm_stmt, AnalysisError, AnchorError, enclosing_stmt, ancestors
from ..report import RuleResult
from ..cfg import CFG
from ..flow import function_defs, names_loaded, def_use_closure, origins, origin_texts
from ..rules import autograd as ac

PROP = "C17"
LEVEL = "other"
EXPLANATION = (
    "Decided from xitorch/grad/jachess.py: (V) index validation (_setup_idxs: tensor and requires_grad, else TypeError) dominates "
    "every construction of a _Jac operator in jac and hess; (S) the operator's shape is (numel(output), numel(input)) and the "
    "products reshape with the matching in/out shapes; (H) hess wraps the gradient closure as a sibling of the function and flags "
    "the operator Hermitian; (AC3) all five autograd.grad calls record the graph iff the caller does (products are differentiable); "
    "(K) cache-key coverage: every tensor named by _getparamnames is compared by identity in the cache-validity test; (G) both "
    "products connect the result to both parameter groups and re-evaluate under useobjparams + enable_grad; (X) the argument index "
    "`idx` only subscripts the full argument list (never the tensor-only list). NOT decided: agreement with the dense Jacobian.")
ASSUMPTIONS = ["torch.autograd double-backward trick computes J v", "stale alias caches after the user re-assigns tensors are not decided"]

JAC = "xitorch/grad/jachess.py"


def rules(model: Model, tier: str) -> List[RuleResult]:
    V = RuleResult(PROP, "C17-V", "_setup_idxs validation dominates every _Jac construction; operators are built in the requested order", min_instances=7)
    S = RuleResult(PROP, "C17-S", "operator shape (nout, nin) and reshape roles of the products", min_instances=5)
    H = RuleResult(PROP, "C17-H", "hess: gradient closure is a sibling of the function; operator flagged Hermitian", min_instances=3)
    R3 = RuleResult(PROP, "AC3", "create_graph follows the caller in all autograd.grad calls of jachess.py", min_instances=5)
    K = RuleResult(PROP, "C17-K", "cache-key coverage: every tensor named by _getparamnames is identity-checked", min_instances=3)
    G = RuleResult(PROP, "C17-G", "products connect both parameter groups; re-evaluation under useobjparams + enable_grad, identical in _mv and _rmv", min_instances=8)
    X = RuleResult(PROP, "C17-X", "the argument index subscripts only the full argument list; nested functions differentiate w.r.t. their own arguments", min_instances=5)
    _validation(model, V)
    _construction_order(model, V)
    _own_argument_differentiation(model, X)
    _shape(model, S)
    _hess(model, H)
    ac.ac3_create_graph(model, R3, files={JAC})
    _cache_key(model, K)
    _connect(model, G)
    _connect_unconditional(model, G)
    refresh_consistency(model, G)
    _index_space(model, X)
    from ..rules import substitution as _subst
    _sub = _subst.rules(model, PROP, tier)
    # _Jac re-assembles its argument list with the TensorNonTensorSeparator after every substitution of the parameters: the scatter must be
    # the inverse of the split (shared with C04 / C08 / C13 / C16)
    from ..rules import autograd as _ac17
    SEP = RuleResult(PROP, "AC-SEP", "TensorNonTensorSeparator.reconstruct_params scatters both groups back to their recorded positions (inverse of the split)", min_instances=4)
    _ac17.separator_inverse(model, SEP)
    return [V, S, H, R3, K, G, X, *_sub, SEP]


def _validation(model: Model, V: RuleResult):
    su = model.func(JAC, "_setup_idxs")
    # _setup_idxs: loop asserting tensor & requires_grad with assert_type (TypeError)
    src = ast.unparse(su.node)
    chk = [c for c in own_nodes(su.node) if isinstance(c, ast.Call) and ast.unparse(c.func) == "assert_type"]
    ok = False
    for c in chk:
        t = ast.unparse(c.args[0]) if c.args else ""
        if "isinstance(" in t and "torch.Tensor" in t and "requires_grad" in t and " and " in t:
            if any(isinstance(a, ast.For) for a in ancestors(c)):
                ok = True
    # the "all differentiable arguments" default is selected by identity with None only: 0 is a valid index and must not be
    # mistaken for "no selection" (a falsy test would silently return the Jacobian w.r.t. another argument)
    ip = su.params()[0]
    first = [s_ for s_ in su.node.body if isinstance(s_, ast.If)]
    t0 = first[0].test if first else None
    is_none = (isinstance(t0, ast.Compare) and isinstance(t0.left, ast.Name) and t0.left.id == ip and len(t0.ops) == 1 and isinstance(t0.ops[0], ast.Is)
               and isinstance(t0.comparators[0], ast.Constant) and t0.comparators[0].value is None)
    falsy = [n for n in ast.walk(su.node) if (isinstance(n, ast.UnaryOp) and isinstance(n.op, ast.Not) and isinstance(n.operand, ast.Name) and n.operand.id == ip)
             or (isinstance(n, (ast.If, ast.IfExp, ast.While)) and isinstance(n.test, ast.Name) and n.test.id == ip)
             or (isinstance(n, ast.BoolOp) and any(isinstance(v, ast.Name) and v.id == ip for v in n.values))]
    if is_none and not falsy:
        V.ok(su.fq, "the default (all differentiable arguments) is chosen only when `%s is None`; the integer index 0 stays an index" % ip)
    else:
        V.bad(su, first[0] if first else su.node, "the index selection is tested for truthiness: `%s=0` (a valid index) is treated like None, the validation is skipped "
              "and the operator for another argument is returned" % ip)
    at = model.func("xitorch/_utils/assertfuncs.py", "assert_type")
    raises_type = any(isinstance(r, ast.Raise) and ast.unparse(r.exc).startswith("TypeError(") for r in own_nodes(at.node))
    if ok and raises_type:
        V.ok(su.fq, "every selected index is checked to be a tensor that requires grad, TypeError otherwise")
    else:
        V.bad(su, su.node, "_setup_idxs no longer rejects a non-differentiable argument with TypeError for every selected index")
    for q in ("jac", "hess"):
        f = model.func(JAC, q)
        cfg = CFG(f.node)
        dom = cfg.dominators(skip_exc=True)
        val = [n for n in cfg.nodes if n.stmt is not None and n.kind == "stmt" and isinstance(n.stmt, ast.Assign) and "_setup_idxs(" in ast.unparse(n.stmt.value)]
        cons = [n for n in cfg.nodes if n.stmt is not None and n.kind in ("stmt", "return", "loop") and
                not isinstance(n.stmt, (ast.With, ast.FunctionDef, ast.For)) and "_Jac(" in ast.unparse(n.stmt)]
        if not val or not cons:
            V.bad(f, f.node, "%s: validation call or _Jac construction not found" % q)
            continue
        vid = {n.id for n in val}
        if all(dom.get(c.id, set()) & vid for c in cons):
            # and the validated list is what is iterated
            vname = val[0].stmt.targets[0].id if isinstance(val[0].stmt.targets[0], ast.Name) else None
            used = any(vname in names_loaded(n.stmt) for n in cfg.nodes if n.stmt is not None and n.kind in ("stmt", "loop") and
                       isinstance(n.stmt, (ast.For, ast.Assign)) and n not in val)
            if used:
                V.ok(f.fq, "%s: _setup_idxs dominates every _Jac(...) and its result selects the indices" % q)
            else:
                V.bad(f, val[0].stmt, "%s validates the indices but constructs the operators from something else" % q)
        else:
            V.bad(f, cons[0].stmt, "%s constructs a _Jac operator on a path that skips _setup_idxs" % q)


def refresh_consistency(model: Model, G: RuleResult):
    """_mv and _rmv re-evaluate the function in the same way when the parameters were substituted (sibling cross-check): under the same
    context managers, the refresh `__update_params()` is called, and `yparam` / the function arguments are read from what that
    refresh produced - in both products.  A refresh that is adapted in one product only leaves the other on the construction-time
    tensors (values right, graph connected to the wrong tensors)."""
    # the products with their private helpers inlined (Model.flat_func): the refresh statement is seen wherever the developer put it
    mv, rmv = model.flat_func(JAC, "_Jac._mv"), model.flat_func(JAC, "_Jac._rmv")

    def refresh_sig(fi):
        """(with items, the expression the refreshed argument list is rebuilt from, source of yparam, arguments of fcn) in the
        parameters-changed branch"""
        me = fi.params()[0]
        for w in ast.walk(fi.node):
            if isinstance(w, ast.With) and any("useobjparams" in ast.unparse(i.context_expr) for i in w.items):
                items = sorted(ast.unparse(i.context_expr) for i in w.items)
                upd = None
                ypar = None
                fargs = None
                fout = None
                stored = {}
                for s_ in w.body:
                    if isinstance(s_, ast.Assign) and len(s_.targets) == 1 and isinstance(s_.value, ast.Call) and isinstance(s_.value.func, ast.Attribute) \
                            and s_.value.func.attr == "reconstruct_params":
                        upd = "%s = %s" % (ast.unparse(s_.targets[0]), ast.unparse(s_.value))
                        stored[ast.unparse(s_.targets[0])] = s_.value
                    if isinstance(s_, ast.Assign) and isinstance(s_.value, ast.Call) and ast.unparse(s_.value.func) == "%s.fcn" % me:
                        fargs = [ast.unparse(a) for a in s_.value.args]
                        fout = ast.unparse(s_.targets[0])
                # the differentiated input: whatever name the pull-back of the function output is taken w.r.t.
                ynames = set()
                for c in ast.walk(fi.node):
                    if isinstance(c, ast.Call) and ast.unparse(c.func).endswith("autograd.grad") and len(c.args) >= 2 \
                            and fout is not None and ast.unparse(c.args[0]) == fout and isinstance(c.args[1], (ast.Tuple, ast.List)):
                        ynames |= {e.id for e in c.args[1].elts if isinstance(e, ast.Name)}
                for s_ in w.body:
                    if isinstance(s_, ast.Assign) and isinstance(s_.targets[0], ast.Name) and s_.targets[0].id in ynames:
                        ypar = ast.unparse(s_.value)
                return (tuple(items), upd, ypar, tuple(fargs or [])), stored
        return None, {}
    (a, sa), (b, sb) = refresh_sig(mv), refresh_sig(rmv)
    if a is None or b is None:
        G.undecided(mv if a is None else rmv, (mv if a is None else rmv).node, "cannot find the parameters-changed branch (re-evaluation under useobjparams) of %s"
                    % ("_mv" if a is None else "_rmv"))
        return
    if a == b:
        G.ok(rmv.fq, "_mv and _rmv refresh identically: %s, yparam = %s, fcn(%s)" % (a[1], a[2], ", ".join(a[3])))
    else:
        G.bad(rmv, rmv.node, "_mv and _rmv re-evaluate the function differently after a parameter substitution (_mv: %s / _rmv: %s): one of the products stays on the "
              "construction-time tensors" % (a[1:], b[1:]))
    # the refreshed list is what the products read: yparam and the arguments of fcn come from the target of the refresh
    tgt = (a[1] or "").split(" = ")[0]
    consistent = bool(tgt) and (a[2] or "").startswith(tgt + "[") and all(x in ("*" + tgt, tgt) or x.startswith(tgt + "[") for x in a[3])
    if consistent and a == b:
        G.ok(rmv.fq, "the refresh stores the re-assembled list in `%s` and both products read yparam and the arguments from there" % tgt)
    else:
        G.bad(rmv, rmv.node, "the re-assembled parameter list is `%s` but a product reads yparam / the arguments from %s" % (a[1], (b[2] if a == b else "%s / %s" % (a[2], b[2]))))


def _construction_order(model: Model, V: RuleResult):
    """The k-th returned operator belongs to the k-th requested index: the result list is built by iterating the validated index list
    itself, in its order (not a sorted / de-duplicated copy), appending exactly one operator per index."""
    for q in ("jac", "hess"):
        f = model.func(JAC, q)
        defs = function_defs(f.node)
        val = [nm for nm, ds in defs.items() if any(isinstance(d, ast.Call) and ast.unparse(d.func) == "_setup_idxs" for d in ds)]
        if not val:
            V.bad(f, f.node, "%s: validated index list not found" % q)
            continue
        vname = val[0]
        rets = [r for r in own_nodes(f.node) if isinstance(r, ast.Return) and r.value is not None]
        def arms(e):
            return arms(e.body) + arms(e.orelse) if isinstance(e, ast.IfExp) else [e]
        rvals = [a for r in rets for a in arms(r.value)]
        resnames = {v.id for v in rvals if isinstance(v, ast.Name)} | {v.value.id for v in rvals if isinstance(v, ast.Subscript) and isinstance(v.value, ast.Name)}
        ok = False
        why = ""
        for rn in resnames:
            for d in defs.get(rn, []):
                if isinstance(d, ast.ListComp) and len(d.generators) == 1 and not d.generators[0].ifs and isinstance(d.generators[0].iter, ast.Name) and d.generators[0].iter.id == vname \
                        and isinstance(d.elt, ast.Call) and ast.unparse(d.elt.func) == "_Jac":
                    ok = True
                    why = "[_Jac(..) for idx in %s]" % vname
            # the append-in-a-loop idiom
            for l in own_nodes(f.node):
                if isinstance(l, ast.For) and isinstance(l.iter, ast.Name) and l.iter.id == vname:
                    apps = [c for c in ast.walk(l) if isinstance(c, ast.Call) and isinstance(c.func, ast.Attribute) and c.func.attr == "append" and ast.unparse(c.func.value) == rn]
                    if len(apps) == 1 and any(isinstance(d, ast.List) and not d.elts for d in defs.get(rn, [])):
                        ok = True
                        why = "for idx in %s: %s.append(<operator>)" % (vname, rn)
        if ok:
            V.ok(f.fq, "%s: operators are built by iterating the validated index list in its own order (%s)" % (q, why))
        else:
            V.bad(f, rets[-1] if rets else f.node, "%s: the returned list is not built by iterating the requested indices in order (sorted / de-duplicated / "
                  "dict-ordered construction returns the operator of another argument at position k)" % q)
        # the int shortcut returns element 0
        ints = [v for v in rvals if isinstance(v, ast.Subscript)]
        if ints and all(ast.unparse(v.slice) == "0" for v in ints):
            V.ok(f.fq, "%s: an integer selection returns the single operator" % q)


def _own_argument_differentiation(model: Model, X: RuleResult):
    """Inside a nested function, autograd.grad differentiates w.r.t. a tensor taken from that function's OWN arguments (or locals), not
    from a list captured from the enclosing scope: the captured list holds the tensors of construction time, while the function is later
    re-evaluated with substituted ones."""
    mod = model.module(JAC)
    for f in mod.functions.values():
        if f.parent is None:
            continue
        own = set(f.all_params()) | ({f.vararg()} if f.vararg() else set()) | ({f.kwarg()} if f.kwarg() else set())
        loc = {n.id for n in own_nodes(f.node) if isinstance(n, ast.Name) and isinstance(n.ctx, ast.Store)}
        for c in own_nodes(f.node):
            if isinstance(c, ast.Call) and ac.is_autograd_grad(c):
                inp = ac._kw(c, "inputs") or (c.args[1] if len(c.args) > 1 else None)
                if inp is None:
                    continue
                roots = set()
                for e in (inp.elts if isinstance(inp, (ast.Tuple, ast.List)) else [inp]):
                    b = e
                    while isinstance(b, (ast.Subscript, ast.Attribute)):
                        b = b.value
                    if isinstance(b, ast.Name):
                        roots.add(b.id)
                free = sorted(r for r in roots if r not in own and r not in loc)
                what = "%s: autograd.grad(.., inputs=%s)" % (f.qualname, ast.unparse(inp))
                if free:
                    X.bad(f, enclosing_stmt(c), "the differentiated tensor comes from `%s`, a variable captured from the enclosing scope, not from this function's own arguments: "
                          "when the operator is re-evaluated with substituted tensors the gradient is taken w.r.t. the original ones" % free[0], what=what)
                else:
                    X.ok(f.fq, what + " : own arguments")


def _shape(model: Model, S: RuleResult):
    init = model.func(JAC, "_Jac.__init__")
    defs = function_defs(init.node)
    sup = [c for c in own_nodes(init.node) if isinstance(c, ast.Call) and "__init__" in ast.unparse(c.func)]
    shp = None
    for c in sup:
        for k in c.keywords:
            if k.arg == "shape":
                shp = k.value
    if not (isinstance(shp, ast.Tuple) and len(shp.elts) == 2):
        S.bad(init, init.node, "shape passed to LinearOperator.__init__ is not a 2-tuple")
        return

    def role(e):
        e0 = e
        d = 0
        while isinstance(e, ast.Name) and len(defs.get(e.id, [])) == 1 and d < 4:
            e = defs[e.id][0]
            d += 1
        s = ast.unparse(e)
        if s.startswith("torch.numel("):
            arg = e.args[0]
            while isinstance(arg, ast.Name) and len(defs.get(arg.id, [])) == 1 and not isinstance(defs[arg.id][0], ast.Call):
                arg = defs[arg.id][0]
            a = ast.unparse(arg)
            if a.startswith("params[") or a == "yparam":
                return "nin"
            argd = defs.get(a, [])
            if a == "yout" or (argd and isinstance(argd[0], ast.Call) and ast.unparse(argd[0].func) == "fcn"):
                return "nout"
        return "?"
    r0, r1 = role(shp.elts[0]), role(shp.elts[1])
    what = "shape=(%s, %s) -> (%s, %s)" % (ast.unparse(shp.elts[0]), ast.unparse(shp.elts[1]), r0, r1)
    if (r0, r1) == ("nout", "nin"):
        S.ok(init.fq, what)
    else:
        S.bad(init, enclosing_stmt(shp), "the Jacobian operator must have shape (numel(output), numel(input))", what=what)
    for q, inn, outn, gshape in (("_Jac._mv", "nin", "nout", "inshape"), ("_Jac._rmv", "nout", "nin", "outshape")):
        f = model.flat_func(JAC, q)
        arg = f.params()[1]
        # every reshape that mentions one of the operator's size attributes, classified by what is reshaped
        seen_roles = {}
        wrong = []
        for c in own_nodes(f.node):
            if not (isinstance(c, ast.Call) and isinstance(c.func, ast.Attribute) and c.func.attr in ("reshape", "view")):
                continue
            attrs = [n.attr for a in c.args for n in ast.walk(a) if isinstance(n, ast.Attribute) and isinstance(n.value, ast.Name) and n.value.id == f.params()[0]
                     and n.attr in ("nin", "nout", "inshape", "outshape")]
            if not attrs:
                continue
            recv = c.func.value
            txt_args = [ast.unparse(a) for a in c.args]
            if isinstance(recv, ast.Name) and recv.id == arg and txt_args and txt_args[0] == "-1":
                role, want = "input flattened to (-1, n)", inn
            elif any("%s.shape[:-1]" % arg in t for t in txt_args):
                role, want = "result reshaped to (..., n)", outn
            elif len(attrs) == 1 and attrs[0] in ("inshape", "outshape"):
                role, want = "cotangent reshaped", gshape
            else:
                continue
            seen_roles[role] = attrs[-1]
            if attrs[-1] != want:
                wrong.append((c, role, attrs[-1], want))
        what = "%s: %s" % (q, ", ".join("%s with self.%s" % kv for kv in sorted(seen_roles.items())))
        if wrong:
            c, role, got, want = wrong[0]
            S.bad(f, enclosing_stmt(c), "reshape roles of %s are inconsistent with a (nout x nin) operator: %s uses self.%s, expected self.%s" % (q, role, got, want), what=what)
        elif len(seen_roles) == 3:
            S.ok(f.fq, what)
        else:
            S.undecided(f, f.node, "cannot find the three reshapes (input, cotangent, result) of %s (found %s)" % (q, sorted(seen_roles)))
    # yparam / v roles in _mv: differentiate dfdy w.r.t. v with grad_outputs from gy (double-backward trick)
    mv = model.flat_func(JAC, "_Jac._mv")
    grads = [c for c in own_nodes(mv.node) if ac.is_autograd_grad(c)]
    mdefs = function_defs(mv.node)

    def single(e):
        return e.elts[0] if isinstance(e, (ast.Tuple, ast.List)) and len(e.elts) == 1 else None

    def is_fcn_output(e, dd):
        return any(isinstance(o, ast.Call) and ast.unparse(o.func) == "self.fcn" for o in origins(e, dd))

    def is_selected_arg(e, dd):
        return any(isinstance(o, ast.Subscript) and ast.unparse(o) == "self.params[self.idx]" for o in origins(e, dd))
    # first stage: vjp = grad(fcn output, (selected argument,), grad_outputs=v, create_graph=True); second stage: grad(vjp, (v,), gy)
    inner = []
    for g1 in grads:
        go = ac._kw(g1, "grad_outputs")
        if len(g1.args) >= 2 and is_fcn_output(g1.args[0], mdefs) and single(g1.args[1]) is not None \
                and is_selected_arg(single(g1.args[1]), mdefs) and isinstance(go, ast.Name):
            st = enclosing_stmt(g1)
            tg = {n.id for t in getattr(st, "targets", []) for n in ast.walk(t) if isinstance(n, ast.Name)}
            for g2 in grads:
                if g2 is not g1 and len(g2.args) >= 2 and isinstance(g2.args[0], ast.Name) and g2.args[0].id in tg \
                        and isinstance(single(g2.args[1]), ast.Name) and single(g2.args[1]).id == go.id:
                    inner.append(g2)
    if inner:
        S.ok(mv.fq, "forward product differentiates the vector-Jacobian product w.r.t. the dummy cotangent v")
    else:
        S.bad(mv, mv.node, "forward product is not d(dfdy)/dv (double-backward trick)")
    rmv = model.flat_func(JAC, "_Jac._rmv")
    grads = [c for c in own_nodes(rmv.node) if ac.is_autograd_grad(c)]
    rdefs = function_defs(rmv.node)
    if any(len(c.args) >= 2 and is_fcn_output(c.args[0], rdefs) and single(c.args[1]) is not None and is_selected_arg(single(c.args[1]), rdefs) for c in grads):
        S.ok(rmv.fq, "transposed product is the plain backward of the output w.r.t. the selected argument")
    else:
        S.bad(rmv, rmv.node, "transposed product must be autograd.grad(yout, (yparam,), grad_outputs=...)")


def _hess(model: Model, H: RuleResult):
    f = model.func(JAC, "hess")
    inner = f.module.functions.get("hess.gen_pfcn2.pfcn2")
    if inner is None:
        raise AnchorError("hess.gen_pfcn2.pfcn2 vanished")
    decos = inner.decorators()
    if any(d.startswith("make_sibling(") and "pfcn" in d for d in decos):
        H.ok(inner.fq, "gradient closure decorated with %s" % decos)
    else:
        H.bad(inner, inner.node, "the gradient closure of hess must be a sibling (make_sibling) of the function so that object parameters are tracked")
    cons = [c for c in own_nodes(f.node) if isinstance(c, ast.Call) and ast.unparse(c.func) == "_Jac"]
    if cons and all(any(k.arg == "is_hermitian" and isinstance(k.value, ast.Constant) and k.value.value is True for k in c.keywords) for c in cons):
        H.ok(f.fq, "Hessian operator constructed with is_hermitian=True")
    else:
        H.bad(f, f.node, "the Hessian operator must be flagged Hermitian")
    # gradient w.r.t. the same index that selects the Jacobian argument
    g = [c for c in own_nodes(inner.node) if ac.is_autograd_grad(c)]
    if g and "params[idx]" in ast.unparse(g[0].args[1]) and cons and ast.unparse(cons[0].args[2]) == "idx":
        H.ok(f.fq, "gradient and Jacobian are taken w.r.t. the same argument index")
    else:
        H.bad(f, f.node, "hess differentiates the gradient w.r.t. a different argument than the gradient was taken for")


def _key_lists(e) -> dict:
    """{attribute self.<X>: key expression} for every comprehension over self.<X> inside expression e (`[id(p) for p in self.X]`),
    also through one outer comprehension over a literal tuple of such attributes (`tuple(tuple(id(p) for p in seq) for seq in (self.A, self.B))`)"""
    out = {}
    for c in ast.walk(e):
        if isinstance(c, (ast.ListComp, ast.GeneratorExp)) and len(c.generators) == 1:
            it = c.generators[0].iter
            var = ast.unparse(c.generators[0].target)
            if isinstance(it, ast.Attribute) and isinstance(it.value, ast.Name):
                out[it.attr] = ast.unparse(c.elt).replace(var, "<elt>")
            elif isinstance(it, (ast.Tuple, ast.List)) and it.elts and all(isinstance(x, ast.Attribute) and isinstance(x.value, ast.Name) for x in it.elts):
                for inner in ast.walk(c.elt):
                    if isinstance(inner, (ast.ListComp, ast.GeneratorExp)) and len(inner.generators) == 1 and ast.unparse(inner.generators[0].iter) == var:
                        ivar = ast.unparse(inner.generators[0].target)
                        for x in it.elts:
                            out[x.attr] = ast.unparse(inner.elt).replace(ivar, "<elt>")
    return out


def _id_lists(e) -> set:
    """attributes self.<X> iterated by an `id(..)` comprehension inside expression e"""
    return {a_ for a_, k_ in _key_lists(e).items() if k_ == "id(<elt>)"}


def _cache_ifs(f):
    """the `if` statements of a product that choose between the cached graph and a re-evaluation of the function: exactly one arm
    (guard clauses included) contains the call self.fcn(..)"""
    me = f.params()[0]

    def evals(stmts):
        return any(isinstance(c, ast.Call) and ast.unparse(c.func) == "%s.fcn" % me for st in stmts for c in ast.walk(st))
    out = []
    for i in own_nodes(f.node):
        if isinstance(i, ast.If):
            par = getattr(i, "_parent", None)
            rest = []
            for fld in ("body", "orelse"):
                blk = getattr(par, fld, None)
                if isinstance(blk, list) and any(x is i for x in blk):
                    rest = blk[[k for k, x in enumerate(blk) if x is i][0] + 1:]
            a_, b_ = evals(i.body), evals(i.orelse) or (not i.orelse and evals(rest))
            if a_ != b_:
                out.append(i)
    return out


def _cache_key(model: Model, K: RuleResult):
    """every name _getparamnames lists is covered by the identity test that guards the cached graph, and the identities compared are
    the ones remembered at construction - read from the products and the constructor with their private helpers inlined"""
    gp = model.func(JAC, "_Jac._getparamnames")
    names = set()
    for c in ast.walk(gp.node):
        if isinstance(c, ast.Constant) and isinstance(c.value, str):
            nm = c.value.split("[")[0].strip()
            if nm and nm.isidentifier():
                names.add(nm)
    if not names:
        raise AnalysisError("_getparamnames lists no names")
    mv = model.flat_func(JAC, "_Jac._mv")
    init = model.flat_func(JAC, "_Jac.__init__")
    tests = [i.test for i in _cache_ifs(mv)]
    if not tests:
        K.undecided(mv, mv.node, "cannot find the test that chooses between the cached graph and a re-evaluation in _Jac._mv")
        return
    checked = set()
    for t in tests:
        checked |= _id_lists(t)
        for a_, k_ in _key_lists(t).items():
            if k_ != "id(<elt>)":
                K.bad(mv, mv.node, "the cached graph is guarded by `%s` of the tensors in self.%s, not by their identity id(): a tensor replaced by another one that "
                      "shares storage / value keeps the stale graph, and a view of the same tensor invalidates it needlessly" % (k_.replace("<elt>", "p"), a_))
    idefs = {}
    for s in own_nodes(init.node):
        if isinstance(s, ast.Assign) and isinstance(s.targets[0], ast.Attribute) and isinstance(s.targets[0].value, ast.Name) and s.targets[0].value.id == init.params()[0]:
            idefs[s.targets[0].attr] = s.value
    for nm in sorted(names):
        what = "parameter name `%s`" % nm
        if nm in checked:
            K.ok(mv.fq, what + " is identity-checked by the cache-validity test")
        elif "params_tensor" in checked and _is_element_of_params(init, idefs.get(nm)) and \
                "TensorNonTensorSeparator(params)" in ast.unparse(idefs.get("param_sep", ast.Constant(value=None))) and \
                "param_sep.get_tensor_params()" in ast.unparse(idefs.get("params_tensor", ast.Constant(value=None))):
            K.ok(mv.fq, what + " is an element of the explicit parameters, whose differentiable members are identity-checked "
                 "(it is validated to require grad, so it is one of them)")
        else:
            K.bad(mv, mv.node, "`%s` is listed as a parameter of the operator but a change of it does not invalidate the cached graph" % nm, what=what)
    # the remembered ids are taken from the same lists at construction and are what the test compares with
    remembered = {attr: _id_lists(v) for attr, v in idefs.items() if _id_lists(v)}
    for lst in ("params_tensor", "objparams"):
        attrs = [a_ for a_, ls in remembered.items() if lst in ls]
        compared = any(isinstance(c, ast.Compare) and lst in _id_lists(c) and any("self.%s" % a_ in ast.unparse(c).replace(mv.params()[0] + ".", "self.") for a_ in attrs)
                       for t in tests for c in ast.walk(t))
        if attrs and compared:
            K.ok(init.fq, "ids of self.%s remembered at construction (%s) and compared later" % (lst, attrs))
        else:
            K.bad(init, init.node, "ids of self.%s are not remembered/compared consistently" % lst)


def _is_element_of_params(init, v) -> bool:
    if v is None:
        return False
    defs = function_defs(init.node)
    d = 0
    while isinstance(v, ast.Name) and len(defs.get(v.id, [])) == 1 and d < 4:
        v = defs[v.id][0]
        d += 1
    return isinstance(v, ast.Subscript) and ast.unparse(v.value) == "params" and ast.unparse(v.slice) == "idx"


def _connect(model: Model, G: RuleResult):
    for q in ("_Jac._mv", "_Jac._rmv"):
        f = model.flat_func(JAC, q)
        me = f.params()[0]
        cg = [c for c in own_nodes(f.node) if isinstance(c, ast.Call) and ast.unparse(c.func) == "connect_graph"]
        groups = {ast.unparse(c.args[1]) for c in cg if len(c.args) > 1}
        if {"%s.params_tensor" % me, "%s.objparams" % me} <= groups:
            G.ok(f.fq, "%s connects the result to explicit and object parameters" % q)
        else:
            G.bad(f, f.node, "%s must connect its result to both parameter groups (got %s)" % (q, sorted(groups)))
        # every re-evaluation of the function happens under torch.enable_grad() and useobjparams(self.objparams)
        evals = [c for c in own_nodes(f.node) if isinstance(c, ast.Call) and ast.unparse(c.func) == "%s.fcn" % me]
        if not evals:
            G.undecided(f, f.node, "cannot find the re-evaluation of the function (self.fcn(..)) in %s" % q)
        for c in evals:
            items = [ast.unparse(i.context_expr) for w in ancestors(c) if isinstance(w, ast.With) for i in w.items]
            if any("enable_grad" in t for t in items) and any("useobjparams(%s.objparams)" % me in t for t in items):
                G.ok(f.fq, "%s re-evaluates the function under torch.enable_grad() and useobjparams(self.objparams)" % q)
            else:
                G.bad(f, enclosing_stmt(c), "%s must re-evaluate under enable_grad and useobjparams(self.objparams) (contexts here: %s)" % (q, items))
        # the cached values are used only when the cache is valid
        ifs = _cache_ifs(f)
        if ifs:
            # the arm taken when the remembered keys EQUAL the current ones must be the one without the re-evaluation
            t0 = ifs[0].test
            neg = isinstance(t0, ast.UnaryOp) and isinstance(t0.op, ast.Not)
            core = t0.operand if neg else t0
            eqs = [c for c in ast.walk(core) if isinstance(c, ast.Compare) and _key_lists(c)]
            all_eq = bool(eqs) and all(isinstance(c.ops[0], ast.Eq) for c in eqs)
            all_ne = bool(eqs) and all(isinstance(c.ops[0], ast.NotEq) for c in eqs)
            valid_arm = None
            if all_eq:
                valid_arm = ifs[0].orelse if neg else ifs[0].body
            elif all_ne:
                valid_arm = ifs[0].body if neg else ifs[0].orelse
            if valid_arm is None:
                G.undecided(f, ifs[0], "cannot interpret the cache-validity test `%s` of %s" % (ast.unparse(t0)[:80], q))
                continue
            cached_branch = ast.unparse(ast.Module(body=valid_arm, type_ignores=[])) if valid_arm else ""
            if "%s.fcn(" % me not in cached_branch:
                G.ok(f.fq, "%s uses the graph cached at construction only while the parameter identities are unchanged" % q)
            else:
                G.bad(f, ifs[0], "cache branch re-evaluates / wrong polarity")
        else:
            G.undecided(f, f.node, "cannot find the cache-validity test of %s" % q)


def _connect_unconditional(model: Model, G: RuleResult):
    """connect_graph adds the zero-weight links on every path: the result then depends (with zero derivative) on every operator
    parameter, so that differentiating a product w.r.t. a parameter it does not depend on gives zeros instead of an autograd error.
    Also: the refresh (`__update_params`) rebuilds the argument list from an attribute that parameter substitution replaces."""
    cg = model.func(JAC, "connect_graph")
    out, params = cg.params()[:2]
    rets = [r for r in own_nodes(cg.node) if isinstance(r, ast.Return)]
    conditional = [r for r in rets if any(isinstance(a, (ast.If, ast.Try, ast.While, ast.For)) for a in ancestors(r))]
    cdefs = function_defs(cg.node)
    uses = lambda r: r.value is not None and {params, out} <= def_use_closure(cg.node, names_loaded(r.value), cdefs)
    if len(rets) == 1 and not conditional and uses(rets[0]):
        G.ok(cg.fq, "connect_graph has a single unconditional exit that involves every parameter")
    else:
        bad = (conditional + [r for r in rets if not uses(r)] + rets)[0] if rets else cg.node
        G.bad(cg, bad, "connect_graph must link the result to the parameters on every path: an exit that returns the result untouched leaves some parameters "
              "out of the graph (autograd then raises 'not used in the graph' / returns None instead of zeros)")
    gp = model.func(JAC, "_Jac._getparamnames")
    listed = set()
    for c in ast.walk(gp.node):
        if isinstance(c, ast.Constant) and isinstance(c.value, str) and c.value:
            listed.add(c.value.split("[")[0])
    for q in ("_Jac._mv", "_Jac._rmv"):
        up = model.flat_func(JAC, q)
        me = up.params()[0]
        calls = [c for c in own_nodes(up.node) if isinstance(c, ast.Call) and isinstance(c.func, ast.Attribute) and c.func.attr == "reconstruct_params"]
        ok = False
        why = "no reconstruct_params call"
        for c in calls:
            a0 = c.args[0] if c.args else next((k.value for k in c.keywords if k.arg == "tensor_params"), None)
            if a0 is None:
                why = "reconstruct_params is called without the tensor list (it falls back to the separator's construction-time tensors)"
            elif isinstance(a0, ast.Attribute) and isinstance(a0.value, ast.Name) and a0.value.id == me and a0.attr in listed:
                ok = True
            else:
                why = "the tensor list is `%s`, which is not one of the attributes named by _getparamnames (%s)" % (ast.unparse(a0), sorted(listed))
        if ok:
            G.ok(up.fq, "%s: the refresh rebuilds the argument list from an attribute that uselinopparams / setparams replace (%s)" % (q, sorted(listed)))
        elif not calls:
            G.undecided(up, up.node, "cannot find the refresh of the argument list (reconstruct_params) in %s" % q)
        else:
            G.bad(up, enclosing_stmt(calls[0]), "the refresh must rebuild the argument list from the substituted attribute: %s - after a parameter substitution the operator "
                  "would re-evaluate at the old tensors" % why)


def _index_space(model: Model, X: RuleResult):
    """`idx` indexes the full argument list `params`; `params_tensor` is the tensor-only sub-list (another index space)."""
    m = model.module(JAC)
    for f in m.functions.values():
        if not f.qualname.startswith("_Jac.") and f.qualname not in ("hess.gen_pfcn2.pfcn2",):
            continue
        for s in own_nodes(f.node):
            if isinstance(s, ast.Subscript):
                idx = ast.unparse(s.slice)
                if idx in ("idx", "self.idx"):
                    base = ast.unparse(s.value)
                    what = "%s: %s[%s]" % (f.qualname, base, idx)
                    if base in ("params", "self.params"):
                        X.ok(f.fq, what)
                    else:
                        X.bad(f, enclosing_stmt(s), "the argument index `%s` subscripts `%s`, which is not the full argument list: with a "
                              "non-differentiable argument in front, a different argument is differentiated" % (idx, base), what=what)
