"""C13 -- quad gradients in parameters and limits: structural requirements of _Quadrature.backward."""
from __future__ import annotations
import ast
from typing import List, Optional
from ..model import Model, own_nodes, norm_stmt, AnalysisError, AnchorError, enclosing_stmt, parent, ancestors
from ..report import RuleResult
from ..cfg import CFG
from ..flow import function_defs, names_loaded, def_use_closure, reaching_definitions
from ..rules import autograd as ac
from ..rules.hermitian import expr_sign

PROP = "C13"
LEVEL = "other"
EXPLANATION = (
    "Structural requirements of _Quadrature.backward decided from the source: (AC1/AC2) arity, only the xl/xu slots may "
    "carry a gradient; (AC3) create_graph follows the caller; (AC4) the pull-back inside the derivative integrand passes "
    "allow_unused=True and converts None to zeros before the tuple is packed; (AC5/C13-K) the saved options reach the "
    "inner quad by ** splat - no keyword is swallowed by a **kwargs parameter of the same name (package-wide rule); "
    "(AC6) quad's apply calls agree with forward's split; (I) no isinstance(v, Tensor) test after v was coerced with "
    "torch.as_tensor (reaching definitions) - number-valued limits must not get a gradient; (Z) no seq[-n:] / seq[:-n] "
    "with an unguarded count n that can be 0; (L) Leibniz terms: -f(xl) for the lower, +f(xu) for the upper limit, each None "
    "exactly when the limit was not a tensor, packing/unpacking order of the saved limits agrees. NOT decided: accuracy of "
    "the derivative integral.")
ASSUMPTIONS = ["torch.autograd semantics", "leggauss implements the rule (C12)"]

QUAD = "xitorch/integrate/quad.py"


def rules(model: Model, tier: str) -> List[RuleResult]:
    fc = ac.get_fncls(model, "_Quadrature")
    R1 = RuleResult(PROP, "AC1", "arity of _Quadrature.backward and of quad's apply calls", min_instances=3)
    R2 = RuleResult(PROP, "AC2", "only the xl/xu slots may carry a gradient", min_instances=8)
    R3 = RuleResult(PROP, "AC3", "create_graph=torch.is_grad_enabled() in quad.py", min_instances=1)
    R4 = RuleResult(PROP, "AC4", "derivative-integrand pull-back: allow_unused=True and None -> zeros before packing", min_instances=2)
    R5 = RuleResult(PROP, "AC5", "inner quad receives the saved options by ** splat", min_instances=1)
    K = RuleResult(PROP, "C13-K", "no keyword is swallowed by a **kwargs parameter of the same name (all resolved calls of the package)", min_instances=10)
    R6 = RuleResult(PROP, "AC6", "layout agreement of quad's apply calls with forward's split", min_instances=5)
    I = RuleResult(PROP, "C13-I", "no isinstance(v, Tensor) on a value every reaching definition of which is torch.as_tensor/tensor(...)", min_instances=2)
    Z = RuleResult(PROP, "C13-Z", "no negative slicing by a count that can be zero without a guard", min_instances=1)
    L = RuleResult(PROP, "C13-L", "Leibniz boundary terms: signs, evaluation points, None-gating, pack/unpack order", min_instances=6)

    ac.ac1_arity(model, fc, R1)
    ac.ac2_frozen_none(fc, R2)
    ac.ac3_create_graph(model, R3, files={QUAD})
    ac.ac4_allow_unused(fc, R4)
    n = ac.ac4_none_conversion(fc, R4, recursive_callees={"quad"})
    if n == 0:
        R4.bad(fc.backward, fc.backward.node, "the derivative integrand is no longer recognised as the callable of the recursive quad: "
               "None -> zeros conversion cannot be checked")
    ac.ac5_options_forwarding(model, fc, R5, {"quad"})
    ac.keyword_swallow(model, K)
    ac.ac6_layout(model, fc, R6)
    isinstance_after_coercion(model, I, files={QUAD})
    negative_count_slicing(model, Z)
    _leibniz(fc, L)
    _hy = ac.hygiene_rules(model, ac.get_fncls(model, '_Quadrature'), PROP, min_copies=0, min_opt=2, min_conv=1, min_idx=3)
    from ..rules import substitution as _subst
    _sub = _subst.rules(model, PROP, tier)
    return [R1, R2, R3, R4, R5, K, R6, I, Z, L, *_hy, *_sub]


# -------------------------------------------------------------------------------------------------
COERCIONS = ("torch.as_tensor", "torch.tensor", "torch.asarray")


def _is_coercion(e) -> bool:
    return isinstance(e, ast.Call) and ast.unparse(e.func) in COERCIONS


def isinstance_after_coercion(model: Model, I: RuleResult, files):
    n = 0
    for f in model.all_functions():
        if f.module.relpath not in files:
            continue
        tests = [c for c in own_nodes(f.node) if isinstance(c, ast.Call) and isinstance(c.func, ast.Name) and c.func.id == "isinstance"
                 and len(c.args) == 2 and isinstance(c.args[0], ast.Name) and ast.unparse(c.args[1]) in ("torch.Tensor", "Tensor")]
        if not tests:
            continue
        cfg = CFG(f.node)
        IN = reaching_definitions(cfg, f.all_params() + ([f.vararg()] if f.vararg() else []) + ([f.kwarg()] if f.kwarg() else []))
        for t in tests:
            st = enclosing_stmt(t)
            nodes = cfg.nodes_of(st)
            if not nodes:
                continue
            v = t.args[0].id
            defs = set()
            for nd in nodes:
                defs |= set(IN[nd.id].get(v, ()))
            n += 1
            what = "isinstance(%s, Tensor) in %s: reaching definitions %s" % (v, f.qualname, sorted(
                "param" if d == "param" else norm_stmt(d, 40) for d in defs))
            if defs and all(d != "param" and _is_coercion(d) for d in defs):
                I.bad(f, st, "isinstance(%s, torch.Tensor) is evaluated after `%s` was coerced with torch.as_tensor: it is always true, so "
                      "limits given as python numbers are treated as tensor inputs (and receive a gradient autograd rejects)" % (v, v), what=what)
            else:
                I.ok(f.fq, what)
    return n


def _count_like(e) -> bool:
    if isinstance(e, ast.Call):
        nm = ast.unparse(e.func)
        return nm == "len" or nm.split(".")[-1] in ("ntensors", "nnontensors", "numel")
    return False


def negative_count_slicing(model: Model, Z: RuleResult):
    """seq[-n:], seq[:-n], slice(-n, ..) where every definition of n is a count (len(..), .ntensors()) and no
    enclosing conditional tests n"""
    n_inst = 0
    for f in model.all_functions():
        defs = None
        for s in own_nodes(f.node):
            negs = []
            if isinstance(s, ast.Subscript) and isinstance(s.slice, ast.Slice):
                for part in (s.slice.lower, s.slice.upper):
                    if isinstance(part, ast.UnaryOp) and isinstance(part.op, ast.USub) and isinstance(part.operand, ast.Name):
                        negs.append(part.operand.id)
            elif isinstance(s, ast.Call) and isinstance(s.func, ast.Name) and s.func.id == "slice":
                for part in s.args:
                    if isinstance(part, ast.UnaryOp) and isinstance(part.op, ast.USub) and isinstance(part.operand, ast.Name):
                        negs.append(part.operand.id)
            for nm in negs:
                if defs is None:
                    defs = function_defs(f.node)
                ds = defs.get(nm, [])
                if not ds or not all(_count_like(d) for d in ds):
                    continue
                n_inst += 1
                guarded = False
                for a in ancestors(s):
                    if a is f.node:
                        break
                    if isinstance(a, (ast.IfExp, ast.If)) and nm in names_loaded(a.test):
                        guarded = True
                what = "`%s` in %s with count `%s`" % (norm_stmt(s, 60), f.qualname, nm)
                if guarded:
                    Z.ok(f.fq, what + " is guarded by a test of the count")
                else:
                    Z.bad(f, enclosing_stmt(s), "negative slicing by the count `%s`, which can be 0: `x[-0:]` is the whole sequence and "
                          "`x[:-0]` is empty (the sibling code in solve_ivp guards the same hazard)" % nm, what=what)
    return n_inst


# -------------------------------------------------------------------------------------------------
def _leibniz(fc, L: RuleResult):
    fw, bw = fc.forward, fc.backward
    bdefs = function_defs(bw.node)
    cot = bw.params()[1]
    ixl, ixu = fc.fixed.index("xl"), fc.fixed.index("xu")
    rets = [r for r in ac.own_returns(bw) if isinstance(r.value, ast.Tuple)]
    if not rets:
        raise AnalysisError("_Quadrature.backward returns no tuple")
    for r in rets:
        for idx, lim, want in ((ixl, "xl", -1), (ixu, "xu", +1)):
            e = r.value.elts[idx]
            if not isinstance(e, ast.Name):
                L.bad(bw, r, "gradient slot of %s is not a plain name" % lim)
                continue
            ds = bdefs.get(e.id, [])
            if len(ds) != 1 or not isinstance(ds[0], ast.IfExp):
                L.bad(bw, r, "gradient of %s must be `<term> if ctx.%stensor else None`" % (lim, lim))
                continue
            d = ds[0]
            gate = ast.unparse(d.test)
            gate_ok = gate == "%s.%stensor" % (fc.bctx, lim) and isinstance(d.orelse, ast.Constant) and d.orelse.value is None
            sign = expr_sign(d.body, bdefs)
            # the integrand evaluated at the right limit
            evals = [c for c in ast.walk(d.body) if isinstance(c, ast.Call) and isinstance(c.func, ast.Name)
                     and c.func.id in _fcn_names(fc) and c.args]
            at = evals[0].args[0].id if evals and isinstance(evals[0].args[0], ast.Name) else None
            uses_cot = cot in names_loaded(d.body)
            what = "grad_%s = %s%s(%s,..).grad_ys if %s else None" % (lim, "-" if sign < 0 else "+", "f", at, gate)
            if gate_ok and sign == want and at == lim and uses_cot:
                L.ok(bw.fq, what)
            else:
                L.bad(bw, enclosing_stmt(d), "Leibniz term of %s must be %s f(%s) . grad, gated by ctx.%stensor (got sign %+d at `%s`, gate `%s`)"
                      % (lim, "-" if want < 0 else "+", lim, lim, sign, at, gate), what=what)
    # forward records the flags before coercion and packs [xl] + [xu]
    fdefs = function_defs(fw.node)
    for lim in ("xl", "xu"):
        found = [s for s in own_nodes(fw.node) if isinstance(s, ast.Assign) and isinstance(s.targets[0], ast.Attribute)
                 and s.targets[0].attr == lim + "tensor"]
        if len(found) == 1 and ast.unparse(found[0].value) == "isinstance(%s, torch.Tensor)" % lim:
            L.ok(fw.fq, "forward records ctx.%stensor = isinstance(%s, torch.Tensor)" % (lim, lim))
        else:
            L.bad(fw, found[0] if found else fw.node, "forward must record whether %s is a tensor input" % lim)
    pack = [s for s in own_nodes(fw.node) if isinstance(s, ast.Assign) and isinstance(s.targets[0], ast.Name) and s.targets[0].id == "xlxu_tensor"]
    order_fw = [n.id for n in ast.walk(pack[0].value) if isinstance(n, ast.Name) and n.id in ("xl", "xu")] if pack else []
    # backward unpack branches
    chain = [s for s in own_nodes(bw.node) if isinstance(s, ast.If) and "xltensor" in ast.unparse(s.test) and "xutensor" in ast.unparse(s.test)]
    if not chain or order_fw != ["xl", "xu"]:
        L.bad(bw, bw.node, "cannot find the pack (forward) / unpack (backward) of the tensor limits")
        return
    node = chain[0]
    branches = []
    while True:
        branches.append((ast.unparse(node.test), node.body))
        if len(node.orelse) == 1 and isinstance(node.orelse[0], ast.If):
            node = node.orelse[0]
        else:
            branches.append(("else", node.orelse))
            break
    want = {
        "%s.xltensor and %s.xutensor" % (fc.bctx, fc.bctx): {"xl": ("T", 0), "xu": ("T", 1)},
        "%s.xltensor" % fc.bctx: {"xl": ("T", 0), "xu": ("N", 0)},
        "%s.xutensor" % fc.bctx: {"xu": ("T", 0), "xl": ("N", 0)},
        "else": {"xl": ("N", 0), "xu": ("N", 1)},
    }
    for test, body in branches:
        got = {}
        for s in body:
            if isinstance(s, ast.Assign):
                t = s.targets[0]
                v = s.value
                src = "T" if "xlxu_tensor" in ast.unparse(v) else ("N" if "xlxu_nontensor" in ast.unparse(v) else "?")
                if isinstance(t, ast.Tuple):
                    for k, el in enumerate(t.elts):
                        if isinstance(el, ast.Name):
                            got[el.id] = (src, k)
                elif isinstance(t, ast.Name):
                    k = v.slice.value if isinstance(v, ast.Subscript) and isinstance(v.slice, ast.Constant) else 0
                    got[t.id] = (src, k)
        what = "unpack branch `%s`: %s" % (test, got)
        if test in want and got == want[test]:
            L.ok(bw.fq, what)
        else:
            L.bad(bw, body[0] if body else bw.node, "restoration of the limits in branch `%s` does not match forward's packing order" % test, what=what)


def _fcn_names(fc) -> set:
    bw = fc.backward
    out = set()
    for s in own_nodes(bw.node):
        if isinstance(s, ast.Assign) and isinstance(s.targets[0], ast.Name) and ast.unparse(s.value) == "%s.fcn" % fc.bctx:
            out.add(s.targets[0].id)
    return out
