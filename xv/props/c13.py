"""C13 -- quad gradients in parameters and limits: structural requirements of _Quadrature.backward."""
from __future__ import annotations
import ast
from typing import List, Optional
from ..model import Model, own_nodes, norm_stmt, AnalysisError, AnchorError, enclosing_stmt, parent, ancestors
from ..report import RuleResult
from ..cfg import CFG
from ..flow import function_defs, names_loaded, def_use_closure, reaching_definitions
from ..rules import autograd as ac
from ..rules.hermitian import expr_sign

PROP = "C13"
LEVEL = "other"
EXPLANATION = (
    "Structural requirements of _Quadrature.backward decided from the source: (AC1/AC2) arity, only the xl/xu slots may "
    "carry a gradient; (AC3) create_graph follows the caller; (AC4) the pull-back inside the derivative integrand passes "
    "allow_unused=True and converts None to zeros before the tuple is packed; (AC5/C13-K) the saved options reach the "
    "inner quad by ** splat - no keyword is swallowed by a **kwargs parameter of the same name (package-wide rule); "
    "(AC6) quad's apply calls agree with forward's split; (I) no isinstance(v, Tensor) test after v was coerced with "
    "torch.as_tensor (reaching definitions) - number-valued limits must not get a gradient; (Z) no seq[-n:] / seq[:-n] "
    "with an unguarded count n that can be 0; (L) Leibniz terms: -f(xl) for the lower, +f(xu) for the upper limit, each None "
    "exactly when the limit was not a tensor, packing/unpacking order of the saved limits agrees. (AC16) the values of the incoming cotangent never steer control flow in backward; NOT decided: accuracy of "
    "the derivative integral.")
ASSUMPTIONS = ["torch.autograd semantics", "leggauss implements the rule (C12)"]

QUAD = "xitorch/integrate/quad.py"


def rules(model: Model, tier: str) -> List[RuleResult]:
    fc = ac.get_fncls(model, "_Quadrature")
    R1 = RuleResult(PROP, "AC1", "arity of _Quadrature.backward and of quad's apply calls", min_instances=2)
    R2 = RuleResult(PROP, "AC2", "only the xl/xu slots may carry a gradient", min_instances=8)
    R3 = RuleResult(PROP, "AC3", "create_graph=torch.is_grad_enabled() in quad.py", min_instances=1)
    R4 = RuleResult(PROP, "AC4", "derivative-integrand pull-back: allow_unused=True and None -> zeros before packing", min_instances=2)
    R5 = RuleResult(PROP, "AC5", "inner quad receives the saved options by ** splat", min_instances=1)
    K = RuleResult(PROP, "C13-K", "no keyword is swallowed by a **kwargs parameter of the same name (all resolved calls of the package)", min_instances=10)
    R6 = RuleResult(PROP, "AC6", "layout agreement of quad's apply calls with forward's split", min_instances=3)
    I = RuleResult(PROP, "C13-I", "no isinstance(v, Tensor) on a value every reaching definition of which is torch.as_tensor/tensor(...)", min_instances=2)
    Z = RuleResult(PROP, "C13-Z", "no negative slicing by a count that can be zero without a guard", min_instances=1)
    L = RuleResult(PROP, "C13-L", "Leibniz boundary terms: signs, evaluation points, None-gating, pack/unpack order", min_instances=5)

    ac.ac1_arity(model, fc, R1)
    ac.ac2_frozen_none(fc, R2)
    ac.ac3_create_graph(model, R3, files={QUAD})
    ac.ac4_allow_unused(fc, R4)
    n = ac.ac4_none_conversion(fc, R4, recursive_callees={"quad"})
    if n == 0:
        R4.bad(fc.backward, fc.backward.node, "the derivative integrand is no longer recognised as the callable of the recursive quad: "
               "None -> zeros conversion cannot be checked")
    ac.ac5_options_forwarding(model, fc, R5, {"quad"})
    ac.keyword_swallow(model, K)
    ac.ac6_layout(model, fc, R6)
    isinstance_after_coercion(model, I, files={QUAD})
    negative_count_slicing(model, Z)
    _leibniz(fc, L)
    _hy = ac.hygiene_rules(model, ac.get_fncls(model, '_Quadrature'), PROP, min_copies=0, min_opt=2, min_conv=1, min_idx=3)
    from ..rules import substitution as _subst
    _sub = _subst.rules(model, PROP, tier)
    # the tuple of vector-Jacobian products of the derivative integrand is flattened and unflattened by the same TensorPacker pair
    # the forward uses for tuple-valued integrands (the nested quad goes through quad's wrapper)
    from .c07 import _tensor_packer
    Pk = RuleResult(PROP, "C13-P", "the derivative integrand is tuple-valued: TensorPacker segments tile the flat vector, flatten / pack are a single-exit inverse pair", min_instances=2)
    _tensor_packer(model, Pk)
    return [R1, R2, R3, R4, R5, K, R6, I, Z, L, Pk, *_hy, *_sub]


# -------------------------------------------------------------------------------------------------
COERCIONS = ("torch.as_tensor", "torch.tensor", "torch.asarray")


def _is_coercion(e) -> bool:
    return isinstance(e, ast.Call) and ast.unparse(e.func) in COERCIONS


def isinstance_after_coercion(model: Model, I: RuleResult, files):
    n = 0
    for f in model.all_functions():
        if f.module.relpath not in files:
            continue
        tests = [c for c in own_nodes(f.node) if isinstance(c, ast.Call) and isinstance(c.func, ast.Name) and c.func.id == "isinstance"
                 and len(c.args) == 2 and isinstance(c.args[0], ast.Name) and ast.unparse(c.args[1]) in ("torch.Tensor", "Tensor")]
        if not tests:
            continue
        cfg = CFG(f.node)
        IN = reaching_definitions(cfg, f.all_params() + ([f.vararg()] if f.vararg() else []) + ([f.kwarg()] if f.kwarg() else []))
        for t in tests:
            st = enclosing_stmt(t)
            nodes = cfg.nodes_of(st)
            if not nodes:
                continue
            v = t.args[0].id
            defs = set()
            for nd in nodes:
                defs |= set(IN[nd.id].get(v, ()))
            n += 1
            what = "isinstance(%s, Tensor) in %s: reaching definitions %s" % (v, f.qualname, sorted(
                "param" if d == "param" else norm_stmt(d, 40) for d in defs))
            if defs and all(d != "param" and _is_coercion(d) for d in defs):
                I.bad(f, st, "isinstance(%s, torch.Tensor) is evaluated after `%s` was coerced with torch.as_tensor: it is always true, so "
                      "limits given as python numbers are treated as tensor inputs (and receive a gradient autograd rejects)" % (v, v), what=what)
            else:
                I.ok(f.fq, what)
    return n


def _count_like(e) -> bool:
    if isinstance(e, ast.Call):
        nm = ast.unparse(e.func)
        return nm == "len" or nm.split(".")[-1] in ("ntensors", "nnontensors", "numel")
    return False


def negative_count_slicing(model: Model, Z: RuleResult):
    """seq[-n:], seq[:-n], slice(-n, ..) where every definition of n is a count (len(..), .ntensors()) and no
    enclosing conditional tests n"""
    n_inst = 0
    for f in model.all_functions():
        defs = None
        for s in own_nodes(f.node):
            negs = []
            if isinstance(s, ast.Subscript) and isinstance(s.slice, ast.Slice):
                for part in (s.slice.lower, s.slice.upper):
                    if isinstance(part, ast.UnaryOp) and isinstance(part.op, ast.USub) and isinstance(part.operand, ast.Name):
                        negs.append(part.operand.id)
            elif isinstance(s, ast.Call) and isinstance(s.func, ast.Name) and s.func.id == "slice":
                for part in s.args:
                    if isinstance(part, ast.UnaryOp) and isinstance(part.op, ast.USub) and isinstance(part.operand, ast.Name):
                        negs.append(part.operand.id)
            for nm in negs:
                if defs is None:
                    defs = function_defs(f.node)
                ds = defs.get(nm, [])
                if not ds or not all(_count_like(d) for d in ds):
                    continue
                n_inst += 1
                guarded = False
                for a in ancestors(s):
                    if a is f.node:
                        break
                    if isinstance(a, (ast.IfExp, ast.If)) and nm in names_loaded(a.test):
                        guarded = True
                what = "`%s` in %s with count `%s`" % (norm_stmt(s, 60), f.qualname, nm)
                if guarded:
                    Z.ok(f.fq, what + " is guarded by a test of the count")
                else:
                    Z.bad(f, enclosing_stmt(s), "negative slicing by the count `%s`, which can be 0: `x[-0:]` is the whole sequence and "
                          "`x[:-0]` is empty (the sibling code in solve_ivp guards the same hazard)" % nm, what=what)
    if n_inst == 0:
        Z.ok("xitorch", "no sequence is sliced by a negated count anywhere in the package (the hazard is absent)")
    return n_inst


def _limits_roundtrip(fc, L: RuleResult):
    """The limits survive forward -> backward for each of the four combinations (xl tensor?, xu tensor?): forward splits them into
    the saved tensors and a context attribute, backward must re-assemble exactly (xl, xu).  Decided by abstract evaluation of the
    pack / unpack statements on symbolic limits (domains/dictsem.py), so every spelling of the split and of the re-assembly - an
    if/elif chain, conditional expressions, iterators consumed in order - is accepted, and any that swaps or drops a limit is
    reported with the combination for which it does."""
    from ..domains.dictsem import DictInterp, Unsupported, Raised
    fw, bw = fc.forward, fc.backward
    c_f, c_b = fc.ctx, fc.bctx
    # forward: statements that (transitively) feed save_for_backward or a ctx attribute and mention only xl / xu / the flags
    save = [c for c in own_nodes(fw.node) if isinstance(c, ast.Call) and ast.unparse(c.func) == "%s.save_for_backward" % c_f]
    if len(save) != 1:
        L.undecided(fw, fw.node, "cannot find the single save_for_backward call of forward")
        return
    # forward: every statement is offered to the abstract interpreter, in order (`with` bodies flattened); what it cannot interpret is
    # skipped and the names it would have bound become unknown - except the tensor conversion of a limit, which keeps its identity
    def flat(stmts):
        for st in stmts:
            if isinstance(st, ast.With):
                yield from flat(st.body)
            elif not isinstance(st, (ast.FunctionDef, ast.ClassDef, ast.Return)):
                yield st
    fstmts = list(flat(fw.node.body))
    bstmts = [st for st in _unpack_statements(bw, c_b)]
    if not fstmts or not bstmts:
        L.undecided(bw, bw.node, "cannot find the pack (forward) / unpack (backward) of the tensor limits")
        return

    def run_forward(xlT, xuT):
        """final abstract environments of forward (one per outcome of the tests the interpreter cannot decide, e.g. `if _isinf(..)`).
        A statement outside the vocabulary binds its targets to opaque values that are *different* from the limits (so a limit that
        is transformed before it is stored no longer counts as the caller's limit); the tensor conversion of a limit keeps its identity."""
        from ..domains.dictsem import Tok, _Return
        import copy as _copy

        def opaque(st, env):
            if isinstance(st, (ast.If, ast.For, ast.While, ast.Try, ast.With)):
                stored = {n.id for n in ast.walk(st) if isinstance(n, ast.Name) and isinstance(n.ctx, ast.Store)}
                stored |= {ast.unparse(n) for n in ast.walk(st) if isinstance(n, ast.Attribute) and isinstance(n.ctx, ast.Store)}
            else:
                tg = list(getattr(st, "targets", [])) + ([st.target] if isinstance(st, (ast.AugAssign, ast.AnnAssign)) else [])
                stored = {n.id for t in tg for n in ast.walk(t) if isinstance(n, ast.Name)} | {ast.unparse(t) for t in tg if isinstance(t, ast.Attribute)}
            for nm in stored:
                conv = isinstance(st, ast.Assign) and isinstance(st.value, ast.Call) and ast.unparse(st.value.func) in ("torch.as_tensor", "torch.tensor") \
                    and st.value.args and ast.unparse(st.value.args[0]) == nm and nm in ("xl", "xu")
                if not conv:
                    env[nm] = Tok("<%s after `%s`>" % (nm, norm_stmt(st, 40)))

        def run_block(stmts, envs, depth=0):
            for st in stmts:
                nxt = []
                for env in envs:
                    it = DictInterp(env)
                    if isinstance(st, ast.If) and depth < 3:
                        try:
                            tv = it.truth(st.test)
                            nxt.extend(run_block(st.body if tv else st.orelse, [it.env], depth + 1))
                        except (Unsupported, Raised, TypeError, AttributeError):
                            # undecidable test: both arms are possible
                            for arm in (st.body, st.orelse):
                                nxt.extend(run_block(arm, [_copy.copy(env)], depth + 1))
                        continue
                    try:
                        it.run([st])
                        nxt.append(it.env)
                    except (Unsupported, Raised, _Return, TypeError, AttributeError, KeyError, IndexError):
                        e2 = dict(it.env)
                        opaque(st, e2)
                        nxt.append(e2)
                envs = nxt[:8]
            return envs
        return run_block(fstmts, [{"xl": Tok("XL", is_tensor=xlT), "xu": Tok("XU", is_tensor=xuT)}])
    bad = None
    for xlT in (True, False):
        for xuT in (True, False):
            try:
                finals = run_forward(xlT, xuT)
            except Unsupported as e:
                L.undecided(bw, bw.node, "cannot interpret the pack / unpack of the limits (%s)" % e)
                return
            for fenv in finals:
                try:
                    saved_first = None
                    for a in save[0].args:
                        if isinstance(a, ast.Starred) and isinstance(a.value, ast.Name) and isinstance(fenv.get(a.value.id), (list, tuple)):
                            saved_first = list(fenv[a.value.id])
                            break
                    if saved_first is None:
                        raise Unsupported("the list of limits handed to save_for_backward")
                    ctx_attrs = {k.replace(c_f + ".", c_b + ".", 1): v for k, v in fenv.items() if k.startswith(c_f + ".")}
                    env = dict(ctx_attrs)
                    env["%s.saved_tensors" % c_b] = tuple(saved_first + ["P1", "P2"])
                    env["%s.param_sep.ntensors()" % c_b] = 2
                    bi_ = _BackInterp(env, c_b)
                    bi_.run(bstmts)
                    got = (bi_.env.get("xl"), bi_.env.get("xu"))
                except Unsupported as e:
                    L.undecided(bw, bw.node, "cannot interpret the pack / unpack of the limits (%s)" % e)
                    return
                except Raised as e:
                    got = ("raises %s" % e, None)
                names_ = tuple(getattr(g_, "name", g_) for g_ in got)
                if names_ != ("XL", "XU") and bad is None:
                    bad = (xlT, xuT, names_)
    if bad is None:
        L.ok(bw.fq, "the limits are re-assembled as (xl, xu) for all four tensor / non-tensor combinations (abstract evaluation of pack and unpack)")
    else:
        L.bad(bw, bstmts[0], "with xl %s and xu %s backward re-assembles the limits as %s instead of (xl, xu): the boundary terms and the backward "
              "integral use the wrong interval" % ("a tensor" if bad[0] else "a number", "a tensor" if bad[1] else "a number", (bad[2],)))


class _BackInterp:
    """DictInterp with `ctx.param_sep.ntensors()`-style calls looked up by their text"""
    def __init__(self, env, ctxname):
        from ..domains.dictsem import DictInterp
        outer = self

        class _I(DictInterp):
            def call(self, c):
                t = ast.unparse(c)
                if t in self.env:
                    return self.env[t]
                return super().call(c)
        self._i = _I(env)
        self.env = self._i.env

    def run(self, stmts):
        self._i.run(stmts)
        self.env = self._i.env


def _unpack_statements(bw, c_b):
    """the statements of backward that produce xl and xu: backward slice on names from the definitions of xl / xu, restricted to
    statements that involve the context, the saved tensors or already relevant names"""
    stmts = [st for st in bw.node.body]
    # flatten one level of `with` blocks (the limits are restored inside `with fcn.disable_state_change()`)
    flat = []
    for st in stmts:
        flat.append(st)
        if isinstance(st, ast.With):
            flat.extend(st.body)
    need = {"xl", "xu"}
    chosen = []
    for st in reversed(flat):
        if isinstance(st, ast.With):
            continue
        stores = {n.id for n in ast.walk(st) if isinstance(n, ast.Name) and isinstance(n.ctx, ast.Store)}
        if stores & need and not any(isinstance(x, (ast.FunctionDef, ast.Return)) for x in ast.walk(st)):
            calls = [ast.unparse(c.func) for c in ast.walk(st) if isinstance(c, ast.Call)]
            if any(cn.split(".")[-1] in ("dot", "quad", "reconstruct_params", "grad") or cn in ("fcn",) for cn in calls):
                continue
            chosen.append(st)
            need |= {n.id for n in ast.walk(st) if isinstance(n, ast.Name) and isinstance(n.ctx, ast.Load)}
    return list(reversed(chosen))


# -------------------------------------------------------------------------------------------------
def _leibniz(fc, L: RuleResult):
    fw, bw = fc.forward, fc.backward
    bdefs = function_defs(bw.node)
    cot = bw.params()[1]
    ixl, ixu = fc.fixed.index("xl"), fc.fixed.index("xu")
    rets = [r for r in ac.own_returns(bw) if isinstance(r.value, ast.Tuple)]
    if not rets:
        raise AnalysisError("_Quadrature.backward returns no tuple")
    for r in rets:
        for idx, lim, want in ((ixl, "xl", -1), (ixu, "xu", +1)):
            e = r.value.elts[idx]
            if not isinstance(e, ast.Name):
                L.bad(bw, r, "gradient slot of %s is not a plain name" % lim)
                continue
            ds = bdefs.get(e.id, [])
            # two spellings of the gate: `<term> if ctx.<lim>tensor else None`, or `g = None` followed by `if ctx.<lim>tensor: g = <term>`
            class _D:
                pass
            d = None
            if len(ds) == 1 and isinstance(ds[0], ast.IfExp):
                d = ds[0]
            elif len(ds) == 2 and sum(1 for x in ds if isinstance(x, ast.Constant) and x.value is None) == 1:
                term = [x for x in ds if not (isinstance(x, ast.Constant) and x.value is None)][0]
                from ..model import effective_conditions
                conds = effective_conditions(term)
                gates = [t_ for t_, v_ in conds if v_ and t_.endswith("%stensor" % lim)]
                if gates:
                    d = _D()
                    d.body, d.test, d.orelse = term, ast.parse(gates[0], mode="eval").body, ast.Constant(value=None)
                    d.lineno = getattr(term, "lineno", 0)
                    d._stmt = enclosing_stmt(term)
            if d is None:
                L.bad(bw, r, "gradient of %s must be `<term> if ctx.%stensor else None`" % (lim, lim))
                continue
            gate = ast.unparse(d.test)
            gate_ok = gate == "%s.%stensor" % (fc.bctx, lim) and isinstance(d.orelse, ast.Constant) and d.orelse.value is None
            sign = expr_sign(d.body, bdefs)
            # the integrand evaluated at the right limit
            # the term together with the definitions of the local names it reads (`fxl = fcn(xl, ..).reshape(-1)` on its own line)
            closure = []
            seen_n = set()
            work = [d.body]
            while work:
                x_ = work.pop()
                closure.append(x_)
                for n_ in ast.walk(x_):
                    if isinstance(n_, ast.Name) and isinstance(n_.ctx, ast.Load) and n_.id not in seen_n and n_.id not in (lim, cot):
                        seen_n.add(n_.id)
                        work.extend(v_ for v_ in bdefs.get(n_.id, []) if isinstance(v_, ast.AST))
            evals = [c for x_ in closure for c in ast.walk(x_) if isinstance(c, ast.Call) and isinstance(c.func, ast.Name)
                     and c.func.id in _fcn_names(fc) and c.args]
            ats = {c.args[0].id if isinstance(c.args[0], ast.Name) else None for c in evals}
            at = next(iter(ats)) if len(ats) == 1 else (None if not ats else "/".join(sorted(str(a_) for a_ in ats)))
            uses_cot = any(cot in names_loaded(x_) for x_ in closure)
            what = "grad_%s = %s%s(%s,..).grad_ys if %s else None" % (lim, "-" if sign < 0 else "+", "f", at, gate)
            if gate_ok and sign == want and at == lim and uses_cot:
                L.ok(bw.fq, what)
            else:
                L.bad(bw, getattr(d, "_stmt", None) or enclosing_stmt(d), "Leibniz term of %s must be %s f(%s) . grad, gated by ctx.%stensor (got sign %+d at `%s`, gate `%s`)"
                      % (lim, "-" if want < 0 else "+", lim, lim, sign, at, gate), what=what)
    # forward records the flags before coercion and packs [xl] + [xu]
    fdefs = function_defs(fw.node)
    for lim in ("xl", "xu"):
        found = [s for s in own_nodes(fw.node) if isinstance(s, ast.Assign) and isinstance(s.targets[0], ast.Attribute)
                 and s.targets[0].attr == lim + "tensor"]
        if len(found) == 1 and ast.unparse(found[0].value) == "isinstance(%s, torch.Tensor)" % lim:
            L.ok(fw.fq, "forward records ctx.%stensor = isinstance(%s, torch.Tensor)" % (lim, lim))
        else:
            L.bad(fw, found[0] if found else fw.node, "forward must record whether %s is a tensor input" % lim)
    _limits_roundtrip(fc, L)


def _fcn_names(fc) -> set:
    bw = fc.backward
    out = set()
    for s in own_nodes(bw.node):
        if isinstance(s, ast.Assign) and isinstance(s.targets[0], ast.Name) and ast.unparse(s.value) == "%s.fcn" % fc.bctx:
            out.add(s.targets[0].id)
    return out
