"""C12 -- quad applies an exact n-point Gauss-Legendre rule on the requested interval (structural part)."""
from __future__ import annotations
import ast
from typing import List, Dict, Optional
from ..model import Model, FuncInfo, own_nodes, norm_stmt, AnalysisError, AnchorError, enclosing_stmt, ancestors
from ..report import RuleResult
from ..flow import function_defs, names_loaded
from ..callgraph import dict_literal_entries
from ..domains.poly import Rat, Poly, C, S, Uninterpretable, eval_expr
from ..domains.fragment import Frag, Arr, ListVal, Tup, Opaque

PROP = "C12"
LEVEL = "other"
EXPLANATION = (
    "Decided from the source, for every n, interval and integrand at once: (A) leggauss maps numpy's n Gauss-Legendre nodes X and "
    "weights W affinely, nodes == X*(xu-xl)/2 + (xu+xl)/2 and weights == W*(xu-xl)/2 (polynomial normal form of the statements that "
    "define them), and the n handed to numpy is the caller's n option; (I) the result is sum_{i=0}^{n-1} w_i f(x_i): every index 0..n-1 "
    "exactly once, weight and node carry the same index, the extra parameters are forwarded (loop summarised, not unrolled); (S) for an "
    "infinite limit the integrand becomes f(g(t)) * g'(t) with both evaluated at the same t, both limits go through g^-1, and the triple "
    "(g, g', g^-1) of the transform class is consistent (tan, 1/cos^2, atan - decided as a rational identity in cos t, sin t); finite "
    "limits use the integrand and limits unchanged; (N) both limits are converted with torch.as_tensor(dtype, device of the integrand) "
    "before any use, so numbers and one-element tensors take the same path; (P) tuple-valued integrands are flattened and the result "
    "unflattened with the same packer; (M) the rule is reached through the dispatch table with the caller's options. Exactness for "
    "degree <= 2n-1, linearity, sign change under swapped limits and additivity then follow from Gauss-Legendre theory (numpy's nodes "
    "and weights are trusted). NOT decided: accuracy for decaying integrands on infinite ranges.")
ASSUMPTIONS = ["np.polynomial.legendre.leggauss(n) returns the n-point Gauss-Legendre nodes and weights on [-1, 1]",
               "indexing with (..., None, ...) and torch.tensor(...) preserve values (broadcast only)",
               "limits are one-element tensors (asserted by quad), so they broadcast against the node axis"]

FQ = "xitorch/_impls/integrate/fixed_quad.py"
QUAD = "xitorch/integrate/quad.py"
MISC = "xitorch/_utils/misc.py"


def _dispatch(model: Model):
    fwd = model.func(QUAD, "_Quadrature.forward")
    defs = function_defs(fwd.node)
    out = {}
    callsite = None
    for c in ast.walk(fwd.node):
        if isinstance(c, ast.Call) and ast.unparse(c.func) == "get_method" and len(c.args) >= 2:
            t = c.args[1]
            if isinstance(t, ast.Name) and len(defs.get(t.id, [])) == 1:
                t = defs[t.id][0]
            elif isinstance(t, ast.Name) and t.id not in defs and isinstance(fwd.module.const(t.id), ast.AST):
                t = fwd.module.const(t.id)              # a module-level table
            for k, v in dict_literal_entries(t) or []:
                if isinstance(k, ast.Constant):
                    r = model.resolve_expr(fwd.module, v)
                    if r and r[0] == "func":
                        out[k.value] = r[1]
            callsite = c
    if not out:
        raise AnchorError("dispatch table of _Quadrature.forward not found")
    return fwd, out, callsite


class _LegModel:
    ARRS = ("X", "W")

    sign = 1            # scenario: sign of xu - xl (both are decided when the implementation takes an absolute value of it)
    abs_seen = False

    def __init__(self, fi: FuncInfo, n_value: Optional[int] = None, n_name: Optional[str] = None):
        self.fi = fi
        P = fi.params()
        if len(P) < 4:
            raise AnchorError("leggauss no longer has the (fcn, xl, xu, params, n=...) signature")
        self.p_fcn, self.p_xl, self.p_xu, self.p_params = P[:4]
        self.np_arg = None
        self.calls = []
        fr = self.fr = Frag(fi.module.source, on_call=self._call, on_attr=self._attr, on_subscript=self._sub, specialise=n_value is not None)
        # the node / weight arrays (and everything derived from them element-wise) have as many entries as numpy was asked for
        fr.on_len = lambda f_, e_: (self.np_arg if self.np_arg is not None and self._whole(self._try_ev(f_, e_)) is not None else None)
        fr.env[self.p_xl] = S("xl")
        fr.env[self.p_xu] = S("xu")
        fr.env[self.p_params] = Opaque("params")
        for k in P[4:] + fi.kwonly():
            fr.env[k] = S(k)
        if n_value is not None:
            fr.env[n_name] = C(n_value)
        r = fr.run(fi.node.body)
        self.ret = r[1] if r else None

    @staticmethod
    def _try_ev(fr, e):
        try:
            return fr.ev(e)
        except Uninterpretable:
            return None

    def _attr(self, fr, e):
        if isinstance(e.value, ast.Name) and e.value.id in (self.p_xl, self.p_xu) and e.attr in ("dtype", "device", "shape", "ndim"):
            return Opaque("%s.%s" % (e.value.id, e.attr))
        return None

    def _whole(self, v) -> Optional[Rat]:
        """array-valued expression: a normal form over the whole-array symbols X, W and scalars"""
        if isinstance(v, Arr) and not v.idx and v.base in self.ARRS:
            return S(v.base)
        if isinstance(v, Rat):
            return v
        return None

    def _sub(self, fr, e: ast.Subscript):
        src = ast.unparse(e.slice).replace(" ", "")
        base = fr.ev(e.value)
        w = self._whole(base)
        if w is None:
            return None
        if src.startswith("(...,)+(None,)*") or src in ("(...,None)", "...", "(...,)"):
            return w        # trailing broadcast axes only
        if isinstance(e.slice, (ast.Slice, ast.Tuple)):
            raise Uninterpretable("slice of the node/weight arrays: %s" % ast.unparse(e))
        idx = fr.num(fr.ev(e.slice), "index")
        out = w
        for a in self.ARRS:
            if a in out.symbols():
                out = out.subs(a, fr.atom(a, (idx,)))
        return out

    def _call(self, fr, c: ast.Call):
        fn = ast.unparse(c.func)
        if fn.endswith("legendre.leggauss") or fn.endswith(".leggauss") and fn.startswith(("np.", "numpy.")):
            if len(c.args) != 1:
                raise Uninterpretable("numpy leggauss call %s" % ast.unparse(c))
            try:
                self.np_arg = fr.num(fr.ev(c.args[0]))
            except Uninterpretable:
                self.np_arg = S("<%s>" % ast.unparse(c.args[0]))
            return Tup([Arr("X"), Arr("W")])
        if fn in ("torch.tensor", "torch.as_tensor", "torch.from_numpy") and c.args:
            v = fr.ev(c.args[0])
            if self._whole(v) is not None:
                return v
        if fn == "len":
            return Opaque("len")
        absarg = c.args[0] if fn in ("torch.abs", "abs", "torch.absolute") and len(c.args) == 1 else \
            (c.func.value if isinstance(c.func, ast.Attribute) and c.func.attr in ("abs", "absolute") and not c.args and fn not in ("torch.abs",) else None)
        if absarg is not None:
            # |k (xu - xl)| under the scenario sign(xu - xl) = self.sign: decided for both orientations of the interval
            v = fr.ev(absarg)
            d = S("xu") - S("xl")
            if isinstance(v, Rat):
                k = v.subs("xu", C(1)).subs("xl", C(0))
                if not k.symbols() and v.eq(k * d) and not k.eq(C(0)):
                    _LegModel.abs_seen = True
                    pos = _rat_sign(k) > 0
                    return v if (self.sign > 0) == pos else -v
            raise Uninterpretable("absolute value of %s" % ast.unparse(absarg))
        if isinstance(c.func, ast.Attribute) and c.func.attr in ("reshape", "view", "contiguous", "to", "clone"):
            # a reshape of the node / weight array keeps the order of its entries (row-major): layout only
            base = fr.ev(c.func.value)
            if self._whole(base) is not None and isinstance(base, Arr):
                return base
        if isinstance(c.func, ast.Name) and c.func.id == self.p_fcn:
            if not c.args or isinstance(c.args[0], ast.Starred):
                raise Uninterpretable("integrand call %s" % ast.unparse(c))
            x = fr.num(fr.ev(c.args[0]), "abscissa")
            rest = [ast.unparse(a) for a in c.args[1:]] + ["%s=%s" % (k.arg, ast.unparse(k.value)) for k in c.keywords]
            self.calls.append((c, tuple(fr.loop_syms), x, rest))
            return fr.atom("F", (x,))
        return None


def _rat_sign(k: Rat) -> int:
    """sign of a constant rational normal form"""
    txt = repr(k).strip()
    return -1 if txt.startswith("-") else 1


def _specialised(model: Model, A: RuleResult, I: RuleResult, impl: FuncInfo, why: str, tier: str):
    """Fallback when the accumulation is not a single counted loop: partial evaluation of the *index arithmetic* for concrete
    n (constant folding of n // 2, n % 2, n > 1, unrolling of loops with constant bounds).  Nothing is executed; the integrand,
    nodes and weights stay uninterpreted atoms.  A failing n is a violation; success is a bounded claim (n <= N)."""
    probe = _LegModelProbe(impl)
    nname = probe
    N = 12 if tier == "quick" else 40
    half = (S("xu") - S("xl")) / C(2)
    mid = (S("xu") + S("xl")) / C(2)
    okn = []
    for n in range(1, N + 1):
        try:
            lm = _LegModel(impl, n_value=n, n_name=nname)
        except Uninterpretable as e:
            raise AnalysisError("C12-A/I cannot interpret %s symbolically (%s) nor specialised at n=%d (%s)" % (impl.fq, why, n, e))
        fr = lm.fr
        if lm.np_arg is None or not lm.np_arg.eq(C(n)):
            A.bad(impl, impl.node, "the n handed to numpy's leggauss is %r when the caller asks for n=%d" % (lm.np_arg, n))
            return
        exp = C(0)
        for i in range(n):
            exp = exp + fr.atom("W", (C(i),)) * half * fr.atom("F", (fr.atom("X", (C(i),)) * half + mid,))
        if not (isinstance(lm.ret, Rat) and lm.ret.eq(exp)):
            # diagnose: which indices are evaluated
            seen = sorted(repr(fr.atoms[a][1][0]) for a in fr._deep_symbols(fr, lm.ret) if a in fr.atoms and fr.atoms[a][0] == "X") if isinstance(lm.ret, Rat) else []
            I.bad(impl, impl.node, "for n=%d the result is not sum_{i<n} W[i]*(xu-xl)/2 * f(X[i]*(xu-xl)/2 + (xu+xl)/2): nodes evaluated %s of 0..%d "
                  "(index arithmetic specialised at this n; integrand uninterpreted)" % (n, seen, n - 1), what="n=%d" % n)
            return
        badp = [c for (c, syms, x, rest) in lm.calls if rest != ["*" + lm.p_params]]
        if badp:
            I.bad(impl, enclosing_stmt(badp[0]), "the integrand is not called with the extra parameters *%s" % lm.p_params)
            return
        okn.append(n)
    A.ok(impl.fq, "nodes X[i]*(xu-xl)/2 + (xu+xl)/2 and weights W[i]*(xu-xl)/2 for every n in 1..%d (specialised)" % N)
    A.ok(impl.fq, "numpy is asked for exactly n nodes for every n in 1..%d" % N)
    A.ok(impl.fq, "bounded claim only: the accumulation is not a single counted loop (%s)" % why)
    I.ok(impl.fq, "every index 0..n-1 exactly once with matching weight, for every n in 1..%d (index arithmetic specialised, not executed)" % N)
    I.ok(impl.fq, "weight and node carry the same index in every term, n in 1..%d" % N)
    I.ok(impl.fq, "parameters forwarded at every evaluation, n in 1..%d" % N)
    I.note("C12-I decided by specialisation for n <= %d only: %s" % (N, why))


def _LegModelProbe(impl: FuncInfo) -> str:
    """name of the option that is handed to numpy's leggauss"""
    for c in ast.walk(impl.node):
        if isinstance(c, ast.Call) and ast.unparse(c.func).endswith("leggauss") and c.args:
            names = [n.id for n in ast.walk(c.args[0]) if isinstance(n, ast.Name)]
            cands = [n for n in names if n in impl.params()[4:] + impl.kwonly()]
            if cands:
                return cands[0]
    return "n"


def _affine_and_sum(model: Model, A: RuleResult, I: RuleResult, impl: FuncInfo, tier: str = "quick"):
    try:
        lm = _LegModel(impl)
        if not isinstance(lm.ret, Rat):
            raise Uninterpretable("the returned value is not a single arithmetic accumulation (conditional or restructured)")
        if len([s for s in lm.ret.symbols() if s in lm.fr.sums]) != 1:
            raise Uninterpretable("the accumulation is not a single counted loop")
    except Uninterpretable as e:
        return _specialised(model, A, I, impl, str(e), tier)
    fr, fi = lm.fr, lm.fi
    if lm.np_arg is None:
        raise AnalysisError("C12-A: no call of numpy's leggauss found in %s" % fi.fq)
    npar = [p for p in fi.params()[4:] + fi.kwonly()]
    if len(lm.np_arg.symbols()) == 1 and list(lm.np_arg.symbols())[0] in npar and lm.np_arg.eq(S(list(lm.np_arg.symbols())[0])):
        nname = list(lm.np_arg.symbols())[0]
        A.ok(fi.fq, "the number of nodes requested from numpy is the option `%s` itself" % nname)
    else:
        A.bad(fi, fi.node, "the n handed to numpy's leggauss is %r, not the caller's n option" % lm.np_arg)
        nname = "n"
    half = (S("xu") - S("xl")) / C(2)
    mid = (S("xu") + S("xl")) / C(2)

    def node(i):
        return fr.atom("X", (i,)) * half + mid

    def weight(i):
        return fr.atom("W", (i,)) * half

    res = lm.ret
    if not isinstance(res, Rat):
        raise AnalysisError("C12-I: leggauss does not return an arithmetic accumulation")
    sums = [s for s in res.symbols() if s in fr.sums]
    if len(sums) != 1:
        raise AnalysisError("C12-I: the accumulation is not a single counted loop (vectorised or restructured): %r" % res)
    ssym, lo, hi, step, term = fr.sums[sums[0]]
    # ---- nodes and weights of the general term
    et = weight(S(ssym)) * fr.atom("F", (node(S(ssym)),))
    loopnode = [l for l in fr.loops if l[1] == ssym][0][0]
    # split the term: it must be w * F[x]
    fsyms = [s for s in term.symbols() if s in fr.atoms and fr.atoms[s][0] == "F"]
    if len(fsyms) != 1:
        I.bad(fi, loopnode, "each accumulated term must contain exactly one integrand evaluation")
        return
    xarg = fr.atoms[fsyms[0]][1][0]
    wpart = term.subs(fsyms[0], C(1))
    linear = term.eq(wpart * S(fsyms[0]))
    mirrored = (C(0) - fr.atom("X", (S(ssym),))) * half + mid
    if xarg.eq(node(S(ssym))):
        A.ok(fi.fq, "node i == X[i]*(xu-xl)/2 + (xu+xl)/2")
    elif xarg.eq(mirrored):
        # the Gauss-Legendre rule is symmetric (X[n-1-i] = -X[i], W[n-1-i] = W[i]): the mirrored nodes with the same weights are the same rule
        A.ok(fi.fq, "node i == -X[i]*(xu-xl)/2 + (xu+xl)/2 (the mirrored node set: same rule by the symmetry of Gauss-Legendre nodes and weights)")
    else:
        A.bad(fi, loopnode, "the abscissa is not the affine image of the Legendre node: normal form %r, expected %r" % (xarg, node(S(ssym))))
    if linear and wpart.eq(weight(S(ssym))):
        A.ok(fi.fq, "weight i == W[i]*(xu-xl)/2")
    else:
        A.bad(fi, loopnode, "the weight is not W[i]*(xu-xl)/2: normal form %r, expected %r" % (wpart, weight(S(ssym))))
    # same index on weight and node
    def idx_of(val, base):
        out = set()
        for s in fr._deep_symbols(fr, val):
            if s in fr.atoms and fr.atoms[s][0] == base:
                out.add(repr(fr.atoms[s][1][0]))
        return out
    wi, xi = idx_of(wpart, "W"), idx_of(xarg, "X")
    if wi == xi and len(wi) == 1 and not idx_of(wpart, "X") and not idx_of(xarg, "W"):
        I.ok(fi.fq, "weight and node of a term carry the same index %s" % sorted(wi))
    else:
        I.bad(fi, loopnode, "weight index %s and node index %s differ (or nodes/weights are mixed up)" % (sorted(wi), sorted(xi)))
    # ---- index coverage: result == sum_{k<lo} T(k) + SUM[lo, n)
    okcov = False
    why = ""
    if step.eq(C(1)) and hi.eq(S(nname)) and not lo.symbols() and lo.d == Poly.const(1):
        k0 = lo.n.t.get((), 0)
        if k0.denominator == 1 and 0 <= int(k0) <= 4:
            head = C(0)
            for k in range(int(k0)):
                head = head + fr.subst(term, ssym, C(k))
            okcov = (res - S(sums[0])).eq(head)
            why = "peeled terms are %r, expected %r" % (res - S(sums[0]), head)
        else:
            why = "loop starts at %r" % lo
    else:
        why = "loop range is range(%r, %r, %r)" % (lo, hi, step)
    if okcov:
        I.ok(fi.fq, "index set is exactly {0..n-1}: %d peeled term(s) + range(%r, %s), each index once" % (int(k0), lo, nname))
    else:
        I.bad(fi, loopnode, "the terms do not cover every index 0..n-1 exactly once: %s" % why)
    # parameters forwarded at every evaluation
    badp = [c for (c, syms, x, rest) in lm.calls if rest != ["*" + lm.p_params]]
    if not badp and lm.calls:
        I.ok(fi.fq, "every one of the %d integrand call sites forwards *%s" % (len(lm.calls), lm.p_params))
    else:
        I.bad(fi, enclosing_stmt(badp[0]) if badp else fi.node, "the integrand is not called with the extra parameters *%s" % lm.p_params)
    return lm


# ------------------------------------------------------------------------------------------ substitution
def _reduce_trig(p: Poly) -> Poly:
    """rewrite with sin^2 = 1 - cos^2"""
    out = Poly()
    one_minus_c2 = Poly.const(1) - Poly.sym("c") * Poly.sym("c")
    for k, v in p.t.items():
        term = Poly.const(v)
        for s, e in k:
            if s == "s":
                for _ in range(e // 2):
                    term = term * one_minus_c2
                if e % 2:
                    term = term * Poly.sym("s")
            else:
                for _ in range(e):
                    term = term * Poly.sym(s)
        out = out + term
    return out


def _trig_eq(a: Rat, b: Rat) -> bool:
    return _reduce_trig(a.n * b.d - b.n * a.d).is_zero()


def _method_body_value(fi: FuncInfo, tsym="t"):
    """normal form of a transform method `def m(self, t): ... return expr` in cos t (c), sin t (s); returns (kind, value)"""
    arg = fi.params()[1]
    env: Dict[str, Rat] = {}
    kind = [None]

    def hook(e):
        if isinstance(e, ast.Name) and e.id == arg:
            return S("ARG")
        if isinstance(e, ast.Call):
            fn = ast.unparse(e.func)
            a = e.args[0] if e.args else (e.func.value if isinstance(e.func, ast.Attribute) else None)
            if isinstance(e.func, ast.Attribute) and not e.args and isinstance(e.func.value, ast.Name):
                a = e.func.value
                fn = "torch." + e.func.attr
            isarg = isinstance(a, ast.Name) and a.id == arg
            if isarg and fn in ("torch.cos", "math.cos", "np.cos"):
                return S("c")
            if isarg and fn in ("torch.sin", "math.sin", "np.sin"):
                return S("s")
            if isarg and fn in ("torch.tan", "math.tan", "np.tan"):
                return S("s") / S("c")
            if isarg and fn in ("torch.atan", "torch.arctan", "math.atan", "np.arctan"):
                return S("ATAN")
            # algebraic wrappers: reciprocal, square, integer powers of a value this hook can already normalise
            if a is not None and fn in ("torch.reciprocal",) and len(e.args) <= 1:
                return C(1) / eval_expr(a, env, hook, fi.module.source)
            if a is not None and fn in ("torch.square",) and len(e.args) <= 1:
                v_ = eval_expr(a, env, hook, fi.module.source)
                return v_ * v_
            if fn in ("torch.pow",) and len(e.args) == 2 and isinstance(e.args[1], ast.Constant) and isinstance(e.args[1].value, (int, float)) \
                    and float(e.args[1].value).is_integer() and abs(e.args[1].value) <= 6:
                v_ = eval_expr(e.args[0], env, hook, fi.module.source)
                k_ = int(e.args[1].value)
                out_ = C(1)
                for _ in range(abs(k_)):
                    out_ = out_ * v_
                return out_ if k_ >= 0 else C(1) / out_
        return None
    val = None
    for s in fi.node.body:
        if isinstance(s, ast.Assign) and isinstance(s.targets[0], ast.Name):
            env[s.targets[0].id] = eval_expr(s.value, env, hook, fi.module.source)
        elif isinstance(s, ast.Return):
            val = eval_expr(s.value, env, hook, fi.module.source)
        elif isinstance(s, ast.Expr) and isinstance(s.value, ast.Constant):
            continue
        else:
            raise Uninterpretable("statement %s in %s" % (type(s).__name__, fi.fq))
    if val is None:
        raise Uninterpretable("%s has no return" % fi.fq)
    return val


def _substitution(model: Model, Sr: RuleResult, N: RuleResult, fwd: FuncInfo, callsite: ast.Call):
    defs = function_defs(fwd.node)
    # the call of the implementation: method_fcn(fcn2, tl, tu, params, **config)
    impl_calls = []
    for c in ast.walk(fwd.node):
        if isinstance(c, ast.Call) and isinstance(c.func, ast.Name):
            d = defs.get(c.func.id, [])
            if len(d) == 1 and d[0] is callsite:
                impl_calls.append(c)
    if len(impl_calls) != 1 or len(impl_calls[0].args) < 4:
        raise AnalysisError("C12-S: the call of the dispatched quadrature rule was not found in _Quadrature.forward")
    ic = impl_calls[0]
    a_f, a_l, a_u, a_p = ic.args[:4]
    P = fwd.params()
    p_fcn, p_xl, p_xu = P[1], P[2], P[3]
    # the branch on infinite limits
    br = None
    for s in ast.walk(fwd.node):
        if isinstance(s, ast.If) and "_isinf" in ast.unparse(s.test):
            br = s
    if br is None:
        raise AnalysisError("C12-S: the branch on infinite limits was not found")
    tt = br.test
    tested = sorted(ast.unparse(c.args[0]) for c in ast.walk(tt) if isinstance(c, ast.Call) and ast.unparse(c.func) == "_isinf")
    if isinstance(tt, ast.BoolOp) and isinstance(tt.op, ast.Or) and tested == sorted([p_xl, p_xu]):
        Sr.ok(fwd.fq, "the substitution is used when either limit is infinite: `%s`" % norm_stmt(br))
    else:
        Sr.bad(fwd, br, "the change of variables must be applied when the lower OR the upper limit is infinite")
    isinf = model.func(QUAD, "_isinf")
    if "torch.isinf" in ast.unparse(isinf.node):
        Sr.ok(isinf.fq, "_isinf tests torch.isinf (both signs)")
    else:
        Sr.bad(isinf, isinf.node, "_isinf must detect +inf and -inf (torch.isinf)")

    def assigns(block):
        out = {}
        for s in block:
            if isinstance(s, ast.Assign) and isinstance(s.targets[0], ast.Name):
                out[s.targets[0].id] = s.value
            elif isinstance(s, ast.FunctionDef):
                out[s.name] = s
        return out
    B, O = assigns(br.body), assigns(br.orelse)
    # "default, then override under the test" is the same decision as if/else: a definition that precedes the `if` in its block is the
    # value on the path that skips the override
    from ..model import parent as _parent
    par_ = _parent(br)
    for fld_ in ("body", "orelse", "finalbody"):
        blk_ = getattr(par_, fld_, None)
        if isinstance(blk_, list) and any(x is br for x in blk_):
            before_ = assigns(blk_[:[i for i, x in enumerate(blk_) if x is br][0]])
            O = {**before_, **O}
    fn, ln, un = (a.id if isinstance(a, ast.Name) else None for a in (a_f, a_l, a_u))
    if None in (fn, ln, un) or not all(k in B and k in O for k in (fn, ln, un)):
        raise AnalysisError("C12-S: the integrand/limits handed to the rule are not defined in both branches of the infinite-limit test")
    # finite branch: unchanged
    if (isinstance(O[fn], ast.Name) and O[fn].id == p_fcn and isinstance(O[ln], ast.Name) and O[ln].id == p_xl
            and isinstance(O[un], ast.Name) and O[un].id == p_xu):
        Sr.ok(fwd.fq, "finite limits: integrand and limits are handed to the rule unchanged, lower first")
    else:
        Sr.bad(fwd, br.orelse[0] if br.orelse else br, "for finite limits the rule must receive (fcn, xl, xu) unchanged and in this order")
    # infinite branch
    tfm_names = [k for k, v in B.items() if isinstance(v, ast.Call) and not v.args and model.resolve_expr(fwd.module, v.func) and
                 model.resolve_expr(fwd.module, v.func)[0] == "class"]
    if len(tfm_names) != 1:
        raise AnalysisError("C12-S: the transform object was not found in the infinite-limit branch")
    tfm = tfm_names[0]
    tcls = model.resolve_expr(fwd.module, B[tfm].func)[1]
    f2 = B[fn]
    if not isinstance(f2, ast.FunctionDef):
        # the wrapper is built somewhere else (a method of the transform, a factory): nothing was shown to be wrong
        Sr.undecided(fwd, br, "cannot find the transformed integrand as a local function of the new variable (it is built by `%s`)" % ast.unparse(f2)[:60])
        return
    targ = f2.args.args[0].arg
    roles = {}

    def hook(e):
        if isinstance(e, ast.Name) and e.id == targ:
            return S("t")
        if isinstance(e, ast.Name) and e.id not in env:
            return S("<free:%s>" % e.id)
        if isinstance(e, ast.Call):
            f = e.func
            if isinstance(f, ast.Attribute) and isinstance(f.value, ast.Name) and f.value.id == tfm and len(e.args) == 1:
                a = eval_expr(e.args[0], env, hook)
                roles[f.attr] = roles.get(f.attr, 0) + 1
                return S("%s(%r)" % (f.attr.upper(), a))
            if isinstance(f, ast.Name) and f.id == p_fcn and e.args:
                a = eval_expr(e.args[0], env, hook)
                rest = [ast.unparse(x) for x in e.args[1:]]
                calls.append((a, rest))
                return S("F[%r]" % a)
        return None
    env: Dict[str, Rat] = {}
    calls = []
    val = None
    try:
        for s in f2.body:
            if isinstance(s, ast.Assign) and isinstance(s.targets[0], ast.Name):
                env[s.targets[0].id] = eval_expr(s.value, env, hook)
            elif isinstance(s, ast.Return):
                val = eval_expr(s.value, env, hook)
            elif isinstance(s, ast.Expr) and isinstance(s.value, ast.Constant):
                continue
            else:
                raise Uninterpretable("statement %s" % type(s).__name__)
    except Uninterpretable as e:
        raise AnalysisError("C12-S: cannot normalise the transformed integrand: %s" % e)
    f2fi = getattr(f2, "_funcinfo", None)
    vararg = f2.args.vararg.arg if f2.args.vararg else None
    if val is not None and val.eq(S("F[FORWARD(t)]") * S("DXDT(t)")) and calls and calls[0][1] == ["*" + (vararg or "")]:
        Sr.ok(f2fi.fq if f2fi else fwd.fq, "transformed integrand == f(g(t), *params) * g'(t) with g and g' evaluated at the same t")
    else:
        Sr.bad(f2fi or fwd, f2, "the transformed integrand must be f(tfm.forward(t), *params) * tfm.dxdt(t) at one and the same t: normal form %r" % (val,))
    decs = [ast.unparse(d) for d in f2.decorator_list]
    if "make_sibling(%s)" % p_fcn in decs:
        Sr.ok(fwd.fq, "the transformed integrand is declared a sibling of the integrand (its object parameters stay visible)")
    else:
        Sr.bad(fwd, f2, "the transformed integrand must be decorated with make_sibling(%s)" % p_fcn)

    def is_x2t(e, who):
        return (isinstance(e, ast.Call) and isinstance(e.func, ast.Attribute) and isinstance(e.func.value, ast.Name) and e.func.value.id == tfm
                and e.func.attr == "x2t" and len(e.args) == 1 and isinstance(e.args[0], ast.Name) and e.args[0].id == who)
    if is_x2t(B[ln], p_xl) and is_x2t(B[un], p_xu):
        Sr.ok(fwd.fq, "both limits are mapped with the inverse transform, lower to lower and upper to upper")
    else:
        Sr.bad(fwd, br, "both limits must be mapped through tfm.x2t (lower -> lower limit, upper -> upper limit); found `%s`, `%s`" % (ast.unparse(B[ln]), ast.unparse(B[un])))
    # consistency of the triple
    try:
        g = _method_body_value(tcls.find_method("forward"))
        dg = _method_body_value(tcls.find_method("dxdt"))
        gi = _method_body_value(tcls.find_method("x2t"))
    except (Uninterpretable, AttributeError) as e:
        raise AnalysisError("C12-S: cannot normalise the transform %s: %s" % (tcls.name, e))
    if g.eq(S("s") / S("c")) and gi.eq(S("ATAN")):
        if _trig_eq(dg, C(1) / (S("c") * S("c"))):
            Sr.ok(tcls.fq, "transform triple is consistent: g = tan t, g' == 1/cos^2 t (rational identity modulo sin^2+cos^2=1), g^-1 = atan")
        else:
            Sr.bad(tcls.find_method("dxdt"), tcls.find_method("dxdt").node, "dxdt is not the derivative of forward = tan t: normal form %r, expected 1/cos^2 t" % dg)
    else:
        raise AnalysisError("C12-S: transform %s is not in the table of known substitutions (forward=%r, x2t=%r)" % (tcls.name, g, gi))
    # the rule receives the caller's params
    if isinstance(a_p, ast.Name) and len(defs.get(a_p.id, [])) == 1 and ast.unparse(defs[a_p.id][0]).replace(" ", "") == "%s[:%s]" % (fwd.vararg(), P[6]):
        Sr.ok(fwd.fq, "the rule integrates with the explicit parameters `%s`" % ast.unparse(defs[a_p.id][0]))
    else:
        Sr.bad(fwd, enclosing_stmt(ic), "the explicit parameters handed to the rule must be all_params[:nparams]")
    # ---- C12-N: as_tensor conversion dominates the uses
    conv = {}
    order = []
    for s in ast.walk(fwd.node):
        if isinstance(s, ast.Assign) and isinstance(s.targets[0], ast.Name) and s.targets[0].id in (p_xl, p_xu) and isinstance(s.value, ast.Call):
            conv[s.targets[0].id] = s
    for who in (p_xl, p_xu):
        s = conv.get(who)
        ok = False
        if s is not None and ast.unparse(s.value.func) in ("torch.as_tensor", "torch.tensor") and s.value.args and ast.unparse(s.value.args[0]) == who:
            kw = {k.arg: ast.unparse(k.value) for k in s.value.keywords}
            from ..cfg import CFG, stmt_dominates
            cfg = CFG(fwd.node)
            dom = cfg.dominators(skip_exc=True)
            ok = kw.get("dtype") == P[7] and kw.get("device") == P[8] and stmt_dominates(cfg, dom, s, br) and stmt_dominates(cfg, dom, s, enclosing_stmt(ic))
        if ok:
            N.ok(fwd.fq, "`%s` before the infinite test and the rule" % norm_stmt(s))
        else:
            N.bad(fwd, s or fwd.node, "limit %s must be converted with torch.as_tensor(%s, dtype=dtype, device=device) on every path before it is used "
                  "(numbers and tensors of any dtype take the same path)" % (who, who))
    # the wrapper passes the integrand's dtype/device
    q = model.func(QUAD, "quad")
    qdefs = function_defs(q.node)
    ok_dt = True
    for nm in ("dtype", "device"):
        ds = [ast.unparse(d) for d in qdefs.get(nm, [])]
        if not ds or not all(d.endswith("." + nm) and d.startswith("out") for d in ds):
            ok_dt = False
    applies = [c for c in ast.walk(q.node) if isinstance(c, ast.Call) and ast.unparse(c.func).endswith("_Quadrature.apply")]
    for c in applies:
        args = [ast.unparse(a) for a in c.args]
        if len(args) < 8 or args[6] != "dtype" or args[7] != "device" or args[1] != q.params()[1] or args[2] != q.params()[2]:
            ok_dt = False
    if ok_dt and len(applies) == 2:
        N.ok(q.fq, "quad hands (xl, xu) in this order and the dtype/device of the integrand's own output to both apply sites")
    else:
        N.bad(q, q.node, "quad must pass xl, xu in order and the integrand's dtype/device to _Quadrature.apply")


def _tuple_out(model: Model, P: RuleResult):
    q = model.func(QUAD, "quad")
    defs = function_defs(q.node)
    def _is_pk(ds):
        real = [d for d in ds if not (isinstance(d, ast.Constant) and d.value is None)]      # `packer = None` in the arm that never uses it
        return len(real) == 1 and isinstance(real[0], ast.Call) and ast.unparse(real[0].func) == "TensorPacker"
    pk = [k for k, ds in defs.items() if _is_pk(ds)]
    defs = {k: ([d for d in ds if not (isinstance(d, ast.Constant) and d.value is None)] if k in pk else ds) for k, ds in defs.items()}
    if len(pk) != 1:
        raise AnalysisError("C12-P: TensorPacker construction not found in quad")
    pk = pk[0]
    arg = ast.unparse(defs[pk][0].args[0])
    outdef = defs.get(arg, [])
    fcnp, xlp = q.params()[0], q.params()[1]
    if len(outdef) == 1 and isinstance(outdef[0], ast.Call) and ast.unparse(outdef[0].func) == fcnp:
        P.ok(q.fq, "the packer is built from a probe evaluation of the integrand: `%s = %s`" % (arg, ast.unparse(outdef[0])))
    else:
        P.bad(q, enclosing_stmt(defs[pk][0]), "the packer must be built from the integrand's own (tuple) output")
    inner = [fi for fi in model.module(QUAD).functions.values() if fi.parent is q]
    w = [fi for fi in inner if (pk + ".flatten(") in ast.unparse(fi.node)]
    ok = False
    if len(w) == 1:
        fi = w[0]
        cdefs = function_defs(fi.node)
        rets = [r for r in own_nodes(fi.node) if isinstance(r, ast.Return)]
        rv = rets[-1].value if rets else None
        if isinstance(rv, ast.Call) and ast.unparse(rv.func) == pk + ".flatten":
            a = rv.args[0]
            while isinstance(a, ast.Name) and len(cdefs.get(a.id, [])) == 1:
                a = cdefs[a.id][0]
            ok = (isinstance(a, ast.Call) and ast.unparse(a.func) in (fcnp, "pfunc") and
                  [ast.unparse(x) for x in a.args] == [fi.params()[0], "*" + (fi.vararg() or "")])
    if ok:
        P.ok(w[0].fq, "the wrapped integrand returns packer.flatten(fcn(x, *params))")
    else:
        P.bad(w[0] if w else q, (w[0] if w else q).node, "the tuple wrapper must return packer.flatten(fcn(x, *params))")
    okr = False
    if w:
        # the block that defines the wrapper (an arm of an if, or the function body after a guard clause)
        for blk_owner in ast.walk(q.node):
            for fld in ("body", "orelse"):
                blk = getattr(blk_owner, fld, None)
                if isinstance(blk, list) and any(x is w[0].node for x in blk):
                    ap = [x for x in blk if isinstance(x, ast.Assign) and isinstance(x.value, ast.Call) and ast.unparse(x.value.func).endswith(".apply")]
                    rt = [x for x in blk if isinstance(x, ast.Return)]
                    if ap and rt:
                        rv = rt[-1].value
                        okr = (isinstance(ap[0].value.args[0], ast.Name) and ap[0].value.args[0].id == w[0].name and isinstance(rv, ast.Call)
                               and ast.unparse(rv.func) == pk + ".pack" and ast.unparse(rv.args[0]) == ast.unparse(ap[0].targets[0]))
                    elif rt and isinstance(rt[-1].value, ast.Call) and ast.unparse(rt[-1].value.func) == pk + ".pack" and rt[-1].value.args:
                        inner_call = rt[-1].value.args[0]
                        okr = isinstance(inner_call, ast.Call) and ast.unparse(inner_call.func).endswith(".apply") and inner_call.args \
                            and isinstance(inner_call.args[0], ast.Name) and inner_call.args[0].id == w[0].name
    if okr:
        P.ok(q.fq, "the flat integral of the wrapped integrand is unflattened with the same packer (component-wise integration)")
    else:
        P.bad(q, q.node, "tuple outputs: integrate the wrapper and pack the result with the same packer")


def rules(model: Model, tier: str) -> List[RuleResult]:
    A = RuleResult(PROP, "C12-A", "affine map of numpy's Gauss-Legendre nodes and weights (polynomial normal form)", min_instances=3)
    I = RuleResult(PROP, "C12-I", "result == sum_{i<n} w_i f(x_i): full index coverage, weight/node pairing, parameters forwarded", min_instances=3)
    Sr = RuleResult(PROP, "C12-S", "infinite limits: f(g(t)) g'(t) at one t, limits through g^-1, consistent (g, g', g^-1)", min_instances=8)
    N = RuleResult(PROP, "C12-N", "limits converted with as_tensor(dtype, device of the integrand) before use", min_instances=3)
    P = RuleResult(PROP, "C12-P", "tuple-valued integrands: flatten in the wrapper, pack the result, one packer; packer segments tile the flat vector, single-exit inverse pair", min_instances=5)
    M = RuleResult(PROP, "C12-M", "the rule is reached through the dispatch table with the caller's options", min_instances=2)
    fwd, table, callsite = _dispatch(model)
    if "leggauss" not in table:
        raise AnalysisError("C12-M: method 'leggauss' vanished from quad's dispatch table")
    impl = table["leggauss"]
    M.ok(fwd.fq, "'leggauss' -> %s" % impl.fq)
    defs = function_defs(fwd.node)
    # options: **config with config = fwd_options minus "method"
    ok_opt = False
    for c in ast.walk(fwd.node):
        if isinstance(c, ast.Call) and isinstance(c.func, ast.Name) and len(defs.get(c.func.id, [])) == 1 and defs[c.func.id][0] is callsite:
            stars = [k for k in c.keywords if k.arg is None]
            if len(stars) == 1 and isinstance(stars[0].value, ast.Name):
                d = defs.get(stars[0].value.id, [])
                ok_opt = len(d) == 1 and isinstance(d[0], ast.Name) and d[0].id == fwd.params()[4]
    if not ok_opt:
        # another spelling (a copy, a filtered comprehension, ..): decide on the abstract content of the splatted dictionary
        from ..rules import autograd as _ac
        for c in ast.walk(fwd.node):
            if isinstance(c, ast.Call) and isinstance(c.func, ast.Name) and len(defs.get(c.func.id, [])) == 1 and defs[c.func.id][0] is callsite \
                    and any(k.arg is None for k in c.keywords):
                try:
                    _env, snaps, (_fd, _bd, fwd0, _b0, _fp) = _ac.abstract_option_run(model, fwd, watch_calls=[c])
                except Exception:
                    snaps, fwd0 = {}, {}
                got = snaps.get(c)
                if got is not None:
                    ok_opt = {k_: v_ for k_, v_ in got.items() if k_ != "method"} == {k_: v_ for k_, v_ in fwd0.items() if k_ != "method"}
    if ok_opt and impl.kwarg() is not None and "n" in impl.params() + impl.kwonly():
        M.ok(fwd.fq, "the rule is called with **<forward options>, so the caller's n reaches leggauss(n=...)")
    else:
        M.bad(fwd, fwd.node, "the caller's options (n) must be splatted into the rule")
    _LegModel.sign, _LegModel.abs_seen = 1, False
    _affine_and_sum(model, A, I, impl, tier)
    if _LegModel.abs_seen:
        # the implementation takes an absolute value of the interval length: the same obligations with xu < xl (the integral changes sign)
        na, ni = len(A.findings), len(I.findings)
        _LegModel.sign = -1
        try:
            _affine_and_sum(model, A, I, impl, tier)
        finally:
            _LegModel.sign = 1
        for fd in A.findings[na:] + I.findings[ni:]:
            fd.message = "for xu < xl (the implementation takes |xu - xl|; the integral must change sign with the orientation of the interval): " + fd.message
    _substitution(model, Sr, N, fwd, callsite)
    _tuple_out(model, P)
    from .c07 import _tensor_packer
    _tensor_packer(model, P)
    from ..rules import autograd as _ac
    _R11 = RuleResult(PROP, "AC11", "every exit of the public functional returns the Function's output; forward's solution comes only from the dispatched implementation; operands unchanged", min_instances=2)
    for _cn in ['_Quadrature']:
        _fc = _ac.get_fncls(model, _cn)
        _ac.ac11_wrapper_returns(model, _fc, _R11)
        _ac.ac11_forward_provenance(model, _fc, _R11)
    return [A, I, Sr, N, P, M, _R11]
