"""C19 -- calls do not keep tensors alive after their results are dropped (reference-cycle idioms)."""
from __future__ import annotations
import ast
from typing import List, Set
from ..model import Model, FuncInfo, own_nodes, norm_stmt, AnalysisError, enclosing_stmt, enclosing_function, ancestors
from ..report import RuleResult
from ..flow import free_names_of_def, function_defs, names_loaded
from ..rules import autograd as ac

PROP = "C19"
LEVEL = "other"
EXPLANATION = (
    "Absence of the reference-cycle idioms that defeat reference counting, decided over the whole package: (AC8) no "
    "autograd.Function.forward stores one of its own outputs (or a container holding one) as a plain attribute of ctx - the "
    "output's grad_fn owns ctx, so that is a cycle; outputs must go through save_for_backward; (C) no instance attribute is "
    "assigned a lambda / nested function (or a container of them) that captures `self` - object -> attribute -> closure -> "
    "object (the idiom the project's own comment in _jacobian.py records as a past leak); (R) no nested function refers to "
    "itself through its own closure cell; (X) a closure handed to a Function.apply does not capture a variable holding an "
    ".apply output of the same scope; (G) no module-level container is appended to / written from inside a functional "
    "(process-lifetime growth). NOT decided: leaks through other object graphs (third-party objects, torch internals).")
ASSUMPTIONS = ["CPython reference counting; a cycle through a Python closure cell or ctx attribute is only freed by the cyclic GC"]


def rules(model: Model, tier: str) -> List[RuleResult]:
    R8 = RuleResult(PROP, "AC8", "forward never stores its own output as a plain ctx attribute", min_instances=7)
    C = RuleResult(PROP, "C19-C", "no closure capturing `self` is stored on `self`", min_instances=1)
    Rr = RuleResult(PROP, "C19-R", "no nested function references itself through its closure", min_instances=1)
    X = RuleResult(PROP, "C19-X", "closures handed to .apply do not capture .apply outputs of the same scope", min_instances=1)
    G = RuleResult(PROP, "C19-G", "no function appends to / stores into a module-level container", min_instances=1)
    for fc in ac.function_classes(model):
        ac.ac8_outputs_not_on_ctx(fc, R8)
    _self_capture(model, C)
    _self_recursive(model, Rr)
    _apply_capture(model, X)
    _global_growth(model, G)
    E = RuleResult(PROP, "C19-E", "a caught exception is not bound to a name that outlives its handler", min_instances=1)
    _exception_binding(model, E)
    Tk = RuleResult(PROP, "C19-T", "layout helpers (TensorPacker) keep shapes and offsets only, never the tensors they were built from", min_instances=1)
    _layout_only(model, Tk)
    return [R8, C, Rr, X, G, E, Tk]


def _layout_only(model: Model, T: RuleResult):
    """TensorPacker is created from live tensors (outputs of a Function, states of the adjoint sweep) and is captured by closures
    that are themselves stored on autograd contexts.  If it retained those tensors, every such closure would keep them - and through
    their grad_fn the whole graph - alive, closing a reference cycle.  It may store only metadata (shape, numel, offsets)."""
    f = model.func("xitorch/_utils/misc.py", "TensorPacker.__init__")
    src = f.params()[1]
    derived = {src}
    for n in own_nodes(f.node):
        if isinstance(n, ast.For) and any(isinstance(x, ast.Name) and x.id in derived for x in ast.walk(n.iter)):
            for x in ast.walk(n.target):
                if isinstance(x, ast.Name):
                    derived.add(x.id)

    def leaks(e) -> bool:
        """does evaluating e yield (a container of) the tensors themselves, as opposed to metadata?"""
        if isinstance(e, ast.Name):
            return e.id in derived
        if isinstance(e, ast.Attribute):
            return False if e.attr in ("shape", "dtype", "device", "ndim") else leaks(e.value)
        if isinstance(e, ast.Call):
            fn = ast.unparse(e.func)
            if fn.split(".")[-1] in ("numel", "len", "size", "dim", "type"):
                return False
            return any(leaks(a) for a in e.args) or any(leaks(k.value) for k in e.keywords) or (isinstance(e.func, ast.Attribute) and leaks(e.func.value)
                                                                                              and e.func.attr not in ("numel", "size", "dim"))
        return any(leaks(c) for c in ast.iter_child_nodes(e) if isinstance(c, ast.expr))
    n = 0
    for s_ in own_nodes(f.node):
        val = None
        if isinstance(s_, ast.Assign) and any(isinstance(t, ast.Attribute) and isinstance(t.value, ast.Name) and t.value.id == f.params()[0] for t in s_.targets):
            val = s_.value
        elif isinstance(s_, ast.Expr) and isinstance(s_.value, ast.Call) and isinstance(s_.value.func, ast.Attribute) and s_.value.func.attr in ("append", "extend", "insert") \
                and ast.unparse(s_.value.func.value).startswith(f.params()[0] + "."):
            val = ast.Tuple(elts=list(s_.value.args), ctx=ast.Load())
        if val is None:
            continue
        n += 1
        if leaks(val):
            T.bad(f, s_, "TensorPacker stores the tensors it was built from (`%s`): closures holding the packer then keep those tensors and their graph alive "
                  "(reference cycle through the autograd context)" % norm_stmt(s_, 70))
        else:
            T.ok(f.fq, "stores metadata only: `%s`" % norm_stmt(s_, 70))
    if n == 0:
        raise AnalysisError("C19-T: TensorPacker.__init__ stores nothing")


def _closure_values(v: ast.AST) -> List[ast.AST]:
    """lambda / nested-def-name values inside an assigned expression (incl. containers, IfExp)"""
    out = []
    if isinstance(v, ast.Lambda):
        out.append(v)
    elif isinstance(v, (ast.Tuple, ast.List, ast.Set)):
        for e in v.elts:
            out += _closure_values(e)
    elif isinstance(v, ast.Dict):
        for e in v.values:
            out += _closure_values(e)
    elif isinstance(v, ast.IfExp):
        out += _closure_values(v.body) + _closure_values(v.orelse)
    elif isinstance(v, ast.Name):
        out.append(v)
    elif isinstance(v, ast.Call) and ast.unparse(v.func) in ("functools.partial", "partial"):
        for a in v.args:
            out += _closure_values(a)
    return out


def _self_capture(model: Model, C: RuleResult):
    n = 0
    for f in model.all_functions():
        if f.cls is None or not f.params() or f.params()[0] != "self":
            continue
        local_defs = {s.name: s for s in own_nodes(f.node) if isinstance(s, ast.FunctionDef)}
        local_lams = {}
        for s in own_nodes(f.node):
            if isinstance(s, ast.Assign) and isinstance(s.targets[0], ast.Name) and isinstance(s.value, ast.Lambda):
                local_lams[s.targets[0].id] = s.value
        for s in own_nodes(f.node):
            if not isinstance(s, ast.Assign):
                continue
            tg = [t for t in s.targets if isinstance(t, ast.Attribute) and isinstance(t.value, ast.Name) and t.value.id == "self"]
            if not tg:
                continue
            # a bound method of `self` stored on `self` is the same cycle (self -> attribute -> bound method -> self)
            from ..callgraph import owner_class
            oc = owner_class(f)
            for x in ast.walk(s.value):
                if isinstance(x, ast.Attribute) and isinstance(x.value, ast.Name) and x.value.id == "self" and oc is not None and oc.find_method(x.attr) is not None:
                    par = getattr(x, "_parent", None)
                    called = isinstance(par, ast.Call) and par.func is x
                    m_ = oc.find_method(x.attr)
                    is_prop = any(ast.unparse(d_) in ("property", "staticmethod", "classmethod") or ast.unparse(d_).endswith(".setter") for d_ in m_.node.decorator_list)
                    if not called and not is_prop:
                        n += 1
                        C.bad(f, s, "a bound method of `self` (self.%s) is stored on `self` (self -> %s -> bound method -> self): the object and every tensor it "
                              "holds stay alive until the cyclic garbage collector runs" % (x.attr, tg[0].attr), what="%s: self.%s = self.%s" % (f.qualname, tg[0].attr, x.attr))
            for cv in _closure_values(s.value):
                d = None
                if isinstance(cv, ast.Lambda):
                    d = cv
                elif isinstance(cv, ast.Name) and cv.id in local_defs:
                    d = local_defs[cv.id]
                elif isinstance(cv, ast.Name) and cv.id in local_lams:
                    d = local_lams[cv.id]
                if d is None:
                    continue
                n += 1
                captures = "self" in free_names_of_def(d) or any(isinstance(x, ast.Name) and x.id == "self" for x in ast.walk(d))
                what = "%s: self.%s = <closure>" % (f.qualname, tg[0].attr)
                if captures:
                    C.bad(f, s, "a closure that captures `self` is stored on `self` (self -> %s -> closure -> self): the object and every "
                          "tensor it holds stay alive until the cyclic garbage collector runs" % tg[0].attr, what=what)
                else:
                    C.ok(f.fq, what + " does not capture self")
    if n == 0:
        C.ok("package", "no closure is stored on an instance attribute anywhere in the package")


def _self_recursive(model: Model, Rr: RuleResult):
    n = 0
    for f in model.all_functions():
        if f.parent is None:
            continue
        n += 1
        body_names = set()
        for b in f.node.body:
            for x in ast.walk(b):
                if isinstance(x, ast.Name) and isinstance(x.ctx, ast.Load):
                    body_names.add(x.id)
        params = set(f.all_params())
        if f.name in body_names and f.name not in params:
            Rr.bad(f, f.node, "nested function `%s` refers to itself through its closure cell (function -> cell -> function): a reference "
                   "cycle that keeps everything it captures alive" % f.name)
        else:
            Rr.ok(f.fq, "nested function %s does not reference itself" % f.name)
    return n


def _apply_capture(model: Model, X: RuleResult):
    n = 0
    for f in model.all_functions():
        outs: Set[str] = set()
        for s in own_nodes(f.node):
            if isinstance(s, ast.Assign) and isinstance(s.value, ast.Call) and isinstance(s.value.func, ast.Attribute) and s.value.func.attr == "apply":
                r = model.resolve_expr(f.module, s.value.func.value)
                if r and r[0] == "class" and any(b.endswith("autograd.Function") for b in r[1].base_exprs):
                    for t in s.targets:
                        for x in ast.walk(t):
                            if isinstance(x, ast.Name):
                                outs.add(x.id)
        if not outs:
            continue
        local_defs = {s.name: s for s in own_nodes(f.node) if isinstance(s, ast.FunctionDef)}
        for c in own_nodes(f.node):
            if isinstance(c, ast.Call) and isinstance(c.func, ast.Attribute) and c.func.attr == "apply":
                for a in c.args:
                    if isinstance(a, ast.Name) and a.id in local_defs:
                        n += 1
                        cap = free_names_of_def(local_defs[a.id]) & outs
                        what = "%s: closure `%s` handed to .apply" % (f.qualname, a.id)
                        if cap:
                            X.bad(f, enclosing_stmt(c), "the closure `%s` handed to .apply captures `%s`, an .apply output of the same scope: "
                                  "output -> grad_fn -> ctx -> closure -> output" % (a.id, sorted(cap)[0]), what=what)
                        else:
                            X.ok(f.fq, what + " captures no .apply output")
    if n == 0:
        X.ok("package", "no closure handed to .apply shares a scope with an .apply output that it captures")


def _global_growth(model: Model, G: RuleResult):
    n = 0
    for m in model.modules.values():
        def _container_ctor(v) -> bool:
            if not isinstance(v, ast.Call):
                return False
            last = ast.unparse(v.func).split(".")[-1]
            return last in ("dict", "list", "set", "deque") or last.endswith(("Dict", "dict", "Dictionary", "Set", "Cache", "cache"))
        containers = {nm for nm, v in m.assigns.items() if isinstance(v, (ast.Dict, ast.List, ast.Set)) or _container_ctor(v)}
        for f in m.functions.values():
            local = set(f.all_params())
            for s in own_nodes(f.node):
                if isinstance(s, (ast.Assign, ast.AnnAssign, ast.AugAssign)):
                    tgs = s.targets if isinstance(s, ast.Assign) else [s.target]
                    for t in tgs:
                        if isinstance(t, ast.Name):
                            local.add(t.id)
            for s in own_nodes(f.node):
                hit = None
                if isinstance(s, ast.Call) and isinstance(s.func, ast.Attribute) and s.func.attr in ("append", "add", "update", "setdefault", "extend", "insert") \
                        and isinstance(s.func.value, ast.Name) and s.func.value.id in containers and s.func.value.id not in local:
                    hit = s.func.value.id
                if isinstance(s, ast.Assign):
                    for t in s.targets:
                        if isinstance(t, ast.Subscript) and isinstance(t.value, ast.Name) and t.value.id in containers and t.value.id not in local:
                            hit = t.value.id
                if hit:
                    n += 1
                    G.bad(f, enclosing_stmt(s), "function writes into the module-level container `%s`: whatever is stored there (tensors, "
                          "closures) lives for the whole process and grows with every call" % hit)
    G.ok("package", "module-level containers are only read inside functions (%d modules scanned)" % len(model.modules))


def _exception_binding(model: Model, E: RuleResult):
    """`except X as e:` - Python unbinds `e` at the end of the handler precisely because exception -> traceback ->
    frame -> local `e` is a reference cycle. Copying `e` to another local / attribute / container re-creates the
    cycle and keeps every local of the frame (tensors included) alive until the cyclic GC runs."""
    n = 0
    for f in model.all_functions():
        for h in own_nodes(f.node):
            if not isinstance(h, ast.ExceptHandler) or h.name is None:
                continue
            n += 1
            bad = None
            for b in h.body:
                for s in ast.walk(b):
                    if isinstance(s, (ast.Assign, ast.AnnAssign)) and s.value is not None:
                        v = s.value
                        holds = (isinstance(v, ast.Name) and v.id == h.name) or \
                                (isinstance(v, (ast.Tuple, ast.List, ast.Dict)) and any(isinstance(x, ast.Name) and x.id == h.name for x in ast.walk(v)))
                        if holds:
                            bad = s
                    if isinstance(s, ast.Call) and isinstance(s.func, ast.Attribute) and s.func.attr in ("append", "add", "setdefault", "insert") \
                            and any(isinstance(a, ast.Name) and a.id == h.name for a in s.args):
                        bad = enclosing_stmt(s)
            what = "%s: `except %s as %s`" % (f.qualname, ast.unparse(h.type) if h.type else "", h.name)
            if bad is not None:
                E.bad(f, bad, "the caught exception `%s` is bound to another name / container: exception -> traceback -> frame -> that name is a "
                      "reference cycle that keeps every local of %s (its tensors included) alive until the cyclic GC runs" % (h.name, f.qualname), what=what)
            else:
                E.ok(f.fq, what + " does not outlive the handler")
    if n == 0:
        E.ok("package", "no handler binds its exception")
