"""C10 -- functionals never leave the caller's objects modified, even on failure (structural part)."""
from __future__ import annotations
import ast
from typing import List, Optional, Dict, Set, Tuple, Callable
from ..model import Model, FuncInfo, own_nodes, norm_stmt, AnalysisError, AnchorError, enclosing_stmt, parent, ancestors
from ..report import RuleResult
from ..cfg import CFG, Node
from ..flow import function_defs, names_loaded

PROP = "C10"
LEVEL = "other"
EXPLANATION = (
    "Decided for every path of the control-flow graph including exceptional edges (i.e. for every crash point at once): "
    "(M) who-may-call: the functions that write tensors/flags into caller-visible state (set_attr, del_attr, setparams, "
    "setuniqueparams, _set_all_obj_params, set_objparams, restore_objparams, _set_tensors, set_debug_mode) are called only "
    "from the frozen table of owners - no functional touches the caller's object directly; (P) guarded pairing: in every "
    "installer (useobjparams, uselinopparams, enable_debug, disable_debug, disable_state_change and the debug helper "
    "__list_operating_params) every path from the region in which foreign code runs (the `yield` / the user's method call) "
    "to any exit - normal or exceptional - passes through the restore, and the restored value is the one read before the "
    "install; (W) the five context managers are only ever used as `with` items; (L) the restore stack is LIFO: push before "
    "the first mutation, pop from the same end, the pushed entry is the current state; (O) nn.Module restoration re-sets "
    "every captured name in registration order by delete-then-set. NOT decided: a failure inside a setter loop, tensor values.")
ASSUMPTIONS = ["contextlib.contextmanager semantics: an exception in the with-body is raised at the yield",
               "call resolution by name for the mutator table"]

PF = "xitorch/_core/pure_function.py"
LINOP = "xitorch/_core/linop.py"
EM = "xitorch/_core/editable_module.py"
MODES = "xitorch/debug/modes.py"
ATTR = "xitorch/_utils/attr.py"

MUTATORS = {"set_attr", "del_attr", "_set_attr", "_del_attr", "setparams", "setuniqueparams", "_set_all_obj_params",
            "set_objparams", "restore_objparams", "_set_tensors", "set_debug_mode"}

# frozen owner table: caller -> mutators it may call (confirmed by reading, 24 call sites on the pinned tree)
OWNERS: Dict[str, Set[str]] = {
    EM + "::EditableModule.setparams": {"set_attr", "del_attr"},
    EM + "::EditableModule.setuniqueparams": {"setparams"},
    EM + "::EditableModule.__list_operating_params": {"_set_tensors"},
    LINOP + "::LinearOperator.uselinopparams": {"setuniqueparams"},
    PF + "::PureFunction.set_objparams": {"_set_all_obj_params"},
    PF + "::PureFunction.restore_objparams": {"_set_all_obj_params"},
    PF + "::PureFunction.useobjparams": {"set_objparams", "restore_objparams"},
    PF + "::EditableModulePureFunction._set_all_obj_params": {"setparams"},
    PF + "::TorchNNPureFunction._set_all_obj_params": {"del_attr", "set_attr"},
    PF + "::SingleSiblingPureFunction._set_all_obj_params": {"_set_all_obj_params"},
    PF + "::MultiSiblingPureFunction._set_all_obj_params": {"_set_all_obj_params"},
    ATTR + "::set_attr": {"_set_attr"},
    ATTR + "::del_attr": {"_del_attr"},
    MODES + "::set_debug_mode": {"set_debug_mode"},
    MODES + "::enable_debug": {"set_debug_mode"},
    MODES + "::disable_debug": {"set_debug_mode"},
}

CONTEXT_MANAGERS = {"useobjparams", "uselinopparams", "disable_state_change", "enable_debug", "disable_debug"}


def _callee_name(c: ast.Call) -> Optional[str]:
    if isinstance(c.func, ast.Attribute):
        return c.func.attr
    if isinstance(c.func, ast.Name):
        return c.func.id
    return None


def rules(model: Model, tier: str) -> List[RuleResult]:
    M = RuleResult(PROP, "C10-M", "who-may-call: state mutators are called only from the frozen owner table", min_instances=24)
    P = RuleResult(PROP, "C10-P", "guarded pairing: restore on every exit (normal and exceptional) of the foreign-code region", min_instances=12)
    W = RuleResult(PROP, "C10-W", "context managers are used only as `with` items", min_instances=23)
    L = RuleResult(PROP, "C10-L", "restore stack discipline is LIFO and pushes before mutating", min_instances=4)
    O = RuleResult(PROP, "C10-O", "order preservation: nn.Module restoration re-sets every captured name in order; EditableModule.setparams deletes only in the TypeError fallback", min_instances=5)
    _who_may_call(model, M)
    _pairing(model, P)
    _with_only(model, W)
    _lifo(model, L)
    _order(model, O)
    setparams_structure(model, O)
    from ..rules import substitution as _subst
    K = RuleResult(PROP, "SUB-K", "parameter de-duplication is keyed on object identity", min_instances=1)
    SM = RuleResult(PROP, "SUB-M", "every alias of a unique parameter receives the new tensor; nothing is skipped", min_instances=3)
    _subst.unique_key_identity(model, K)
    _subst.unique_fill(model, SM)
    SA = RuleResult(PROP, "SUB-A", "the pure function's record of the installed tensors never escapes (accessors return copies)", min_instances=3)
    _subst.no_escape_of_current_params(model, SA)
    Tr = RuleResult(PROP, "C10-T", "debug-mode snapshot and restore traverse the same elements (criteria truth tables over the dtype domain)", min_instances=2)
    traversal_agreement(model, Tr)
    return [M, P, W, L, O, K, SM, Tr, SA]


# ------------------------------------------------------------------------------------------------- M
def _who_may_call(model: Model, M: RuleResult):
    for f in model.all_functions():
        for c in own_nodes(f.node):
            if isinstance(c, ast.Call) and _callee_name(c) in MUTATORS:
                nm = _callee_name(c)
                allowed = OWNERS.get(f.fq, set())
                what = "%s calls %s" % (f.qualname, ast.unparse(c.func))
                if nm in allowed:
                    M.ok(f.fq, what)
                else:
                    M.bad(f, enclosing_stmt(c), "`%s` writes into caller-visible state and may only be called from its owners; "
                          "%s is not one of them (a functional must go through the guarded context managers)" % (nm, f.qualname), what=what)
    # direct stores into an object's __dict__ / _parameters outside editable_module are not expected either
    for f in model.all_functions():
        if f.module.relpath in (EM,):
            continue
        for s in own_nodes(f.node):
            if isinstance(s, ast.Call) and isinstance(s.func, ast.Name) and s.func.id in ("setattr", "delattr") and f.module.relpath != ATTR:
                if f.module.relpath == MODES:
                    continue
                M.bad(f, enclosing_stmt(s), "dynamic setattr/delattr on an object outside the attribute helpers")


# ------------------------------------------------------------------------------------------------- P
class Spec:
    def __init__(self, rel, qual, install, region, restore, saved_check=None):
        self.rel, self.qual = rel, qual
        self.install, self.region, self.restore = install, region, restore
        self.saved_check = saved_check


def _is_call_named(s: ast.AST, name: str) -> bool:
    return any(isinstance(c, ast.Call) and _callee_name(c) == name for c in ast.walk(s))


def _assigns_attr(s: ast.AST, attr: str) -> bool:
    return isinstance(s, ast.Assign) and any(isinstance(t, ast.Attribute) and t.attr == attr for t in s.targets)


def _is_yield(s: ast.AST) -> bool:
    return isinstance(s, ast.Expr) and isinstance(s.value, (ast.Yield, ast.YieldFrom))


def _simple(node: Node) -> bool:
    return node.kind in ("stmt", "return") and not isinstance(node.stmt, (ast.Try, ast.With, ast.FunctionDef, ast.ClassDef, ast.ExceptHandler))


def _pairing(model: Model, P: RuleResult):
    specs = [
        Spec(PF, "PureFunction.useobjparams",
             install=lambda s: _is_call_named(s, "set_objparams"), region=_is_yield,
             restore=lambda s: _is_call_named(s, "restore_objparams")),
        Spec(PF, "PureFunction.disable_state_change",
             install=lambda s: _assigns_attr(s, "_state_change_allowed") and isinstance(s.value, ast.Constant),
             region=_is_yield,
             restore=lambda s: _assigns_attr(s, "_state_change_allowed") and isinstance(s.value, ast.Name),
             saved_check=("attr", "_state_change_allowed")),
        Spec(LINOP, "LinearOperator.uselinopparams",
             install=lambda s: _is_call_named(s, "setuniqueparams") and "_orig" not in ast.unparse(s) and "orig" not in ast.unparse(s).lower(),
             region=_is_yield,
             restore=lambda s: _is_call_named(s, "setuniqueparams") and "orig" in ast.unparse(s).lower(),
             saved_check=("call", "getuniqueparams")),
        Spec(EM, "EditableModule.__list_operating_params",
             install=None, region=None, restore=None, saved_check=("call", "_get_tensors")),
    ]
    # debug-mode managers: every generator of debug/modes.py that switches the flag (enable_debug / disable_debug themselves, or a shared
    # helper they return) is an installer; the public names must be such a generator or return a call of one with the constant mode
    gens = []
    for fi in model.module(MODES).functions.values():
        if fi.parent is None and any(isinstance(n, (ast.Yield, ast.YieldFrom)) for n in own_nodes(fi.node)) and \
                any(isinstance(c, ast.Call) and _callee_name(c) == "set_debug_mode" for c in own_nodes(fi.node)):
            gens.append(fi)

    def saved_names(fi):
        return {t.id for s_ in own_nodes(fi.node) if isinstance(s_, ast.Assign) and isinstance(s_.value, ast.Call) and _callee_name(s_.value) == "is_debug_enabled"
                for t in s_.targets if isinstance(t, ast.Name)}
    for fi in gens:
        sv = saved_names(fi)
        specs.append(Spec(MODES, fi.qualname,
                          install=lambda s_, sv=sv: _is_call_named(s_, "set_debug_mode") and not (isinstance(_first_arg(s_), ast.Name) and _first_arg(s_).id in sv),
                          region=_is_yield,
                          restore=lambda s_, sv=sv: _is_call_named(s_, "set_debug_mode") and isinstance(_first_arg(s_), ast.Name) and _first_arg(s_).id in sv,
                          saved_check=("call", "is_debug_enabled")))
    for pub, const in (("enable_debug", True), ("disable_debug", False)):
        pf_ = model.func(MODES, pub)
        if pf_ in gens:
            cm = any(ast.unparse(d).endswith("contextmanager") for d in pf_.node.decorator_list)
            inst_const = [c for c in own_nodes(pf_.node) if isinstance(c, ast.Call) and _callee_name(c) == "set_debug_mode" and c.args and isinstance(c.args[0], ast.Constant)]
            if cm and inst_const and all(c.args[0].value is const for c in inst_const):
                P.ok(pf_.fq, "%s is a context manager that installs the constant mode %s" % (pub, const))
            else:
                P.bad(pf_, pf_.node, "%s must be a @contextmanager generator that installs set_debug_mode(%s)" % (pub, const))
        else:
            rets = [r for r in own_nodes(pf_.node) if isinstance(r, ast.Return) and isinstance(r.value, ast.Call)]
            ok_del = False
            if len(rets) == 1 and isinstance(rets[0].value.func, ast.Name):
                tgt = model.module(MODES).functions.get(rets[0].value.func.id)
                a = rets[0].value.args
                ok_del = tgt in gens and len(a) == 1 and isinstance(a[0], ast.Constant) and a[0].value is const and \
                    any(ast.unparse(d).endswith("contextmanager") for d in tgt.node.decorator_list)
            if ok_del:
                P.ok(pf_.fq, "%s returns the shared context manager %s(%s)" % (pub, rets[0].value.func.id, const))
            else:
                P.bad(pf_, pf_.node, "%s is neither a context manager switching the flag nor a call of one with the constant %s" % (pub, const))
    if not gens:
        raise AnalysisError("no generator switching the debug flag found in debug/modes.py")
    for sp in specs:
        f = model.func(sp.rel, sp.qual)
        cfg = CFG(f.node)
        if sp.install is None:
            _pairing_list_operating(f, cfg, P)
            continue
        inst = [n for n in cfg.nodes if _simple(n) and sp.install(n.stmt)]
        reg = [n for n in cfg.nodes if _simple(n) and sp.region(n.stmt)]
        rest = [n for n in cfg.nodes if _simple(n) and sp.restore(n.stmt)]
        if not inst or not reg:
            raise AnalysisError("%s: install or foreign-code region not recognised (idiom changed)" % f.fq)
        _must_restore(f, cfg, inst, reg, rest, P)
        _saved_value(f, cfg, sp, inst, rest, P)


def _first_arg(s):
    for c in ast.walk(s):
        if isinstance(c, ast.Call) and _callee_name(c) == "set_debug_mode" and c.args:
            return c.args[0]
    return None


def _must_restore(f: FuncInfo, cfg: CFG, inst, reg, rest, P: RuleResult):
    rest_ids = {n.id for n in rest}
    exits = {cfg.exit.id, cfg.raise_exit.id}
    # the install precedes the region on every path
    dom = cfg.dominators(skip_exc=True)
    for r in reg:
        if any(i.id in dom.get(r.id, ()) for i in inst):
            P.ok(f.fq, "install `%s` dominates the foreign-code region `%s`" % (norm_stmt(inst[0].stmt, 50), norm_stmt(r.stmt, 40)))
        else:
            P.bad(f, r.stmt, "the foreign-code region is reachable without the install")
    for r in reg:
        path = _escape_path(cfg, r, exits, rest_ids)
        what = "every path (incl. exceptional) from `%s` to an exit passes through the restore" % norm_stmt(r.stmt, 50)
        if path is None and rest:
            P.ok(f.fq, what)
        else:
            kinds = [("exc" if any(l == "exc" for s, l in a.succ if s is b) else "") for a, b in zip(path or [], (path or [])[1:])]
            how = "an exception raised in the region" if "exc" in kinds else "the normal path"
            P.bad(f, r.stmt, "the state installed before `%s` is not restored on every exit: %s leaves %s without passing the restore "
                  "(restore must be in a `finally`)" % (norm_stmt(r.stmt, 40), how, f.qualname), what=what,
                  path=[repr(n) for n in (path or [])])


def _escape_path(cfg: CFG, start: Node, targets, forbidden):
    """a path from `start` to an exit that avoids every restore node. Exceptions raised by the clean-up code
    itself (statements of a `finally` body) are not crash points of the property and are not followed."""
    prev = {start.id: None}
    work = [start]
    while work:
        n = work.pop()
        if n.id in targets and n is not start:
            path = []
            cur = n.id
            while cur is not None:
                path.append(cfg.nodes[cur])
                cur = prev[cur]
            return list(reversed(path))
        in_cleanup = n.label.startswith("finally") or n.kind == "join"
        for s2, lab in n.succ:
            if lab == "exc" and in_cleanup and n is not start:
                continue
            if s2.id in forbidden or s2.id in prev:
                continue
            prev[s2.id] = n.id
            work.append(s2)
    return None


def _saved_value(f: FuncInfo, cfg: CFG, sp: Spec, inst, rest, P: RuleResult):
    if sp.saved_check is None:
        return
    kind, what = sp.saved_check
    fn = f.node
    # name restored
    restored = None
    for r in rest:
        s = r.stmt
        if isinstance(s, ast.Assign) and isinstance(s.value, ast.Name):
            restored = s.value.id
        else:
            for c in ast.walk(s):
                if isinstance(c, ast.Call) and _callee_name(c) in MUTATORS:
                    for a in c.args:
                        v = a.value if isinstance(a, ast.Starred) else a
                        if isinstance(v, ast.Name) and v.id not in ("methodname",):
                            restored = v.id
    if restored is None:
        P.bad(f, rest[0].stmt if rest else fn, "cannot identify the value that is restored")
        return
    defs = [n for n in cfg.nodes if _simple(n) and isinstance(n.stmt, ast.Assign) and any(isinstance(t, ast.Name) and t.id == restored for t in n.stmt.targets)]
    if len(defs) != 1:
        P.bad(f, fn, "the restored value `%s` must be read exactly once before the install" % restored)
        return
    d = defs[0]
    src = ast.unparse(d.stmt.value)
    src_ok = (kind == "attr" and src.endswith("." + what)) or (kind == "call" and (what + "(") in src)
    dom = cfg.dominators(skip_exc=True)
    before = all(d.id in dom.get(i.id, ()) for i in inst)
    w = "restored value `%s = %s` is read before the install" % (restored, src)
    if src_ok and before:
        P.ok(f.fq, w)
    else:
        P.bad(f, d.stmt, "the value put back must be the one read from the same state before the install (read: `%s`, before install: %s)" % (src, before), what=w)


def _pairing_list_operating(f: FuncInfo, cfg: CFG, P: RuleResult):
    """debug helper: installs clones with _set_tensors, calls the user's method, must put the originals back"""
    sets = [n for n in cfg.nodes if _simple(n) and _is_call_named(n.stmt, "_set_tensors")]
    method_p = f.params()[1]
    reg = [n for n in cfg.nodes if _simple(n) and any(isinstance(c, ast.Call) and isinstance(c.func, ast.Name) and c.func.id == method_p for c in ast.walk(n.stmt))]
    if len(sets) < 2 or not reg:
        raise AnalysisError("%s: install/restore by _set_tensors or the user-method call not recognised" % f.fq)
    # install = the _set_tensors dominating the region; restores = the others
    dom = cfg.dominators(skip_exc=True)
    inst = [n for n in sets if all(n.id in dom.get(r.id, ()) for r in reg)]
    rest = [n for n in sets if n not in inst]
    if not inst or not rest:
        P.bad(f, f.node, "no restoring _set_tensors call after the user's method is evaluated")
        return
    _must_restore(f, cfg, inst, reg, rest, P)
    # restored list derives, through copies only, from the tensors read before the install
    defs = function_defs(f.node)

    def by_copy(e, depth=0) -> bool:
        if depth > 6:
            return False
        if isinstance(e, ast.Call) and ast.unparse(e.func) in ("copy.copy", "list", "copy") and len(e.args) == 1:
            return by_copy(e.args[0], depth + 1)
        if isinstance(e, ast.Call) and _callee_name(e) == "_get_tensors" and e.args and ast.unparse(e.args[0]) == "self":
            return True
        if isinstance(e, ast.Name):
            ds = defs.get(e.id, [])
            return len(ds) == 1 and by_copy(ds[0], depth + 1)
        return False
    ok = False
    for r in rest:
        for c in ast.walk(r.stmt):
            if isinstance(c, ast.Call) and _callee_name(c) == "_set_tensors" and len(c.args) >= 2:
                ok = by_copy(c.args[1])
    if ok:
        P.ok(f.fq, "the list put back is a copy of the tensors read by _get_tensors(self) before the install (not the clones)")
    else:
        P.bad(f, rest[0].stmt, "the tensors put back are not the originals read before the install")


# ------------------------------------------------------------------------------------------------- W
def _entered_on_exit_stack(c: ast.Call, p) -> bool:
    """`stack.enter_context(<cm call>)` inside `with [contextlib.]ExitStack() as stack:` - the stack exits every manager entered on it
    when the block is left, normally or by an exception"""
    if not (isinstance(p, ast.Call) and isinstance(p.func, ast.Attribute) and p.func.attr == "enter_context" and len(p.args) == 1 and p.args[0] is c
            and isinstance(p.func.value, ast.Name)):
        return False
    st = p.func.value.id
    for a in ancestors(p):
        if isinstance(a, ast.With):
            for it in a.items:
                if isinstance(it.optional_vars, ast.Name) and it.optional_vars.id == st and isinstance(it.context_expr, ast.Call) \
                        and ast.unparse(it.context_expr.func).split(".")[-1] == "ExitStack":
                    # the name is not re-bound inside the block
                    rebound = any(isinstance(n, ast.Name) and n.id == st and isinstance(n.ctx, ast.Store) for b in a.body for n in ast.walk(b))
                    return not rebound
        if isinstance(a, (ast.FunctionDef, ast.AsyncFunctionDef, ast.Lambda)):
            break
    return False


def _with_only(model: Model, W: RuleResult):
    for f in model.all_functions():
        for c in own_nodes(f.node):
            if isinstance(c, ast.Call) and _callee_name(c) in CONTEXT_MANAGERS:
                p = parent(c)
                while isinstance(p, ast.IfExp):
                    p = parent(p)
                what = "%s uses %s(...)" % (f.qualname, ast.unparse(c.func))
                if isinstance(p, ast.withitem):
                    W.ok(f.fq, what + " as a with item")
                elif _entered_on_exit_stack(c, p):
                    W.ok(f.fq, what + " entered on an ExitStack that is itself a with item (closed, in reverse order, on every exit of that block)")
                else:
                    W.bad(f, enclosing_stmt(c), "context manager `%s` must only be used as a `with` item (called bare or entered manually, "
                          "its restore is not guaranteed)" % _callee_name(c), what=what)
            if isinstance(c, ast.Attribute) and c.attr in ("__enter__", "__exit__"):
                W.bad(f, enclosing_stmt(c), "manual __enter__/__exit__ on a context manager")


# ------------------------------------------------------------------------------------------------- L
def _lifo(model: Model, L: RuleResult):
    so = model.func(PF, "PureFunction.set_objparams")
    ro = model.func(PF, "PureFunction.restore_objparams")
    cfg = CFG(so.node)
    push = [n for n in cfg.nodes if _simple(n) and any(isinstance(c, ast.Call) and isinstance(c.func, ast.Attribute) and c.func.attr == "append"
                                                       and "_restore_stack" in ast.unparse(c.func.value) for c in ast.walk(n.stmt))]
    mut = [n for n in cfg.nodes if _simple(n) and _is_call_named(n.stmt, "_set_all_obj_params")]
    if len(push) != 1 or not mut:
        L.bad(so, so.node, "set_objparams must push exactly once onto _restore_stack and then install")
        return
    dom = cfg.dominators(skip_exc=True)
    if all(push[0].id in dom.get(m.id, ()) for m in mut):
        L.ok(so.fq, "the push onto _restore_stack dominates the first mutation of the object")
    else:
        L.bad(so, mut[0].stmt, "the object can be mutated before its previous state is pushed: the `finally` of useobjparams would pop a foreign entry")
    # what is pushed: the current state
    call = [c for c in ast.walk(push[0].stmt) if isinstance(c, ast.Call) and isinstance(c.func, ast.Attribute) and c.func.attr == "append"][0]
    pushed = ast.unparse(call.args[0]) if call.args else ""
    if "self._cur_objparams" in pushed:
        L.ok(so.fq, "pushed entry holds the current object parameters: %s" % pushed)
    else:
        L.bad(so, push[0].stmt, "the pushed entry must hold the current object parameters (self._cur_objparams)")
    # and _cur_objparams is updated to the new ones after installing
    upd = [s for s in own_nodes(so.node) if isinstance(s, ast.Assign) and any(isinstance(t, ast.Attribute) and t.attr == "_cur_objparams" for t in s.targets)]
    arg = so.params()[1]
    from ..flow import origins as _origins
    _sdefs = function_defs(so.node)
    if upd and (arg in names_loaded(upd[0].value) or any(arg in names_loaded(o) for o in _origins(upd[0].value, _sdefs))):
        L.ok(so.fq, "_cur_objparams updated to the installed parameters")
    else:
        L.bad(so, so.node, "_cur_objparams is not updated to the installed parameters")
    pops = [c for c in own_nodes(ro.node) if isinstance(c, ast.Call) and isinstance(c.func, ast.Attribute) and c.func.attr == "pop"
            and "_restore_stack" in ast.unparse(c.func.value)]
    if len(pops) == 1 and (not pops[0].args or ast.unparse(pops[0].args[0]) == "-1"):
        L.ok(ro.fq, "restore pops the last pushed entry (%s)" % ast.unparse(pops[0]))
    else:
        L.bad(ro, ro.node, "restore_objparams must pop the most recently pushed entry (pop() / pop(-1))")
    # restore re-installs the popped parameters and records them as current
    st = enclosing_stmt(pops[0]) if pops else None
    if st is not None and isinstance(st, ast.Assign) and isinstance(st.targets[0], ast.Tuple) and isinstance(st.targets[0].elts[0], ast.Name):
        old = st.targets[0].elts[0].id
        installs = [c for c in own_nodes(ro.node) if isinstance(c, ast.Call) and _callee_name(c) == "_set_all_obj_params"]
        defs = function_defs(ro.node)
        from ..flow import def_use_closure
        ok1 = installs and all(old in def_use_closure(ro.node, names_loaded(c.args[0]), defs) for c in installs if c.args)
        upd = [s for s in own_nodes(ro.node) if isinstance(s, ast.Assign) and any(isinstance(t, ast.Attribute) and t.attr == "_cur_objparams" for t in s.targets)]
        ok2 = upd and isinstance(upd[0].value, ast.Name) and upd[0].value.id == old
        if ok1 and ok2:
            L.ok(ro.fq, "restore re-installs the popped parameters `%s` and records them as current" % old)
        else:
            L.bad(ro, ro.node, "restore must re-install exactly the popped parameters and record them as current")
    else:
        L.bad(ro, ro.node, "popped entry is not unpacked into (old parameters, identical flag)")


# ------------------------------------------------------------------------------------------------- O
_DTYPES = ["float16", "bfloat16", "float32", "float64", "complex64", "complex128", "int32", "int64", "bool", "uint8"]
_DT_ALIAS = {"float": "float32", "double": "float64", "half": "float16", "cfloat": "complex64", "cdouble": "complex128", "long": "int64", "int": "int32"}


def _crit_table(model: Model, fi: FuncInfo, lam: ast.Lambda):
    """truth table of a traversal criterion `lambda elmt: ...` over the finite domain {not a tensor} + tensor dtypes; sub-expressions
    outside the dtype vocabulary are free atoms (keyed by text) enumerated both ways"""
    import itertools
    arg = lam.args.args[0].arg
    frees: Dict[str, None] = {}

    def dtype_list(e):
        r = model.resolve_expr(fi.module, e) if isinstance(e, (ast.Name, ast.Attribute)) else None
        if r and r[0] == "assign":
            e = r[2]
        if isinstance(e, (ast.List, ast.Tuple, ast.Set)):
            out = set()
            for x in e.elts:
                t = ast.unparse(x)
                if not t.startswith("torch."):
                    return None
                nm = t[6:]
                out.add(_DT_ALIAS.get(nm, nm))
            return out
        return None

    def ev(e, kind, fv):
        if isinstance(e, ast.BoolOp):
            vs = [ev(v, kind, fv) for v in e.values]
            return all(vs) if isinstance(e.op, ast.And) else any(vs)
        if isinstance(e, ast.UnaryOp) and isinstance(e.op, ast.Not):
            return not ev(e.operand, kind, fv)
        if isinstance(e, ast.Call) and ast.unparse(e.func) == "isinstance" and len(e.args) == 2 and ast.unparse(e.args[0]) == arg \
                and ast.unparse(e.args[1]) in ("torch.Tensor", "Tensor"):
            return kind is not None
        if kind is not None:
            if isinstance(e, ast.Call) and isinstance(e.func, ast.Attribute) and ast.unparse(e.func.value) == arg and not e.args:
                if e.func.attr == "is_floating_point":
                    return kind in ("float16", "bfloat16", "float32", "float64")
                if e.func.attr == "is_complex":
                    return kind in ("complex64", "complex128")
            if isinstance(e, ast.Compare) and len(e.ops) == 1 and ast.unparse(e.left) == arg + ".dtype":
                if isinstance(e.ops[0], (ast.In, ast.NotIn)):
                    dl = dtype_list(e.comparators[0])
                    if dl is not None:
                        return (kind in dl) == isinstance(e.ops[0], ast.In)
                if isinstance(e.ops[0], (ast.Eq, ast.NotEq, ast.Is, ast.IsNot)):
                    t = ast.unparse(e.comparators[0])
                    if t.startswith("torch."):
                        return (kind == _DT_ALIAS.get(t[6:], t[6:])) == isinstance(e.ops[0], (ast.Eq, ast.Is))
        key = ast.unparse(e)
        frees.setdefault(key, None)
        return fv.get(key, False)
    # discover the free atoms, then enumerate
    for kind in [None] + _DTYPES:
        ev(lam.body, kind, {})
    keys = sorted(frees)
    if len(keys) > 3:
        raise AnalysisError("traversal criterion of %s has too many uninterpreted atoms: %s" % (fi.fq, keys))
    table = {}
    for kind in [None] + _DTYPES:
        for fvs in itertools.product((False, True), repeat=len(keys)):
            table[(kind,) + tuple(zip(keys, fvs))] = bool(ev(lam.body, kind, dict(zip(keys, fvs))))
    return table


def traversal_agreement(model: Model, T: RuleResult):
    """_get_tensors and _set_tensors (debug-mode snapshot / restore of every tensor of the user's object) select the same elements:
    their criteria have the same truth table over the dtype domain.  If the getter collects a kind of tensor the setter skips (or
    vice versa) every later slot is shifted by one and the restore writes tensors into the wrong attributes."""
    tabs = {}
    for q in ("_get_tensors", "_set_tensors"):
        f = model.func(EM, q)
        defs = function_defs(f.node)
        calls = [c for c in own_nodes(f.node) if isinstance(c, ast.Call) and ast.unparse(c.func) == "_traverse_obj"]
        if len(calls) != 1:
            raise AnalysisError("%s no longer calls _traverse_obj exactly once" % q)
        crit = next((k.value for k in calls[0].keywords if k.arg == "crit"), None)
        if isinstance(crit, ast.Name) and len(defs.get(crit.id, [])) == 1:
            crit = defs[crit.id][0]
        if not (isinstance(crit, ast.Lambda) and len(crit.args.args) == 1):
            raise AnalysisError("%s: the traversal criterion is not a one-argument lambda" % q)
        tabs[q] = (f, calls[0], _crit_table(model, f, crit))
    (fg, cg, tg), (fs, cs, ts) = tabs["_get_tensors"], tabs["_set_tensors"]
    diff = [k for k in sorted(set(tg) | set(ts), key=repr) if tg.get(k) != ts.get(k)]
    if not diff:
        T.ok(fs.fq, "_get_tensors and _set_tensors select the same elements (equal truth tables over %d element kinds)" % len(tg))
    else:
        k = diff[0]
        T.bad(fs, enclosing_stmt(cs), "_get_tensors and _set_tensors disagree on which elements they visit: for %s the getter says %s, the setter %s - the restored tensors "
              "are shifted into the wrong slots" % ("a non-tensor" if k[0] is None else "a %s tensor" % k[0], tg.get(k), ts.get(k)))
    dg = next((ast.unparse(k.value) for k in cg.keywords if k.arg == "max_depth"), None)
    ds = next((ast.unparse(k.value) for k in cs.keywords if k.arg == "max_depth"), None)
    if dg == ds:
        T.ok(fs.fq, "both traversals descend to the same depth (%s)" % dg)
    else:
        T.bad(fs, enclosing_stmt(cs), "the two traversals descend to different depths (%s vs %s)" % (dg, ds))


def setparams_structure(model: Model, O: RuleResult):
    """EditableModule.setparams installs with set_attr and falls back to delete-then-set only when set_attr raises TypeError (a slot
    holding an nn.Parameter): an unconditional delete re-inserts dict keys / module slots at the end, permanently re-ordering the
    caller's containers."""
    f = model.func(EM, "EditableModule.setparams")
    loops = [l for l in own_nodes(f.node) if isinstance(l, ast.For)]
    ok = False
    why = "no loop over zip(paramnames, params)"
    if len(loops) == 1 and len(loops[0].body) == 1 and isinstance(loops[0].body[0], ast.Try):
        tr = loops[0].body[0]
        body_calls = [_callee_name(c) for s_ in tr.body for c in ast.walk(s_) if isinstance(c, ast.Call)]
        h_ok = len(tr.handlers) == 1 and tr.handlers[0].type is not None and ast.unparse(tr.handlers[0].type) == "TypeError"
        h_calls = [_callee_name(c) for h in tr.handlers for s_ in h.body for c in ast.walk(s_) if isinstance(c, ast.Call)]
        ok = body_calls == ["set_attr"] and h_ok and h_calls == ["del_attr", "set_attr"] and not tr.finalbody and not tr.orelse
        why = "try: %s / except %s: %s" % (body_calls, ast.unparse(tr.handlers[0].type) if tr.handlers and tr.handlers[0].type else None, h_calls)
    elif loops:
        why = "loop body is `%s`" % "; ".join(norm_stmt(s_, 40) for s_ in loops[0].body)
    if ok:
        O.ok(f.fq, "setparams: set_attr first; delete-then-set only in the TypeError fallback (container order is preserved)")
    else:
        O.bad(f, loops[0] if loops else f.node, "setparams must try set_attr(self, name, val) and delete-then-set only on TypeError (%s): deleting unconditionally re-inserts "
              "dict entries at the end, so a module whose method depends on the iteration order of a dict of tensors is permanently changed" % why)
    it = ast.unparse(loops[0].iter).replace(" ", "") if loops else ""
    if it == "zip(paramnames,params)":
        O.ok(f.fq, "setparams pairs the cached parameter names with the given tensors in order")
    else:
        O.bad(f, loops[0] if loops else f.node, "setparams must iterate zip(paramnames, params)")


def _names_semantic(init):
    """abstract run of TorchNNPureFunction._get_all_obj_params_init over a module with three and with no parameters: True when
    self.names and the returned list are the complete, ordered names / tensors; a message when they are not; None when the body is
    outside the interpreter's vocabulary (the structural rule decides then)"""
    from ..domains.kinds import AObj, KindInterp
    from ..domains.dictsem import Unsupported, Raised, _Return, Tok
    me = init.params()[0]
    for n in (3, 0):
        pairs = [("w%d" % i, Tok("w%d" % i, is_tensor=True, requires_grad=(i != 1))) for i in range(n)]
        mod = AObj("module", ("torch.nn.Module",))
        mod.methods["named_parameters"] = (lambda pairs=pairs: list(pairs))
        it = KindInterp({"%s.obj" % me: mod})
        try:
            try:
                it.run(init.node.body)
                ret = None
            except _Return as r:
                ret = r.v
        except Unsupported:
            return None
        except Raised as e:
            return "raises for a module with %d parameters: %s" % (n, e)
        names = it.env.get("%s.names" % me)
        if not (isinstance(names, (list, tuple)) and list(names) == [p[0] for p in pairs]):
            return "a module with parameters %s gives self.names = %r" % ([p[0] for p in pairs], names)
        if not (isinstance(ret, (list, tuple)) and len(ret) == n and all(x is p[1] for x, p in zip(ret, pairs))):
            return "a module with parameters %s returns %r" % ([p[0] for p in pairs], ret)
    return True


def _order(model: Model, O: RuleResult):
    init = model.func(PF, "TorchNNPureFunction._get_all_obj_params_init")
    setter = model.func(PF, "TorchNNPureFunction._set_all_obj_params")
    src = ast.unparse(init.node)
    names_from = [s for s in own_nodes(init.node) if isinstance(s, (ast.Assign, ast.AnnAssign))
                  and any(isinstance(t, ast.Attribute) and t.attr == "names" for t in (s.targets if isinstance(s, ast.Assign) else [s.target]))]
    # every registered parameter is captured: the source is named_parameters() itself, not a filtered view of it (a partial
    # delete/re-register cycle moves the cycled parameters behind the others)
    filt = [n for n in ast.walk(init.node) if isinstance(n, (ast.ListComp, ast.GeneratorExp, ast.SetComp, ast.DictComp)) and "named_parameters()" in ast.unparse(n)
            and any(g.ifs for g in n.generators)]
    filt += [n for n in ast.walk(init.node) if isinstance(n, ast.Call) and ast.unparse(n.func) == "filter" and "named_parameters()" in ast.unparse(n)]
    cond_skip = [n for n in ast.walk(init.node) if isinstance(n, ast.For) and "named_parameters()" in ast.unparse(n.iter)
                 and any(isinstance(x, (ast.Continue, ast.If)) for b in n.body for x in ast.walk(b))]
    sem = _names_semantic(init)
    if sem is True:
        O.ok(init.fq, "ALL parameter names are captured from named_parameters() (registration order, unfiltered) into self.names [abstract run over 3 and 0 parameters]")
    elif isinstance(sem, str):
        O.bad(init, init.node, "parameter names must be captured from named_parameters() unfiltered: with some parameters left out the delete/re-register cycle is partial and "
              "re-registers the cycled parameters behind the others (registration order of the caller's module changes) [%s]" % sem)
    elif "named_parameters()" in src and names_from and not filt and not cond_skip:
        O.ok(init.fq, "ALL parameter names are captured from named_parameters() (registration order, unfiltered) into self.names")
    else:
        O.bad(init, (filt + cond_skip + [init.node])[0] if not isinstance((filt + cond_skip + [init.node])[0], ast.expr) else enclosing_stmt((filt + cond_skip)[0]),
              "parameter names must be captured from named_parameters() unfiltered: with some parameters left out the delete/re-register cycle is partial and "
              "re-registers the cycled parameters behind the others (registration order of the caller's module changes)")
    loops = [n for n in own_nodes(setter.node) if isinstance(n, ast.For)]
    if len(loops) != 1:
        O.bad(setter, setter.node, "expected one loop over the captured names")
        return
    lp = loops[0]
    it = ast.unparse(lp.iter)
    arg = setter.params()[1]
    if it.replace(" ", "") == "zip(self.names,%s)" % arg:
        O.ok(setter.fq, "iterates zip(self.names, %s): every captured name, in order" % arg)
    else:
        O.bad(setter, lp, "restoration must iterate zip(self.names, <params>) (every name, in registration order); got `%s`" % it)
    body_calls = [(_callee_name(c), [ast.unparse(a) for a in c.args]) for s in lp.body for c in ast.walk(s) if isinstance(c, ast.Call) and _callee_name(c) in ("del_attr", "set_attr")]
    tn = [e.id for e in lp.target.elts] if isinstance(lp.target, ast.Tuple) else []
    want = [("del_attr", ["self.obj", tn[0]]), ("set_attr", ["self.obj", tn[0], tn[1]])] if len(tn) == 2 else None
    if want is not None and body_calls == want and not any(isinstance(s, (ast.If, ast.Try, ast.Continue, ast.Break)) for s in ast.walk(lp) if s is not lp):
        O.ok(setter.fq, "each name is deleted then set unconditionally (Parameters are re-registered, plain tensors replaced)")
    else:
        O.bad(setter, lp, "every name must be deleted and then set, unconditionally (got %s)" % body_calls)
