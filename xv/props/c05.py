"""C05 -- symeig and svd return the requested, correctly normalised spectral pairs (structural part only)."""
from __future__ import annotations
import ast
from typing import List, Dict, Optional, Tuple
from ..model import Model, FuncInfo, own_nodes, norm_stmt, AnalysisError, AnchorError, enclosing_stmt, ancestors, has_form, under, path_conditions, case_split
from ..report import RuleResult
from ..flow import function_defs, names_loaded, origins
from ..cfg import CFG, stmt_dominates
from ..domains.poly import Uninterpretable
from ..domains import ncalg
from ..domains.ncalg import WordEval, Word, sym, adj, inv, mul, simplify, show

PROP = "C05"
LEVEL = "other"
EXPLANATION = (
    "Structural necessary conditions decided from the source (no spectrum is computed): (R) the dense generalised path is a congruence "
    "reduction A2 = P A P^H with P = cholesky(M)^-1 and back-transformation X = P^H W; by word normalisation with M = L L^H this gives "
    "P M P^H = I, hence A X = M X diag(E) and X^H M X = W^H W = I for the orthonormal W of eigh; (T) the requested pairs are the first / "
    "last neig columns of eigh's ascending output, the same slice on values and vectors, at every call site, and 'uppermost' is "
    "normalised to the handled spelling; (Q) tallqr returns Q = V R^-1 with R^H R = V^H (M V): Q^H M Q normalises to the identity; "
    "(D) Davidson is a Rayleigh-Ritz iteration: T = V^H A V, Ritz vectors V y, residual A V y - M (V y) diag(theta) with M applied iff given, "
    "the basis is re-orthonormalised against M with the M-image of the whole new block, the loop stops on max|resid| < min_eps and the "
    "pair with the smallest residual is what is returned; (S) svd, evaluated as a symbolic tensor term for wide and tall operators and four spellings of mode, equals the specification: the "
    "eigenvectors of the Gram operator G = X X^H (X = A if m < n else A^H, flagged Hermitian) from symeig(G, k, mode, the caller's method "
    "and options) as the factor on X's side, the other factor X^H e / s with s = sqrt(max(eig, 0)), vh = v^H; "
    "(V) Hermiticity of A and M and the shape match are asserted before any computation, neig / k default to the full size. NOT decided: "
    "that Davidson converges to the extreme pairs, accuracy, agreement with a dense reference, batch broadcasting.")
ASSUMPTIONS = ["torch.linalg.eigh returns ascending eigenvalues with orthonormal eigenvectors; cholesky(X) C satisfies C C^H = X",
               "davidson / tallqr are real-valued code: transpose(-2, -1) is treated as the adjoint there (frozen exception of C02-H)",
               "LinearOperator.mm / rmm are A x and A^H x (C11)"]

IMPL = "xitorch/_impls/linalg/symeig.py"
PUB = "xitorch/linalg/symeig.py"
TENS = "xitorch/_utils/tensor.py"


class _Seq:
    """evaluate a straight-line block in order: name -> word"""

    def __init__(self, leaves: Dict[str, str], real_transpose=False, hook=None):
        self.env: Dict[str, Word] = {}
        self.we = WordEval({}, leaves, real_transpose=real_transpose, call_hook=self._call)
        self.hook = hook
        self.events: List[Tuple[str, ast.AST, object]] = []

    def _call(self, we, e):
        if self.hook is not None:
            return self.hook(self, e)
        return None

    def ev(self, e: ast.AST) -> Word:
        self.we.env = self.env
        return simplify(self.we.ev(e))

    def assign(self, name: str, e: ast.AST):
        self.env[name] = self.ev(e)


# ------------------------------------------------------------------------------------------ C05-R
def _reduction(model: Model, R: RuleResult):
    f = model.func(IMPL, "exacteig")
    pA, pM = f.params()[0], f.params()[3]
    cs = case_split(f.node.body, "%s is None" % pM)
    if cs is None:
        raise AnalysisError("C05-R: exacteig no longer branches on `M is None`")
    std, gen, _before, br = cs
    leaves = {"%s.fullmatrix()" % pA: "A", "%s.fullmatrix()" % pM: "M"}
    pre = _Seq(dict(leaves))
    for s in f.node.body:
        if s is br:
            break
        if isinstance(s, ast.Assign) and isinstance(s.targets[0], ast.Name):
            try:
                pre.assign(s.targets[0].id, s.value)
            except Uninterpretable:
                pass
    # ---- standard problem: eigh of A itself
    ok_std = False
    for s in std:
        if isinstance(s, ast.Assign) and isinstance(s.value, ast.Call) and ast.unparse(s.value.func) in ("degen_symeig.apply", "torch.linalg.eigh"):
            try:
                ok_std = pre.ev(s.value.args[0]) == sym("A")
            except Uninterpretable:
                ok_std = False
    if ok_std:
        R.ok(f.fq, "M is None: the eigen-decomposition is taken of A itself")
    else:
        R.bad(f, std[0] if std else br, "without M the dense path must decompose A itself")
    # ---- generalised problem
    sq = _Seq(dict(leaves))
    sq.env.update(pre.env)
    a2 = None
    W = None
    ret = None

    def hook(seq, e):
        return None
    try:
        for s in gen:
            if isinstance(s, ast.Expr) and isinstance(s.value, ast.Constant):
                continue
            if isinstance(s, ast.Return):
                ret = s.value
                break
            if not isinstance(s, ast.Assign):
                raise Uninterpretable("statement %s" % norm_stmt(s))
            tg, v = s.targets[0], s.value
            if isinstance(tg, ast.Tuple) and isinstance(v, ast.Call):
                fn = ast.unparse(v.func)
                names = [e.id for e in tg.elts if isinstance(e, ast.Name)]
                if fn in ("degen_symeig.apply", "torch.linalg.eigh") and len(names) == 2:
                    a2 = (sq.ev(v.args[0]), s)
                    sq.env[names[0]] = sym("E")
                    sq.env[names[1]] = sym("W")
                    continue
                if fn == "_take_eigpairs" and len(names) == 2:
                    # a column selection of (E, W): same symbols
                    a0, a1 = sq.ev(v.args[0]), sq.ev(v.args[1])
                    if a0 != sym("E") or a1 != sym("W"):
                        raise Uninterpretable("_take_eigpairs is not applied to eigh's (values, vectors) pair")
                    sq.env[names[0]], sq.env[names[1]] = sym("E"), sym("W")
                    continue
                raise Uninterpretable("tuple assignment %s" % norm_stmt(s))
            if isinstance(tg, ast.Name):
                sq.assign(tg.id, v)
                continue
            raise Uninterpretable("statement %s" % norm_stmt(s))
    except Uninterpretable as e:
        raise AnalysisError("C05-R: cannot interpret the generalised branch of exacteig: %s" % e)
    if a2 is None or not (isinstance(ret, ast.Tuple) and len(ret.elts) == 2):
        raise AnalysisError("C05-R: the generalised branch has no eigh call / does not return (values, vectors)")
    a2w, a2stmt = a2
    Xw = sq.ev(ret.elts[1])
    Ew = sq.ev(ret.elts[0])
    # A2 = Pl A Pr
    idx = [k for k, fct in enumerate(a2w) if fct[0] == "A"]
    if len(idx) != 1 or a2w[idx[0]] != ("A", False, False):
        R.bad(f, a2stmt, "the matrix handed to eigh is not of the form Pl A Pr: %s" % show(a2w))
        return
    Pl, Pr = a2w[:idx[0]], a2w[idx[0] + 1:]
    herm = frozenset({"A", "M"})
    what = "A2 = %s ; X = %s" % (show(a2w), show(Xw))
    if simplify(adj(Pr, herm)) == simplify(Pl):
        R.ok(f.fq, "A2 = P A P^H (congruence: A2 stays Hermitian): P = %s" % show(Pl))
    else:
        R.bad(f, a2stmt, "the reduced matrix %s is not a congruence P A P^H (left factor %s, right factor %s): it is not Hermitian in general" % (show(a2w), show(Pl), show(Pr)), what=what)
    # Pl M Pr = I with M = L L^H
    pmp = sq.we.expand_chol(mul(Pl, sym("M"), Pr))
    if pmp == ():
        R.ok(f.fq, "P M P^H normalises to the identity with M = L L^H (L = cholesky(M)): the reduced problem is the standard one")
    else:
        R.bad(f, a2stmt, "P M P^H does not reduce to the identity (it normalises to %s): eigh(A2) does not solve the generalised problem" % show(pmp), what=what)
    # X = Pr W
    if Xw == simplify(mul(Pr, sym("W"))):
        R.ok(f.fq, "back-transformation X = P^H W: then A X = M X diag(E) and X^H M X = W^H W = I")
    else:
        R.bad(f, enclosing_stmt(ret), "the returned vectors are %s, not P^H W = %s: they are neither eigenvectors of (A, M) nor M-orthonormal" % (show(Xw), show(mul(Pr, sym("W")))), what=what)
    xmx = sq.we.expand_chol(mul(adj(Xw, herm), sym("M"), Xw))
    if xmx == (("W", True, False), ("W", False, False)):
        R.ok(f.fq, "X^H M X normalises to W^H W")
    else:
        R.bad(f, enclosing_stmt(ret), "X^H M X normalises to %s instead of W^H W" % show(xmx), what=what)
    if Ew == sym("E"):
        R.ok(f.fq, "the returned values are eigh's eigenvalues of the reduced matrix, unchanged")
    else:
        R.bad(f, enclosing_stmt(ret), "the returned eigenvalues are not those of the reduced problem")


# ------------------------------------------------------------------------------------------ C05-T
class _Ax:
    """a tensor seen through its last axis: the list of symbols along it (eigenvalues e0 < e1 < .. in ascending order, eigenvector
    columns v0, v1, .., or integer positions); the leading axes are carried along unchanged"""
    _xv_methods = ("flip", "unsqueeze", "expand", "size", "topk", "sort", "argsort", "index_select", "gather", "contiguous", "clone", "narrow")

    def __init__(self, items, lead=("B",)):
        self.items, self.lead = list(items), tuple(lead)

    def __repr__(self):
        return "[%s]" % ", ".join(str(x) for x in self.items)

    @property
    def shape(self):
        return list(self.lead) + [len(self.items)]

    def _last(self, d):
        from ..domains.dictsem import Unsupported
        if d not in (-1, len(self.lead)):
            raise Unsupported("operation along axis %r" % (d,))

    def getitem(self, key):
        from ..domains.dictsem import Unsupported
        if isinstance(key, tuple) and len(key) == 2 and key[0] is Ellipsis:
            k = key[1]
        elif isinstance(key, tuple) and len(key) == len(self.lead) + 1 and all(x == slice(None) for x in key[:-1]):
            k = key[-1]
        else:
            raise Unsupported("subscript %r" % (key,))
        if isinstance(k, slice):
            return _Ax(self.items[k], self.lead)
        if isinstance(k, _Ax) and all(isinstance(i, int) for i in k.items):
            return _Ax([self.items[i] for i in k.items], self.lead)
        if isinstance(k, (list, tuple)) and all(isinstance(i, int) for i in k):
            return _Ax([self.items[i] for i in k], self.lead)
        raise Unsupported("subscript %r" % (key,))

    def flip(self, *dims, **kw):
        d = kw.get("dims", dims[0] if len(dims) == 1 else dims)
        d = list(d) if isinstance(d, (list, tuple)) else [d]
        for x in d:
            self._last(x)
        return _Ax(self.items[::-1], self.lead)

    def unsqueeze(self, d):
        from ..domains.dictsem import Unsupported
        if d in (-1, len(self.lead) + 1):
            raise Unsupported("unsqueeze of the last axis")
        return _Ax(self.items, self.lead + ("1",))

    def expand(self, *sizes):
        from ..domains.dictsem import Unsupported
        sizes = list(sizes[0]) if len(sizes) == 1 and isinstance(sizes[0], (list, tuple)) else list(sizes)
        if not sizes or sizes[-1] not in (-1, len(self.items)):
            raise Unsupported("expand changes the last axis")
        return _Ax(self.items, tuple(sizes[:-1]))

    def size(self, d=None):
        if d is None:
            return self.shape
        return self.shape[d]

    def contiguous(self):
        return self

    def clone(self):
        return self

    def narrow(self, d, start, length):
        self._last(d)
        return _Ax(self.items[start:start + length], self.lead)

    def _rank(self):
        from ..domains.dictsem import Unsupported
        if not all(isinstance(x, str) and x[:1] == "e" and x[1:].isdigit() for x in self.items):
            raise Unsupported("ordering of %r" % (self.items,))
        return [int(x[1:]) for x in self.items]

    def sort(self, dim=-1, descending=False, stable=False):
        self._last(dim)
        r = self._rank()
        order = sorted(range(len(r)), key=lambda i: r[i], reverse=bool(descending))
        return (_Ax([self.items[i] for i in order], self.lead), _Ax(order, self.lead))

    def argsort(self, dim=-1, descending=False, stable=False):
        return self.sort(dim, descending)[1]

    def topk(self, k, dim=-1, largest=True, sorted=True):
        from ..domains.dictsem import Unsupported
        if not sorted:
            raise Unsupported("topk(sorted=False) returns the elements in no particular order")
        v, i = self.sort(dim, descending=bool(largest))
        return (_Ax(v.items[:k], self.lead), _Ax(i.items[:k], self.lead))

    def index_select(self, dim, idx):
        self._last(dim)
        return self.getitem((Ellipsis, idx))

    def gather(self, dim, idx):
        self._last(dim)
        return self.getitem((Ellipsis, idx))


def _take_semantic(model: Model, f: FuncInfo, T: RuleResult) -> bool:
    """_take_eigpairs evaluated on symbolic last axes (domains/kinds.py): eigenvalues e0 < e1 < .. < e(n-1) as torch.linalg.eigh lists
    them, eigenvector columns v0 .. v(n-1).  For mode "lowest" the result must be (e0..e(k-1); v0..v(k-1)), for "uppest"
    (e(n-k)..e(n-1); v(n-k)..v(n-1)) - the requested end of the spectrum, in ascending order, values and vectors paired - however
    the selection is spelled (slices, slice objects, narrow, flip, topk / sort + gather, index lists).  False: not interpretable."""
    from ..domains.kinds import KindInterp
    from ..domains.dictsem import Unsupported, Raised, _Return
    pe, pv, pn, pm = f.params()[:4]

    def _fn(name):
        return lambda x, *a, **k: getattr(x, name)(*a, **k)

    class It(KindInterp):
        host = {"torch." + n: _fn(n) for n in ("flip", "topk", "sort", "argsort", "index_select", "gather", "narrow")}
        host.update({"slice": slice, "torch.arange": lambda *a, **k: _Ax(list(range(*a)), ()), "range": lambda *a: list(range(*a)),
                     "list": list, "len": len})

        def ev(self, e):
            if isinstance(e, ast.Subscript):
                try:
                    b = self.ev(e.value)
                except Unsupported:
                    b = None
                if isinstance(b, _Ax):
                    return b.getitem(self.ev(e.slice))
            if isinstance(e, ast.Attribute) and e.attr == "shape":
                b = self.ev(e.value)
                if isinstance(b, _Ax):
                    return b.shape
            if isinstance(e, ast.Tuple):
                return tuple(self.ev(x) for x in e.elts)
            return super().ev(e)
    done = 0
    for n_, k_ in ((5, 2), (4, 4), (3, 1)):
        for mode in ("lowest", "uppest"):
            ev_, vc_ = _Ax(["e%d" % i for i in range(n_)]), _Ax(["v%d" % i for i in range(n_)], ("B", n_))
            it = It({pe: ev_, pv: vc_, pn: k_, pm: mode})
            try:
                try:
                    it.run(list(f.node.body))
                    res = None
                except _Return as r:
                    res = r.v
            except (Unsupported, TypeError, AttributeError, KeyError, IndexError, ValueError):
                if done:
                    raise AnalysisError("C05-T: _take_eigpairs is interpretable for some sizes only")
                return False
            except Raised as e:
                T.bad(f, f.node, "_take_eigpairs raises for %d of %d pairs, mode %r (%s)" % (k_, n_, mode, e))
                done += 1
                continue
            done += 1
            sel = list(range(k_)) if mode == "lowest" else list(range(n_ - k_, n_))
            want = (["e%d" % i for i in sel], ["v%d" % i for i in sel])
            got = tuple(x.items if isinstance(x, _Ax) else x for x in res) if isinstance(res, tuple) and len(res) == 2 else res
            what = "mode %r, neig = %d of n = %d" % (mode, k_, n_)
            if got == want:
                T.ok(f.fq, "%s: returns values %s and vector columns %s" % (what, want[0], want[1]))
            else:
                T.bad(f, f.node, "_take_eigpairs does not return the %s eigenpairs in ascending order with values and vectors paired: for %s (eigh lists e0 < e1 < ..) "
                      "it returns %s, expected (%s, %s)" % ("lowest" if mode == "lowest" else "uppermost", what, got, want[0], want[1]), what=what)
    return True


def _take(model: Model, T: RuleResult):
    f = model.func(IMPL, "_take_eigpairs")
    if not _take_semantic(model, f, T):
        _take_structural(model, f, T)
    _take_callsites(model, f, T)


def _take_structural(model: Model, f: FuncInfo, T: RuleResult):
    pe, pv, pn, pm = f.params()[:4]
    ifs = [s for s in f.node.body if isinstance(s, ast.If)]
    if len(ifs) != 1:
        raise AnalysisError("C05-T: _take_eigpairs no longer has the lowest / uppermost branch")
    br = ifs[0]
    t = br.test
    if not (isinstance(t, ast.Compare) and len(t.ops) == 1 and ast.unparse(t.left) == pm and isinstance(t.ops[0], (ast.Eq, ast.NotEq))
            and isinstance(t.comparators[0], ast.Constant) and t.comparators[0].value in ("lowest", "uppest")):
        raise AnalysisError("C05-T: the branch test is not a comparison of `mode` with \"lowest\" / \"uppest\"")
    # which arm runs for which (normalised) mode: decided from the test, whatever its polarity or literal
    def arm(modeval):
        truth = (modeval == t.comparators[0].value) == isinstance(t.ops[0], ast.Eq)
        return br.body if truth else br.orelse
    from ..domains.poly import eval_expr, S as _S, C as _C

    def bounds(block):
        """name -> (lower, upper) of the last-axis slice applied to that name in this block, as polynomials in neig and n (= size of the axis)"""
        env = {pn: _S("neig")}
        out = {}

        def atom(e):
            if isinstance(e, ast.Subscript) and isinstance(e.value, ast.Attribute) and e.value.attr == "shape" and ast.unparse(e.slice) in ("-1",) \
                    and isinstance(e.value.value, ast.Name) and e.value.value.id in (pe, pv):
                return _S("n")
            if isinstance(e, ast.Call) and ast.unparse(e.func) in ("len",) and False:
                return None
            return None
        for s_ in block:
            if isinstance(s_, ast.Assign) and isinstance(s_.targets[0], ast.Name):
                tg = s_.targets[0].id
                v = s_.value
                if isinstance(v, ast.Subscript) and isinstance(v.value, ast.Name) and v.value.id == tg and tg in (pe, pv):
                    sl = v.slice
                    elts = sl.elts if isinstance(sl, ast.Tuple) else [sl]
                    if len(elts) == 2 and isinstance(elts[0], ast.Constant) and elts[0].value is Ellipsis and isinstance(elts[1], ast.Slice) and elts[1].step is None:
                        lo_ = eval_expr(elts[1].lower, env, atom) if elts[1].lower is not None else None
                        up_ = eval_expr(elts[1].upper, env, atom) if elts[1].upper is not None else None
                        out[tg] = (repr(lo_) if lo_ is not None else None, repr(up_) if up_ is not None else None)
                    else:
                        out[tg] = ("?", ast.unparse(sl))
                else:
                    try:
                        env[tg] = eval_expr(v, env, atom)
                    except Uninterpretable:
                        pass
        return out
    try:
        lo, up = bounds(arm("lowest")), bounds(arm("uppest"))
    except Uninterpretable as e:
        raise AnalysisError("C05-T: cannot interpret the slices of _take_eigpairs: %s" % e)
    neig_, n_ = _S("neig"), _S("n")
    first = {(None, repr(neig_)), (repr(_C(0)), repr(neig_))}
    last = {(repr(-neig_), None), (repr(n_ - neig_), None), (repr(-neig_), repr(n_)), (repr(n_ - neig_), repr(n_))}
    ok_lo = lo.get(pe) == lo.get(pv) and lo.get(pe) in first
    ok_up = up.get(pe) in last and up.get(pv) in last
    if ok_lo:
        T.ok(f.fq, "lowest: the first neig entries of the last axis, the same slice for values and (columns of) vectors")
    else:
        T.bad(f, br, "mode 'lowest' must take [..., :neig] of both the eigenvalues and the eigenvector columns (found %s)" % lo)
    if ok_up:
        T.ok(f.fq, "uppermost: the last neig entries of the last axis, the same slice for values and vectors")
    else:
        T.bad(f, br, "mode 'uppest' must take [..., -neig:] of both the eigenvalues and the eigenvector columns (found %s)" % up)
    rets = [r for r in own_nodes(f.node) if isinstance(r, ast.Return)]
    if rets and ast.unparse(rets[-1].value).replace(" ", "") in ("(%s,%s)" % (pe, pv), "%s,%s" % (pe, pv)):
        T.ok(f.fq, "returns (values, vectors) in this order")
    else:
        T.bad(f, rets[-1] if rets else f.node, "_take_eigpairs must return (values, vectors)")


def _take_callsites(model: Model, f: FuncInfo, T: RuleResult):
    pe, pv, pn, pm = f.params()[:4]
    # call sites: (values, vectors) of an ascending decomposition, with the caller's neig and mode
    n_sites = 0
    for g in model.module(IMPL).functions.values():
        for c in own_nodes(g.node):
            if isinstance(c, ast.Call) and ast.unparse(c.func) == "_take_eigpairs":
                n_sites += 1
                args = [ast.unparse(a) for a in c.args]
                st = enclosing_stmt(c)
                # the first two arguments are the targets of the closest preceding eigh-like tuple assignment
                src_ok = False
                blk = getattr(st, "_parent", None)
                body = None
                for fld in ("body", "orelse"):
                    if blk is not None and st in getattr(blk, fld, []):
                        body = getattr(blk, fld)
                if body is not None:
                    k = body.index(st)
                    for prev in reversed(body[:k]):
                        if isinstance(prev, ast.Assign) and isinstance(prev.targets[0], ast.Tuple) and isinstance(prev.value, ast.Call) \
                                and ast.unparse(prev.value.func) in ("torch.linalg.eigh", "degen_symeig.apply"):
                            tn = [ast.unparse(e) for e in prev.targets[0].elts]
                            src_ok = tn == args[:2]
                            break
                gp = g.params()
                if src_ok and len(args) == 4 and args[2] in gp and args[3] in gp and "neig" in args[2] and "mode" in args[3]:
                    T.ok(g.fq, "%s selects from eigh's (values, vectors) with the caller's (neig, mode)" % g.name)
                else:
                    T.bad(g, st, "_take_eigpairs must receive eigh's (values, vectors) pair in this order and the caller's neig and mode (got %s)" % args)
    if n_sites < 3:
        raise AnalysisError("C05-T: only %d call sites of _take_eigpairs found (3 confirmed)" % n_sites)
    # degen_symeig.forward returns eigh's pair unchanged
    dg = model.func(IMPL, "degen_symeig.forward")
    src = ast.unparse(dg.node)
    rets = [r for r in own_nodes(dg.node) if isinstance(r, ast.Return)]
    asg = [s for s in own_nodes(dg.node) if isinstance(s, ast.Assign) and isinstance(s.value, ast.Call) and ast.unparse(s.value.func) == "torch.linalg.eigh"]
    # every definition of the returned names is that one eigh call: a second producer on some path (a "diagonal matrix" / "small matrix"
    # special case) is a second implementation of the decomposition whose ordering / normalisation conventions nothing ties to LAPACK's
    other_defs = []
    if asg and rets:
        _tn = {n.id for n in ast.walk(asg[0].targets[0]) if isinstance(n, ast.Name)}
        for s_ in own_nodes(dg.node):
            if isinstance(s_, (ast.Assign, ast.AugAssign)) and s_ is not asg[0]:
                for t_ in (s_.targets if isinstance(s_, ast.Assign) else [s_.target]):
                    if any(isinstance(n, ast.Name) and n.id in _tn for n in ast.walk(t_)):
                        other_defs.append(s_)
    if other_defs:
        T.bad(dg, other_defs[0], "on some path degen_symeig.forward takes the eigenpairs from `%s` instead of torch.linalg.eigh: a special-case producer has its own "
              "ordering / normalisation (A X = X diag(E) with ascending E and orthonormal X is LAPACK's contract, not this expression's)" % norm_stmt(other_defs[0], 70))
    elif asg and rets and ast.unparse(asg[0].targets[0]).strip("()") == ast.unparse(rets[-1].value).strip("()") and ast.unparse(asg[0].value.args[0]) == dg.params()[1]:
        T.ok(dg.fq, "degen_symeig.forward returns torch.linalg.eigh(A) unchanged (ascending values, orthonormal vectors)")
    else:
        T.bad(dg, dg.node, "degen_symeig.forward must return torch.linalg.eigh of its argument unchanged")
    # mode normalisation in the public wrapper
    sy = model.func(PUB, "symeig")
    _mode_normalisation(model, sy, T)


def _canonical_mode(model: Model, value: str) -> Optional[str]:
    """the spelling of `mode` that reaches symeig's dispatch for a caller's spelling (abstract run of symeig's own normalisation
    statements); None when they cannot be interpreted"""
    from ..domains.dictsem import DictInterp, Unsupported, Raised
    sy = model.func(PUB, "symeig")
    writers = [st for st in sy.node.body if any(isinstance(n, ast.Name) and n.id == "mode" and isinstance(n.ctx, ast.Store) for n in ast.walk(st))]
    env0 = {}
    for st in model.module(PUB).tree.body:
        if isinstance(st, ast.Assign) and len(st.targets) == 1 and isinstance(st.targets[0], ast.Name) and isinstance(st.value, ast.Dict):
            try:
                env0[st.targets[0].id] = DictInterp({}).ev(st.value)
            except (Unsupported, Raised):
                pass
    it = DictInterp(dict(env0, mode=value))
    try:
        it.run(writers)
    except (Unsupported, Raised):
        return None
    got = it.env.get("mode")
    return got if isinstance(got, str) else None


def _mode_normalisation(model: Model, sy: FuncInfo, T: RuleResult):
    """The statements of symeig that (re)bind `mode` are evaluated abstractly on probe spellings (string constants only; nothing of the
    repository runs): whatever the spelling - if chain, alias table, conditional expression - 'LOWEST' must arrive as 'lowest' and
    'uppermost' / 'UpperMost' as 'uppest' at the dispatch."""
    from ..domains.dictsem import DictInterp, Unsupported, Raised, ADict
    pmode = "mode" if "mode" in sy.all_params() else None
    if pmode is None:
        raise AnchorError("C05-T: symeig no longer has a `mode` parameter")

    def stores_mode(st):
        return any(isinstance(n, ast.Name) and n.id == pmode and isinstance(n.ctx, ast.Store) for n in ast.walk(st))
    body = list(sy.node.body)
    writers = [st for st in body if stores_mode(st)]
    nested = [n for n in own_nodes(sy.node) if isinstance(n, ast.Name) and n.id == pmode and isinstance(n.ctx, ast.Store)
              and not any(n in list(ast.walk(w)) for w in writers)]
    if nested:
        T.undecided(sy, enclosing_stmt(nested[0]), "cannot identify the normalisation of `mode`: it is re-bound inside a nested block")
        return
    # the first read of mode outside the writers must come after the last writer
    reads = [n for n in own_nodes(sy.node) if isinstance(n, ast.Name) and n.id == pmode and isinstance(n.ctx, ast.Load)
             and not any(n in list(ast.walk(w)) for w in writers)]
    first_read = min((n.lineno for n in reads), default=None)
    if writers and first_read is not None and first_read < max(w.lineno for w in writers):
        T.bad(sy, writers[-1], "symeig uses `mode` (line %d) before its normalisation is complete" % first_read)
        return
    env0 = {}
    for st in model.module(PUB).tree.body:
        if isinstance(st, ast.Assign) and len(st.targets) == 1 and isinstance(st.targets[0], ast.Name) and isinstance(st.value, ast.Dict):
            try:
                env0[st.targets[0].id] = DictInterp({}).ev(st.value)
            except (Unsupported, Raised):
                pass
    probes = {"lowest": "lowest", "uppest": "uppest", "uppermost": "uppest", "LOWEST": "lowest", "UpperMost": "uppest", "UPPEST": "uppest"}
    for inp, want in probes.items():
        it = DictInterp(dict(env0, **{pmode: inp}))
        try:
            it.run(writers)
        except Unsupported as e:
            T.undecided(sy, writers[0] if writers else sy.node, "cannot interpret the normalisation of `mode` in symeig (%s)" % e)
            return
        except Raised as e:
            T.bad(sy, writers[0], "symeig(mode=%r) raises (%s) instead of dispatching on %r" % (inp, e, want))
            return
        got = it.env.get(pmode)
        if got != want:
            T.bad(sy, writers[-1] if writers else sy.node, "symeig must lower-case `mode` and map 'uppermost' to 'uppest' before dispatch: mode=%r arrives as %r, the "
                  "handled spelling is %r (the solver then takes the other end of the spectrum or fails)" % (inp, got, want))
            return
    T.ok(sy.fq, "symeig lower-cases the mode and maps 'uppermost' to the handled spelling 'uppest' (%d probe spellings evaluated over %d statement(s))" % (len(probes), len(writers)))


# ------------------------------------------------------------------------------------------ C05-Q
def _tallqr(model: Model, Q: RuleResult):
    f = model.func(TENS, "tallqr")
    pv, pmv = f.params()[:2]
    sq = _Seq({pv: "V"}, real_transpose=True)
    # MV = M V (if MV is None: MV = V, i.e. M = I): evaluate with MV := M V
    sq.env[pmv] = (("M", False, False), ("V", False, False))
    ret = None
    try:
        for s in f.node.body:
            if isinstance(s, ast.If):
                t = ast.unparse(s.test)
                if t == "%s is None" % pmv and len(s.body) == 1 and isinstance(s.body[0], ast.Assign) and ast.unparse(s.body[0]) == "%s = %s" % (pmv, pv):
                    continue
                raise Uninterpretable("conditional %s" % t)
            if isinstance(s, ast.Return):
                ret = s.value
                break
            if isinstance(s, ast.Assign) and isinstance(s.targets[0], ast.Name):
                sq.assign(s.targets[0].id, s.value)
            elif isinstance(s, ast.Expr) and isinstance(s.value, ast.Constant):
                continue
            else:
                raise Uninterpretable("statement %s" % norm_stmt(s))
    except Uninterpretable as e:
        raise AnalysisError("C05-Q: cannot interpret tallqr: %s" % e)
    if not (isinstance(ret, ast.Tuple) and len(ret.elts) == 2):
        raise AnalysisError("C05-Q: tallqr does not return (Q, R)")
    Qw, Rw = sq.ev(ret.elts[0]), sq.ev(ret.elts[1])
    herm = frozenset({"M"})
    # G = V^H M V is the factorised matrix: chol symbols are named after the word they factorise
    qmq = mul(adj(Qw, herm), sym("M"), Qw)
    # rewrite V^H M V -> C C^H where C = chol((V^H M V)^H) (Hermitian, so the same matrix)
    gram = (("V", True, False), ("M", False, False), ("V", False, False))
    chols = [c for c, x in sq.we.chol.items() if simplify(x, herm) in (gram, simplify(adj(gram, herm), herm))]
    what = "Q = %s, R = %s" % (show(Qw), show(Rw))
    if len(chols) != 1:
        Q.bad(f, f.node, "tallqr does not factorise the Gram matrix V^H (M V) by Cholesky (factorised: %s)" % {c: show(x) for c, x in sq.we.chol.items()}, what=what)
        return
    C = chols[0]
    out: List = []
    w = list(qmq)
    k = 0
    while k < len(w):
        if tuple(w[k:k + 3]) == gram:
            out += [(C, False, False), (C, True, False)]
            k += 3
        else:
            out.append(w[k])
            k += 1
    red = simplify(tuple(out))
    if red == ():
        Q.ok(f.fq, "Q^H M Q normalises to the identity: Q = V R^-1 with R = C^H, C C^H = V^H M V", words=what)
    else:
        Q.bad(f, enclosing_stmt(ret), "Q^H M Q normalises to %s, not the identity: the returned basis is not M-orthonormal" % show(red), what=what)
    rr = mul(adj(Rw, herm), Rw)
    if rr == ((C, False, False), (C, True, False)) or simplify(mul(adj(Rw), Rw)) == ((C, False, False), (C, True, False)):
        Q.ok(f.fq, "R^H R = V^H M V (R is the Cholesky factor's adjoint)")
    else:
        Q.bad(f, enclosing_stmt(ret), "R^H R normalises to %s instead of the factorised Gram matrix" % show(rr), what=what)
    if Qw == simplify(mul(sym("V"), inv(Rw))):
        Q.ok(f.fq, "Q = V R^-1 with the R that is returned")
    else:
        Q.bad(f, enclosing_stmt(ret), "Q (%s) is not V times the inverse of the returned R (%s)" % (show(Qw), show(Rw)), what=what)


# ------------------------------------------------------------------------------------------ C05-D
def _davidson(model: Model, D: RuleResult):
    f = model.func(IMPL, "davidson")
    pA, pM = f.params()[0], f.params()[3]
    loops = [l for l in f.node.body if isinstance(l, ast.For)]
    if len(loops) != 1:
        raise AnalysisError("C05-D: davidson no longer has a single iteration loop")
    loop = loops[0]
    leaves = {pA: "A", pM: "M", "V": "V"}
    sq = _Seq(dict(leaves), real_transpose=True)
    sq.env["AV"] = (("A", False, False), ("V", False, False))
    resid_words = {}
    ritz = None
    info = {}
    defs_in_loop: Dict[str, ast.AST] = {}
    # AV before the loop really is A.mm(V)
    pre = [s for s in f.node.body if isinstance(s, ast.Assign) and isinstance(s.targets[0], ast.Name) and s.targets[0].id == "AV"]
    if pre and ast.unparse(pre[0].value) == "%s.mm(V)" % pA:
        D.ok(f.fq, "the image block is initialised as A V")
    else:
        D.bad(f, pre[0] if pre else f.node, "AV must be initialised with A.mm(V)")
    try:
        for s in loop.body:
            if isinstance(s, ast.Assign) and isinstance(s.targets[0], ast.Tuple) and isinstance(s.value, ast.Call):
                fn = ast.unparse(s.value.func)
                names = [e.id for e in s.targets[0].elts if isinstance(e, ast.Name)]
                if fn == "torch.linalg.eigh" and len(names) == 2:
                    info["T"] = sq.ev(s.value.args[0])
                    sq.env[names[0]], sq.env[names[1]] = sym("TH"), sym("Y")
                    continue
                if fn == "_take_eigpairs":
                    continue
                break
            if isinstance(s, ast.Assign) and isinstance(s.targets[0], ast.Name):
                nm = s.targets[0].id
                v = s.value
                if nm == "LVs" and isinstance(v, ast.BinOp) and isinstance(v.op, ast.Mult):
                    # theta (row-broadcast) * Ritz vectors: a column scaling, written as the word <vectors> TH
                    parts = [v.left, v.right]
                    vec = [p for p in parts if not ("unsqueeze" in ast.unparse(p))]
                    sc = [p for p in parts if "unsqueeze(-2)" in ast.unparse(p)]
                    if len(vec) == 1 and len(sc) == 1 and sq.ev(sc[0].func.value) == sym("TH"):
                        sq.env[nm] = mul(sq.ev(vec[0]), sym("TH"))
                        continue
                    raise Uninterpretable("eigenvalue scaling %s" % norm_stmt(s))
                if nm == "resid" and isinstance(v, ast.BinOp) and isinstance(v.op, ast.Sub):
                    info["resid"] = (sq.ev(v.left), sq.ev(v.right), s)
                    break
                sq.assign(nm, v)
                continue
            if isinstance(s, ast.If) and ast.unparse(s.test) == "%s is not None" % pM:
                # generalised problem: the branch body is applied (M given); the other case is M = I
                for b in s.body:
                    if isinstance(b, ast.Assign) and isinstance(b.targets[0], ast.Name):
                        info.setdefault("Mbranch", []).append(b)
                        sq.assign(b.targets[0].id, b.value)
                continue
            if isinstance(s, ast.Expr) and isinstance(s.value, ast.Constant):
                continue
    except Uninterpretable as e:
        raise AnalysisError("C05-D: cannot interpret the Rayleigh-Ritz step of davidson: %s" % e)
    herm = frozenset({"A", "M"})
    Tw = info.get("T")
    if Tw is not None and simplify(Tw, herm) == (("V", True, False), ("A", False, False), ("V", False, False)):
        D.ok(f.fq, "projected matrix T = V^H A V (Rayleigh-Ritz)")
    else:
        D.bad(f, loop, "the projected matrix handed to eigh is %s, not V^H A V" % (show(Tw) if Tw is not None else "?"))
    if "resid" not in info:
        raise AnalysisError("C05-D: the residual `resid = <A V y> - <M V y theta>` was not found in the loop")
    lw, rw, rs = info["resid"]
    exp_l = (("A", False, False), ("V", False, False), ("Y", False, False))
    exp_r = (("M", False, False), ("V", False, False), ("Y", False, False), ("TH", False, False))
    if simplify(lw, herm) == exp_l and simplify(rw, herm) == exp_r and info.get("Mbranch"):
        D.ok(f.fq, "residual = A (V y) - M (V y) diag(theta), with M applied exactly when M is given")
    else:
        D.bad(f, rs, "the residual is %s - %s; expected A V Y - M V Y TH (M applied iff given)" % (show(lw), show(rw)))
    ev_ = sq.env.get("eigvecA")
    if ev_ is not None and ev_ == (("V", False, False), ("Y", False, False)):
        D.ok(f.fq, "Ritz vectors = V y")
    else:
        D.bad(f, loop, "the Ritz vectors must be V times the eigenvectors of the projected matrix")
    # stopping test, best bookkeeping, return
    src = ast.unparse(loop)
    brk = [s for s in loop.body if isinstance(s, ast.If) and any(isinstance(b, ast.Break) for b in s.body)]
    def _disjuncts(t):
        """the alternatives of a stopping test, each comparison in a canonical orientation (a < b; == with sorted sides)"""
        parts = t.values if isinstance(t, ast.BoolOp) and isinstance(t.op, ast.Or) else [t]
        out = []
        for q in parts:
            if isinstance(q, ast.BoolOp) and isinstance(q.op, ast.Or):
                out.extend(_disjuncts(q))
            elif isinstance(q, ast.Compare) and len(q.ops) == 1:
                l_, r_ = ast.unparse(q.left), ast.unparse(q.comparators[0])
                if isinstance(q.ops[0], ast.Gt):
                    out.append("%s < %s" % (r_, l_))
                elif isinstance(q.ops[0], ast.Eq):
                    out.append("%s == %s" % tuple(sorted((l_, r_))))
                else:
                    out.append(ast.unparse(q))
            else:
                out.append(ast.unparse(q))
        return out
    tests = [d for s in brk for d in _disjuncts(s.test)]
    eps = [p for p in f.params() + f.kwonly() if "eps" in p]
    if eps and any(t == "max_resid < %s" % eps[0] for t in tests) and has_form(loop, "max_resid = resid.abs().max()"):
        D.ok(f.fq, "the iteration stops when max|residual| < %s (all requested pairs, all batches)" % eps[0])
    else:
        D.bad(f, brk[0] if brk else loop, "the loop must stop on max|resid| < min_eps with max_resid the largest residual entry")
    # the loop is left only when the residual test succeeds or the search space is the whole space (AV square): any other exit returns
    # unconverged Ritz pairs as if they were eigenpairs
    allowed_tests = {"max_resid < %s" % (eps[0] if eps else "min_eps"), "AV.shape[-1] == AV.shape[-2]"}
    other_exits = [b for b in brk if not set(_disjuncts(b.test)) <= allowed_tests]
    deep = [n for n in ast.walk(loop) if isinstance(n, (ast.Break, ast.Return)) and not any(n in b.body for b in brk)]
    if not other_exits and not deep:
        D.ok(f.fq, "the iteration is left only on max|resid| < min_eps or when the basis spans the whole space (exact Rayleigh-Ritz)")
    else:
        D.bad(f, (other_exits + deep)[0] if not isinstance((other_exits + deep)[0], ast.If) else other_exits[0], "davidson can leave its loop by a test other than the residual test / full-space test: "
              "the best *unconverged* Ritz pairs are then returned as eigenpairs, without any warning")
    best = [s for s in loop.body if isinstance(s, ast.If) and "best_resid" in ast.unparse(s.test)]
    okb = False
    if best:
        t = best[0].test
        asg = {ast.unparse(b.targets[0]): ast.unparse(b.value) for b in best[0].body if isinstance(b, ast.Assign)}
        okb = (isinstance(t, ast.Compare) and isinstance(t.ops[0], ast.Lt) and ast.unparse(t.left) == "max_resid" and asg.get("best_resid") == "max_resid"
               and asg.get("best_eigvals") in ("eigvalT",) and asg.get("best_eigvecs") == "eigvecA")
        # the update precedes the break tests
        okb = okb and all(loop.body.index(best[0]) < loop.body.index(b) for b in brk)
    rets = [r for r in own_nodes(f.node) if isinstance(r, ast.Return)]
    fdefs = function_defs(f.node)

    def chase(e):
        if isinstance(e, ast.Name) and len(fdefs.get(e.id, [])) == 1 and isinstance(fdefs[e.id][0], ast.Name):
            e = fdefs[e.id][0]
        return ast.unparse(e)
    okr = bool(rets) and isinstance(rets[-1].value, ast.Tuple) and [chase(e) for e in rets[-1].value.elts] == ["best_eigvals", "best_eigvecs"]
    if okb and okr:
        D.ok(f.fq, "the pair with the smallest residual seen is recorded before the exit tests and is what is returned (values, vectors)")
    else:
        D.bad(f, best[0] if best else loop, "davidson must record (theta, V y) whenever max_resid improves, before testing for exit, and return that pair")
    # re-orthonormalisation against M with the M-image of the whole new block
    qr = [c for c in ast.walk(loop) if isinstance(c, ast.Call) and ast.unparse(c.func) == "tallqr"]
    okq = len(qr) >= 1
    qdefs = function_defs(f.node)
    covered = set()

    def effective_mv(c, given: bool):
        """what tallqr receives as MV when M is given / absent: 'image' (M.mm of the same block), 'none', or 'other'"""
        mvk = [k.value for k in c.keywords if k.arg == "MV"] or ([c.args[1]] if len(c.args) > 1 else [])
        if not mvk:
            return "none"
        todo, seen_, kinds_ = [mvk[0]], 0, set()
        while todo and seen_ < 20:
            e = todo.pop()
            seen_ += 1
            if isinstance(e, ast.IfExp):
                tt = ast.unparse(e.test)
                if tt == "%s is None" % pM:
                    todo.append(e.orelse if given else e.body)
                    continue
                if tt == "%s is not None" % pM:
                    todo.append(e.body if given else e.orelse)
                    continue
                kinds_.add("other")
                continue
            if isinstance(e, ast.Constant) and e.value is None:
                kinds_.add("none")
                continue
            if has_form(e, "%s.mm(%s)" % (pM, ast.unparse(c.args[0]))):
                kinds_.add("image")
                continue
            if isinstance(e, ast.Name) and qdefs.get(e.id):
                ds_ = [d for d in qdefs[e.id] if d is not None]
                # definitions under the opposite case do not reach this case
                ds_ = [d for d in ds_ if not under(d, "%s is not None" % pM, not given)] or ds_
                todo.extend(ds_)
                continue
            kinds_.add("other")
        return kinds_.pop() if len(kinds_) == 1 else "other"
    for c in qr:
        cases = [True] if under(c, "%s is not None" % pM) else ([False] if under(c, "%s is not None" % pM, False) else [True, False])
        for given in cases:
            covered.add(given)
            if not c.args or effective_mv(c, given) != ("image" if given else "none"):
                okq = False
    okq = okq and covered == {True, False}
    if okq:
        D.ok(f.fq, "the enlarged basis is re-orthonormalised by tallqr, against M (MV = M.mm of the same block) exactly when M is given")
    else:
        D.bad(f, enclosing_stmt(qr[0]) if qr else loop, "the new basis must be M-orthonormalised: tallqr(Vnew, MV=M.mm(Vnew)) when M is given, tallqr(Vnew) otherwise")
    # initial guess is M-orthonormalised likewise
    iv = model.func(IMPL, "_set_initial_v")
    isrc = ast.unparse(iv.node)
    ivrets = [r for r in own_nodes(iv.node) if isinstance(r, ast.Return)]
    ivdefs = function_defs(iv.node)
    all_via_qr = len(ivrets) == 1 and isinstance(ivrets[0].value, ast.Name) and \
        all(isinstance(d, ast.Call) and ast.unparse(d.func) == "tallqr" for d in ivdefs.get(ivrets[0].value.id, [])[-2:]) and \
        getattr(ivrets[0], "_parent", None) is iv.node
    if not all_via_qr:
        D.bad(iv, ivrets[0] if ivrets else iv.node, "_set_initial_v has an exit that does not go through tallqr: that start block is not M-orthonormal, and Davidson's cached A V "
              "goes stale at the first re-orthonormalisation")
    from ..model import has_form as _hf
    if _hf(iv.node, "tallqr(V, MV=M.mm(V))", "tallqr(V)"):
        D.ok(iv.fq, "the initial block is (M-)orthonormalised the same way")
    else:
        D.bad(iv, iv.node, "the initial guess must be orthonormalised with tallqr(V, MV=M.mm(V)) / tallqr(V)")


# ------------------------------------------------------------------------------------------ C05-S
_SVD_SPEC = {
    True: """
G = {A}.matmul({A}.H, is_hermitian=True)
eivals, eivecs = symeig(G, {k}, {mode}, bck_options={bck}, method={method}, **{fwd})
s = torch.sqrt(torch.clamp(eivals, min=0.0))
sdiv = torch.clamp(s, min=1e-12).unsqueeze(-2)
u = eivecs
v = {A}.rmm(u) / sdiv
return u, s, v.transpose(-2, -1).conj()
""",
    False: """
G = {A}.H.matmul({A}, is_hermitian=True)
eivals, eivecs = symeig(G, {k}, {mode}, bck_options={bck}, method={method}, **{fwd})
s = torch.sqrt(torch.clamp(eivals, min=0.0))
sdiv = torch.clamp(s, min=1e-12).unsqueeze(-2)
v = eivecs
u = {A}.mm(v) / sdiv
return u, s, v.transpose(-2, -1).conj()
"""}


def _svd(model: Model, S: RuleResult):
    """svd is evaluated over symbolic tensor terms (domains/tensorterm.py) once for a wide operator (m < n) and once for a tall one; on
    each path the returned triple must be the term of the specification above (Gram operator of the smaller side flagged Hermitian,
    decomposed by symeig with the caller's k / mode / method / options; s = sqrt(max(eig, 0)); the eigenvectors are the factor of that
    side and the other factor is A^H u / s resp. A v / s; vh = v^H) - whatever the arrangement of branches and temporaries.  The
    positive floor of the divisor is not part of the comparison."""
    from ..domains import tensorterm as tt
    f = model.func(PUB, "svd")
    ps = f.params()
    pA = ps[0]
    kw = f.kwarg()
    if len(ps) < 5 or kw is None:
        raise AnchorError("C05-S: svd no longer has the signature (A, k, mode, bck_options, method, **fwd_options)")
    names = dict(A=pA, k=ps[1], mode=ps[2], bck=ps[3], method=ps[4], fwd=kw)
    mod = model.module(PUB)
    functions = {n_: mod.functions[n_].node for n_ in ("symeig", "lsymeig", "usymeig") if n_ in mod.functions}
    shape = ("op", "attr.shape", tt.sym("A"))
    m_t, n_t = ("op", "index", shape, ("op", "slice", "-2")), ("op", "index", shape, ("op", "slice", "-1"))

    def relax(t):
        """the positive floor that protects the division is a tolerance, not part of the formula; a constant `mode` handed to symeig
        is replaced by the spelling symeig itself dispatches on ('uppermost' and 'uppest' are one request)"""
        if not isinstance(t, tuple):
            return t
        if len(t) == 3 and t[:2] == ("op", "arg.mode") and isinstance(t[2], tuple) and t[2][:2] == ("op", "const"):
            try:
                v_ = ast.literal_eval(t[2][2])
            except Exception:
                v_ = None
            c_ = _canonical_mode(model, v_) if isinstance(v_, str) else None
            return ("op", "arg.mode", ("op", "const", repr(c_))) if c_ is not None else t
        if len(t) == 4 and t[0] == "op" and t[1] == "clamp" and isinstance(t[3], tuple) and t[3][:2] == ("op", "kw.min") \
                and t[3][2][0] == "num" and t[3][2][1] > 0:
            return ("op", "clamp+", relax(t[2]))
        return tuple(relax(x) for x in t)

    class _Need(Exception):
        pass

    def run_case(wide, choices, env0):
        dbg_tests = []

        def decide(term, node):
            if any(x[0] == "op" and x[1] == "is_debug_enabled" for x in tt.subterms(term)):
                dbg_tests.append(node)
                return False              # the debug-only self-check of the operator must write nothing svd reads
            if term[0] == "cmp" and term[1] in ("<", "<="):
                v = None
                if (term[2], term[3]) == (m_t, n_t):
                    v = wide if term[1] == "<" else (wide or None)
                elif (term[2], term[3]) == (n_t, m_t):
                    v = (not wide) if term[1] == "<=" else ((not wide) or None)
                if v is not None:
                    return v
            key = ast.unparse(node)
            if key not in choices:
                raise _Need(key)
            return choices[key]
        ev = tt.TermEval(env0, decide, functions)
        ev.run([s_ for s_ in f.node.body if not (isinstance(s_, ast.Expr) and isinstance(s_.value, ast.Constant))])
        return ev, dbg_tests

    rets = [r for r in own_nodes(f.node) if isinstance(r, ast.Return)]
    for wide, probe in [(w_, p_) for w_ in (True, False) for p_ in ("lowest", "uppest", "uppermost", "LOWEST")]:
        case = "%s, mode=%r" % ("m < n" if wide else "m >= n", probe)
        env0 = {pA: tt.sym("A"), names["mode"]: ("op", "const", repr(probe))}
        spec = tt.TermEval(env0, None, functions)
        pending = [dict()]
        outcomes = []
        try:
            spec.run(ast.parse(_SVD_SPEC[wide].format(**names).replace("return ", "__ret = ")).body)
            while pending:
                ch = pending.pop()
                if len(ch) > 3:
                    raise tt.Unsupported("more than three tests the terms do not decide")
                try:
                    ev, dbg_tests = run_case(wide, ch, env0)
                except _Need as need:
                    # a test svd's contract does not mention (the specification has none): both outcomes must give the specified result
                    pending.append(dict(ch, **{str(need): True}))
                    pending.append(dict(ch, **{str(need): False}))
                    continue
                outcomes.append((ch, ev, dbg_tests))
        except tt.Unsupported as e:
            S.undecided(f, f.node, "cannot interpret svd for %s: %s" % (case, e))
            return
        want = spec.env.get("__ret")
        for ch, ev, dbg_tests in outcomes:
            got = ev.returned
            label = case + ("" if not ch else " and " + ", ".join("%s%s" % ("" if v_ else "not ", k_) for k_, v_ in sorted(ch.items())))
            if got is None:
                S.bad(f, f.node, "svd returns nothing for %s" % label)
                continue
            dbg_stores = {n_.id for i_ in own_nodes(f.node) if isinstance(i_, ast.If) and any(i_.test is t_ for t_ in dbg_tests)
                          for st_ in i_.body for n_ in ast.walk(st_) if isinstance(n_, ast.Name) and isinstance(n_.ctx, ast.Store)}
            if dbg_stores:
                S.undecided(f, f.node, "cannot identify the values of %s: written inside a debug-only block" % sorted(dbg_stores))
                return
            if relax(got) == relax(want):
                S.ok(f.fq, "%s: Gram operator %s flagged Hermitian, decomposed by symeig with the caller's k, mode, method and options; s = sqrt(max(eig, 0)); "
                     "%s = eigenvectors, %s = %s / s; returns (u, s, v^H)" % (label, "A A^H" if wide else "A^H A", "u" if wide else "v", "v" if wide else "u",
                                                                              "A^H u" if wide else "A v"))
                S.ok(f.fq, "%s: term comparison with the specification (domains/tensorterm.py)" % label)
            elif tt.foreign_operators(relax(got), relax(want)):
                S.undecided(f, rets[-1] if rets else f.node, "cannot interpret svd for %s: it uses %s, which the specification term does not"
                            % (label, tt.foreign_operators(relax(got), relax(want))))
                return
            else:
                parts = ("u", "s", "vh")
                gl, wl = (got[2:] if got[:2] == ("op", "tuple") else ()), want[2:]
                diff = [parts[i] for i in range(min(len(gl), 3)) if relax(gl[i]) != relax(wl[i])] if len(gl) == 3 else ["the returned value is not a triple"]
                S.bad(f, rets[-1] if rets else f.node, "%s: svd must take the Gram operator %s (is_hermitian=True), decompose it with symeig(G, k, mode, bck_options=.., method=.., "
                      "**fwd_options), and return (u, s, vh) with s = sqrt(clamp(eig, 0)), the eigenvectors on that side and the other factor %s / s, vh = v^H; differs in: %s "
                      "[got %s]" % (label, "A.matmul(A.H)" if wide else "A.H.matmul(A)", "A.rmm(u)" if wide else "A.mm(v)", ", ".join(diff), tt.show(got)[:300]))
    S.ok(f.fq, "m, n are the row and column counts of A (the case split is decided on A.shape[-2] < A.shape[-1])")


# ------------------------------------------------------------------------------------------ C05-V
def _validation(model: Model, V: RuleResult):
    f = model.func(PUB, "symeig")
    pA, pM = "A", "M"
    cfg = CFG(f.node)
    dom = cfg.dominators(skip_exc=True)
    asserts = [s for s in ast.walk(f.node) if isinstance(s, ast.Expr) and isinstance(s.value, ast.Call) and ast.unparse(s.value.func) == "assert_runtime"]
    conds = [ast.unparse(s.value.args[0]) for s in asserts]
    work = [s for s in ast.walk(f.node) if isinstance(s, ast.Return)]
    need = ["A.is_hermitian", "M.is_hermitian", "M.shape[-1] == A.shape[-1]"]
    for n in need:
        hit = [s for s, c in zip(asserts, conds) if c == n]
        guarded_m = n.startswith("M")
        if hit and all(stmt_dominates(cfg, dom, hit[0], w) or guarded_m for w in work):
            V.ok(f.fq, "`%s` is asserted before any decomposition%s" % (n, " (when M is given)" if guarded_m else ""))
        else:
            V.bad(f, hit[0] if hit else f.node, "symeig must assert `%s` before computing" % n)
    # M asserts are under `if M is not None`
    mifs = [s for s in f.node.body if isinstance(s, ast.If) and ast.unparse(s.test) == "M is not None"]
    if mifs and all(any(a is x for x in ast.walk(mifs[0])) for a, c in zip(asserts, conds) if c.startswith("M.")):
        V.ok(f.fq, "the checks on M run exactly when M is given")
    else:
        V.bad(f, f.node, "the Hermiticity / shape checks of M must run whenever M is given")
    src = ast.unparse(f.node)
    from ..model import has_form as _hf3
    if _hf3(f.node, "if neig is None:\n    neig = A.shape[-1]"):
        V.ok(f.fq, "neig defaults to the full size")
    else:
        V.bad(f, f.node, "neig must default to A.shape[-1]")
    at = model.func("xitorch/_utils/assertfuncs.py", "assert_runtime")
    if any(isinstance(r, ast.Raise) for r in own_nodes(at.node)):
        V.ok(at.fq, "assert_runtime raises when the condition fails")
    else:
        V.bad(at, at.node, "assert_runtime no longer raises")


def rules(model: Model, tier: str) -> List[RuleResult]:
    R = RuleResult(PROP, "C05-R", "dense generalised path: congruence reduction with P M P^H = I and back-transformation X = P^H W (word normalisation)", min_instances=6)
    T = RuleResult(PROP, "C05-T", "requested pairs = first / last neig of eigh's ascending output, same slice on values and vectors, every call site", min_instances=8)
    Q = RuleResult(PROP, "C05-Q", "tallqr: Q^H M Q normalises to the identity", min_instances=3)
    D = RuleResult(PROP, "C05-D", "Davidson: Rayleigh-Ritz projection, residual with M iff given, enumerated loop exits, best-pair bookkeeping, M-orthonormalisation on every path", min_instances=9)
    S = RuleResult(PROP, "C05-S", "svd: Gram operator / eigenvector side / other factor pairing, non-negative s, vh = v^H", min_instances=9)
    V = RuleResult(PROP, "C05-V", "Hermiticity and shape asserted before computing; defaults", min_instances=6)
    _reduction(model, R)
    _take(model, T)
    _tallqr(model, Q)
    _davidson(model, D)
    _svd(model, S)
    _validation(model, V)
    from ..rules import autograd as _ac
    _R11 = RuleResult(PROP, "AC11", "every exit of the public functional returns the Function's output; forward's solution comes only from the dispatched implementation; operands unchanged", min_instances=2)
    for _cn in ['symeig_torchfcn']:
        _fc = _ac.get_fncls(model, _cn)
        _ac.ac11_wrapper_returns(model, _fc, _R11)
        _ac.ac11_forward_provenance(model, _fc, _R11)
    from ..rules import linopalg
    from ..rules.hermitian import hermitian_idiom
    Hh = RuleResult(PROP, "C05-H", "every last-two-axes transpose in the dense paths and in the operator base class is conjugated (complex Hermitian operators)", min_instances=8)
    hermitian_idiom(model, Hh, {"xitorch/_core/linop.py", "xitorch/linalg/symeig.py", "xitorch/_impls/linalg/symeig.py"},
                    {("xitorch/_impls/linalg/symeig.py", "davidson"): "real-only path: the property quantifies complex128 over the dense paths only"})
    ADJ = RuleResult(PROP, "C05-A", "operator algebra under svd's Gram operator: composed operators' _rmv is the formal adjoint of _mv", min_instances=4)
    HF = RuleResult(PROP, "C05-HF", "Hermitian flag of composed operators (truth table): a wrong True turns A.H into A", min_instances=4)
    linopalg.adjoint_structure(model, ADJ)
    linopalg.hermitian_flags(model, HF)
    return [R, T, Q, D, S, V, _R11, Hh, ADJ, HF]
