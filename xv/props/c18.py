"""C18 -- results do not depend on how the forward solution was produced: dispatch discipline."""
from __future__ import annotations
import ast
from collections import deque
from typing import List, Optional, Dict, Set, Tuple
from ..model import Model, FuncInfo, own_nodes, norm_stmt, AnalysisError, AnchorError, enclosing_stmt, ancestors, parent
from ..report import RuleResult
from ..cfg import CFG, Node
from ..flow import function_defs, names_loaded
from ..callgraph import resolve_call
from ..rules.dispatch import all_get_method_calls, dispatch_tables_in, resolve_table_expr
from ..rules import autograd as ac
from ..rules.options import option_merge

PROP = "C18"
LEVEL = "other"
EXPLANATION = (
    "Dispatch discipline decided from the source: (G) every functional routes the caller's `method` through get_method "
    "(8 call sites) and no method table is subscripted by the caller's value anywhere else; (L) every key of every table "
    "handed to get_method is a lower-case string literal and every documented built-in name is a key of the table (or handled "
    "by an explicit pre-dispatch branch); (C) every comparison / membership test of the caller's `method` against names "
    "outside get_method happens on a lower-cased (or non-string) value - typestate over the CFG; (R) get_method returns "
    "methods[<lower-cased name>] under a membership guard, or the callable itself, and raises on every other path - no silent "
    "default; (A) the implementation is called with the documented positional arguments and the caller's extra options by ** "
    "splat, with `method` removed; (N) that call is inside Function.forward (no autograd graph) and not under "
    "torch.enable_grad(); (O) backward options are merged as set_default_option(<complete forward options>, bck_options). "
    "NOT decided: equality of gradients across methods.")
ASSUMPTIONS = ["autograd.Function.forward runs with gradient recording disabled (torch semantics)"]

MISC = "xitorch/_utils/misc.py"

# public entry points whose `method` parameter is the caller's value
PUBLIC = [
    ("xitorch/linalg/solve.py", "solve"), ("xitorch/linalg/symeig.py", "symeig"),
    ("xitorch/optimize/rootfinder.py", "rootfinder"), ("xitorch/optimize/rootfinder.py", "equilibrium"),
    ("xitorch/optimize/rootfinder.py", "minimize"), ("xitorch/integrate/solve_ivp.py", "solve_ivp"),
    ("xitorch/integrate/quad.py", "quad"), ("xitorch/integrate/mcquad.py", "mcquad"),
    ("xitorch/interpolate/interp1.py", "Interp1D.__init__"), ("xitorch/integrate/squad.py", "SQuad.__init__"),
]

DOC_TABLES = {
    # documented names -> (module, name of the docs table, the dispatching function(s))
    "xitorch/linalg/solve.py": ("_solve_methods", ["solve_torchfcn.forward", "solve"]),
    "xitorch/linalg/symeig.py": ("_symeig_methods", ["symeig_torchfcn.forward", "symeig"]),
    "xitorch/integrate/solve_ivp.py": ("ivp_methods", ["_SolveIVP.forward"]),
    "xitorch/interpolate/interp1.py": ("interp1d_methods", ["Interp1D.__init__"]),
    "xitorch/integrate/squad.py": ("_squad_methods", ["SQuad.__init__"]),
}


def rules(model: Model, tier: str) -> List[RuleResult]:
    G = RuleResult(PROP, "C18-G", "the caller's method is resolved only through get_method", min_instances=8)
    L = RuleResult(PROP, "C18-L", "table keys are lower-case literals; documented names are dispatchable", min_instances=30)
    C = RuleResult(PROP, "C18-C", "pre-dispatch comparisons of `method` are case-insensitive", min_instances=4)
    Rr = RuleResult(PROP, "C18-R", "get_method: table lookup under a membership guard, callable passthrough, else raise", min_instances=4)
    A = RuleResult(PROP, "C18-A", "implementation called with positional arguments and **options without `method`", min_instances=8)
    N = RuleResult(PROP, "C18-N", "implementation runs inside Function.forward and not under enable_grad", min_instances=6)
    O = RuleResult(PROP, "C18-O", "backward options = set_default_option(<complete forward options>, bck_options)", min_instances=5)
    sites = all_get_method_calls(model)
    _routes(model, sites, G)
    _keys(model, sites, L)
    _case(model, C)
    _get_method(model, Rr)
    _contract(model, sites, A, N)
    for fc in ac.function_classes(model):
        if option_merge(model, fc, O) == 0 and fc.name in ac.MERGING_CLASSES:
            # no literal set_default_option(..) call: the merge is decided semantically, whatever its spelling ({**a, **b}, dict + update, a helper)
            verdict = ac.option_merge_semantic(model, fc)
            if verdict is None:
                O.undecided(fc.forward, fc.forward.node, "cannot find how the saved backward options are built from the forward options and bck_options")
            elif verdict == "":
                O.ok(fc.forward.fq, "%s.forward: the saved backward options are the forward options overridden by bck_options (abstract evaluation of the dictionary statements)" % fc.name)
            else:
                O.bad(fc.forward, fc.forward.node, "the saved backward options are not the forward options overridden by the caller's bck_options: %s" % verdict)
    Mx = RuleResult(PROP, "C18-M", "a method given by the caller is never replaced: defaults are chosen only where `method is None` certainly holds", min_instances=2)
    _no_override(model, Mx)
    K = RuleResult(PROP, "C18-K", "minimize: method kind -> algorithm family truth table (built-in minimizer, built-in root finder, unknown name, callable)", min_instances=4)
    Dm = RuleResult(PROP, "C18-D", "solve / symeig: the backward defaults do not inherit the forward `method` (a forward-only callable is never reused for the adjoint system)", min_instances=2)
    _minimize_kinds(model, K)
    _backward_defaults(model, Dm)
    _family_tables(model, L)
    _default_merge(model, O)
    Ua = RuleResult(PROP, "C18-U", "built-in implementations of the functionals whose backward inherits the forward options (quad, solve_ivp, mcquad) tolerate options "
                    "they do not know (`**` catch-all): a custom forward method's private options reach them in the backward pass", min_instances=9)
    _catch_all(model, Ua)
    from .c01 import _zero_rhs_shortcut as _zrs
    ZS = RuleResult(PROP, "C18-Z", "the zero right-hand-side shortcut (which bypasses the selected method, also a callable) is taken only for an exactly zero right-hand side and has the shape of every other result", min_instances=1)
    _zrs(model, ZS)
    return [G, L, C, Mx, Rr, A, N, O, K, Dm, Ua, ZS]


def _catch_all(model: Model, U: RuleResult):
    for cname in ("_Quadrature", "_SolveIVP", "_MCQuad"):
        fc = ac.get_fncls(model, cname)
        for t in dispatch_tables_in(model, fc.forward):
            for k, v in t.entries:
                r = model.resolve_expr(fc.forward.module, v)
                if not (r and r[0] == "func"):
                    continue
                if r[1].kwarg() is not None:
                    U.ok(r[1].fq, "%s: %s(..., **%s)" % (k, r[1].name, r[1].kwarg()))
                else:
                    U.bad(r[1], r[1].node, "built-in method %r of %s has no `**` catch-all: with a custom forward method and bck_options={'method': %r} the forward "
                          "method's own options are inherited by the backward call and raise TypeError" % (k, cname, k))


def _family_tables(model: Model, L: RuleResult):
    """_RootFinder serves three functionals; the table searched for a functional must contain exactly the names documented for its
    family (a merged registry would let `rootfinder(method="anderson_acc")` run a fixed-point iteration on the residual)."""
    rel = "xitorch/optimize/rootfinder.py"
    fw = model.func(rel, "_RootFinder.forward")
    mod = fw.module
    want = {}
    for fam, tname in (("rootfinder", "_RF_METHODS"), ("equilibrium", "_EQUIL_METHODS"), ("minimizer", "_OPT_METHODS")):
        v = mod.const(tname)
        if not isinstance(v, ast.Dict):
            raise AnchorError("family table %s vanished" % tname)
        want[fam] = {k.value for k in v.keys if isinstance(k, ast.Constant)}
    tabs = dispatch_tables_in(model, fw)
    if not tabs:
        raise AnalysisError("C18-L: the table of _RootFinder.forward is not resolvable")
    by_label = {}
    for t in tabs:
        by_label.setdefault(t.label, set()).update(k for k, _ in t.entries if k is not None)
    if set(by_label) == set(want):
        for fam in sorted(want):
            if by_label[fam] == want[fam]:
                L.ok(fw.fq, "family %r is dispatched over exactly its own table (%d names)" % (fam, len(want[fam])))
            else:
                extra = sorted(by_label[fam] - want[fam])
                L.bad(fw, enclosing_stmt(tabs[0].call), "family %r is dispatched over names of another family %s: a method valid for a sibling functional is no longer rejected and "
                      "runs on the wrong kind of function" % (fam, extra))
    else:
        allk = set().union(*by_label.values())
        L.bad(fw, enclosing_stmt(tabs[0].call), "the method table of _RootFinder.forward is not selected by the algorithm family (found %s holding %d names): names of sibling "
              "functionals are accepted by all three" % (sorted(by_label), len(allk)))
    # the same for the pre-dispatch membership tests of the wrappers: equilibrium tests _EQUIL_METHODS, minimize tests _RF_METHODS / _OPT_METHODS
    # (covered by C18-K for minimize)


def _default_merge(model: Model, O: RuleResult):
    """set_default_option(defopt, opt) is `copy of defopt, updated with opt itself`: every key the caller passes wins, whatever its value
    (a filter such as `if v is not None` silently replaces an explicit None by the default / drops it from a custom method's kwargs)."""
    merge_semantics(model, O)


def merge_semantics(model: Model, O: RuleResult):
    """decided by abstract evaluation over symbolic dictionaries (domains/dictsem.py), so any spelling of the merge is accepted"""
    from ..domains import dictsem
    f = model.func(MISC, "set_default_option")
    d, o = f.params()[:2]
    try:
        problems = dictsem.check_merge(f.node, d, o)
    except dictsem.Unsupported as e:
        raise AnalysisError("set_default_option: body cannot be interpreted over abstract dictionaries (%s)" % e)
    if not problems:
        O.ok(f.fq, "set_default_option returns a fresh dictionary = defaults overridden by the caller's options (explicit None wins, no key filtered), "
             "arguments untouched - on all %d abstract scenarios" % len(dictsem.merge_scenarios()))
    else:
        O.bad(f, f.node, "set_default_option must return a fresh `defaults updated with the caller's options`: %s" % problems[0], what="; ".join(problems)[:600])


def _minimize_kinds(model: Model, K: RuleResult):
    """`minimize` decides from the method value whether the implementation receives (f, df) [minimizer family] or df alone [root
    finder family] and which table get_method searches.  The decision is evaluated over the finite domain of method kinds; a
    user-supplied callable is a *minimization* method (it receives the documented (f, df/dy) pair)."""
    f = model.func("xitorch/optimize/rootfinder.py", "minimize")
    mod = f.module
    defs = function_defs(f.node)
    # the flag that selects the forward function / alg_type
    apply_calls = [c for c in own_nodes(f.node) if isinstance(c, ast.Call) and ast.unparse(c.func).endswith(".apply")]
    if not apply_calls:
        raise AnchorError("minimize: apply call vanished")
    alg = apply_calls[0].args[3] if len(apply_calls[0].args) > 3 else None
    algdef = defs.get(alg.id, [None])[0] if isinstance(alg, ast.Name) else alg
    if not (isinstance(algdef, ast.IfExp) and isinstance(algdef.body, ast.Constant) and isinstance(algdef.orelse, ast.Constant)):
        raise AnalysisError("C18-K: the algorithm family is no longer `\"minimizer\" if <test> else \"rootfinder\"`")
    fam_true, fam_false = ast.literal_eval(algdef.body), ast.literal_eval(algdef.orelse)
    fdef = [algdef.test]
    flag = algdef.test.id if isinstance(algdef.test, ast.Name) else None
    tables = {}
    for nm in ("_RF_METHODS", "_OPT_METHODS"):
        if nm not in mod.assigns or not isinstance(mod.assigns[nm], ast.Dict):
            raise AnchorError("table %s vanished" % nm)
        tables[nm] = {k.value for k in mod.assigns[nm].keys if isinstance(k, ast.Constant)}

    def ev(e, kind):
        if isinstance(e, ast.Name) and e.id != "method" and len(defs.get(e.id, [])) == 1:
            return ev(defs[e.id][0], kind)                       # a flag variable: its (single) definition
        if isinstance(e, ast.UnaryOp) and isinstance(e.op, ast.Not):
            return not ev(e.operand, kind)
        if isinstance(e, ast.BoolOp):
            vs = [ev(v, kind) for v in e.values]
            return all(vs) if isinstance(e.op, ast.And) else any(vs)
        if isinstance(e, ast.Compare) and len(e.ops) == 1 and isinstance(e.left, ast.Name) and e.left.id == "method" and isinstance(e.ops[0], (ast.In, ast.NotIn)):
            t = e.comparators[0]
            tn = ast.unparse(t).replace(".keys()", "")
            if tn not in tables:
                raise AnalysisError("C18-K: membership in an unknown table %s" % tn)
            member = {"rf": tn == "_RF_METHODS", "opt": tn == "_OPT_METHODS", "unknown": False, "callable": False}[kind]
            return member if isinstance(e.ops[0], ast.In) else not member
        if isinstance(e, ast.Call) and ast.unparse(e.func) in ("callable",) and ast.unparse(e.args[0]) == "method":
            return kind == "callable"
        if isinstance(e, ast.Call) and ast.unparse(e.func) == "isinstance" and ast.unparse(e.args[0]) == "method" and ast.unparse(e.args[1]) == "str":
            return kind != "callable"
        raise AnalysisError("C18-K: cannot evaluate `%s` over method kinds" % ast.unparse(e))
    want = {"rf": fam_false if fam_false == "rootfinder" else fam_true, "opt": "minimizer", "callable": "minimizer"}
    for kind, label in (("rf", "built-in root-finder name %s" % sorted(tables["_RF_METHODS"])[:2]), ("opt", "built-in minimizer name %s" % sorted(tables["_OPT_METHODS"])[:2]),
                        ("callable", "user-supplied callable")):
        v = ev(fdef[0], kind)
        fam = fam_true if v else fam_false
        exp = "rootfinder" if kind == "rf" else "minimizer"
        if fam == exp:
            K.ok(f.fq, "%s -> %s family" % (label, fam))
        else:
            K.bad(f, enclosing_stmt(fdef[0]), "%s is routed to the %s family (expected %s): the implementation receives %s" %
                  (label, fam, exp, "only the gradient instead of the (f, df/dy) pair" if exp == "minimizer" else "the (f, df) pair instead of the residual"))
    # the forward function follows the same decision, for every method kind
    sel = [s_ for s_ in f.node.body if isinstance(s_, ast.If) and any(isinstance(x, ast.Assign) and ast.unparse(x.value) in ("_min_fwd_fcn", "_rf_fcn") for x in s_.body + s_.orelse)]
    okf = bool(sel)
    why = "no branch selecting _min_fwd_fcn / _rf_fcn found"
    if sel:
        for kind in ("rf", "opt", "callable"):
            arm = sel[0].body if ev(sel[0].test, kind) else sel[0].orelse
            chosen = [ast.unparse(x.value) for x in arm if isinstance(x, ast.Assign) and ast.unparse(x.value) in ("_min_fwd_fcn", "_rf_fcn")]
            fam = fam_true if ev(fdef[0], kind) else fam_false
            wantf = "_min_fwd_fcn" if fam == "minimizer" else "_rf_fcn"
            if chosen != [wantf]:
                okf = False
                why = "for a %s method the family is %s but the forward function is %s" % (kind, fam, chosen)
    if okf:
        K.ok(f.fq, "the forward function is (f, df) for the minimizer family and df alone for the root-finder family, for every method kind")
    else:
        K.bad(f, sel[0] if sel else f.node, "the forward function handed to the implementation must follow the same family decision (%s)" % why)


def _backward_defaults(model: Model, Dm: RuleResult):
    for rel, cname in (("xitorch/linalg/solve.py", "solve_torchfcn"), ("xitorch/linalg/symeig.py", "symeig_torchfcn")):
        fc = ac.get_fncls(model, cname)
        fw = fc.forward
        merges = [s_ for s_ in own_nodes(fw.node) if isinstance(s_, ast.Assign) and isinstance(s_.value, ast.Call)
                  and ast.unparse(s_.value.func).split(".")[-1] == "set_default_option" and len(s_.value.args) == 2
                  and ast.unparse(s_.value.args[1]) == "bck_options"]
        if len(merges) != 1:
            # another spelling of the merge: decide on the abstract content of the dictionaries saved on ctx
            saved = ac.option_merge_semantic(model, fc, raw=True)
            if not saved:
                Dm.undecided(fw, fw.node, "%s: cannot find how the backward options are built" % cname)
                continue
            leaked = {k: v for k, v in saved.items() if any(str(x) in ("$m", "$F1", "$Fs") for x in v.values())}
            if not leaked:
                Dm.ok(fw.fq, "%s: the saved backward options contain no forward option (abstract evaluation): %s" % (cname, saved))
            else:
                Dm.bad(fw, fw.node, "%s: the backward options inherit forward options (%s): a forward callable specialised to the forward system would be "
                       "reused for the adjoint system" % (cname, leaked))
            continue
        d = merges[0].value.args[0]
        names = {n.id for n in ast.walk(d) if isinstance(n, ast.Name)}
        keys = [k.value for k in d.keys if isinstance(k, ast.Constant)] if isinstance(d, ast.Dict) else None
        if isinstance(d, ast.Dict) and "method" not in names and "fwd_options" not in names and "config" not in names and "method" not in (keys or []):
            Dm.ok(fw.fq, "%s: backward defaults %s are independent of the forward method and options" % (cname, ast.unparse(d)))
        else:
            Dm.bad(fw, merges[0], "%s: the backward defaults depend on the forward `method`/options: a forward callable specialised to the forward system would be "
                   "reused for the adjoint system" % cname)


# ------------------------------------------------------------------------------------------------- G
def _no_override(model: Model, Mx: RuleResult):
    """In every public function that takes a `method`, a store into `method` whose value does not derive from `method` itself (a default such
    as "exactsolve") is executed only when `method is None` certainly holds - read off the path conditions, so an if/else, guard clauses or a
    conditional expression decide alike, and `method is None and small or explicit` (which also replaces a callable or a name the caller
    passed) does not.  Normalisations (`method = method.lower()`) derive from the caller's value and are free."""
    from ..model import effective_conditions, cond_atoms
    n = 0
    for f in model.all_functions():
        if f.parent is not None or "method" not in f.all_params() or f.module.relpath.startswith("xitorch/_tests"):
            continue
        fdefs = function_defs(f.node)

        def derives(e, defs_, depth, seen):
            for x in ast.walk(e):
                if isinstance(x, ast.Name):
                    if x.id == "method":
                        return True
                    if depth < 5 and x.id not in seen and x.id in defs_:
                        seen.add(x.id)
                        if any(d is not None and derives(d, defs_, depth + 1, seen) for d in defs_[x.id]):
                            return True
            return False
        for st in own_nodes(f.node):
            if not (isinstance(st, ast.Assign) and any(isinstance(t, ast.Name) and t.id == "method" for t in st.targets)):
                continue
            val = st.value
            arms = [(val, [])]
            if isinstance(val, ast.IfExp):
                tt = ast.unparse(val.test)
                arms = [(val.body, [(tt, True)]), (val.orelse, [(tt, False)])]
            for v, extra in arms:
                if derives(v, fdefs, 0, set()):
                    continue                    # derives from the caller's value (directly or through local temporaries)
                n += 1
                conds = list(effective_conditions(st))
                for tt, pol in extra:
                    from ..model import _positive
                    t_, fl_ = _positive(ast.parse(tt, mode="eval").body)
                    conds.append((ast.unparse(t_), pol != fl_))
                atoms = cond_atoms(conds)
                what = "%s: `%s` under %s" % (f.qualname, norm_stmt(st, 70), [a for a in atoms if "method" in a[0]] or "no test of method")
                if ("method is None", True) in atoms:
                    Mx.ok(f.fq, what)
                else:
                    Mx.bad(f, st, "`method` is replaced by a default on a path where the caller may have given one (a callable or a name): the default may only "
                           "be chosen where `method is None` certainly holds", what=what)
    if n == 0:
        Mx.ok("xitorch", "no function replaces its `method` argument by a default")


def _routes(model: Model, sites, G: RuleResult):
    for f, c in sites:
        G.ok(f.fq, "get_method(%s) in %s" % (", ".join(ast.unparse(a) for a in c.args), f.qualname))
    # any subscript / .get of a *methods* table by a non-literal outside get_method
    gm = model.func(MISC, "get_method")
    table_names = set()
    for f, c in sites:
        if isinstance(c.args[1], ast.Name):
            table_names.add(c.args[1].id)
    for m in model.modules.values():
        for nm, v in m.assigns.items():
            if isinstance(v, ast.Dict) and nm.lower().endswith("methods"):
                table_names.add(nm)
    for f in model.all_functions():
        if f is gm:
            continue
        for s in own_nodes(f.node):
            tgt = None
            if isinstance(s, ast.Subscript) and isinstance(s.value, ast.Name) and s.value.id in table_names and not isinstance(s.slice, ast.Constant):
                tgt = s
            if isinstance(s, ast.Call) and isinstance(s.func, ast.Attribute) and s.func.attr == "get" and isinstance(s.func.value, ast.Name) \
                    and s.func.value.id in table_names:
                tgt = s
            if tgt is not None:
                G.bad(f, enclosing_stmt(tgt), "a method table is indexed directly (`%s`) instead of going through get_method: case handling, callable "
                      "pass-through and the unknown-name error are bypassed" % norm_stmt(tgt, 50))


# ------------------------------------------------------------------------------------------------- L
def _keys(model: Model, sites, L: RuleResult):
    tables_by_file: Dict[str, Set[str]] = {}
    for f, c in sites:
        tabs = dispatch_tables_in(model, f)
        if not tabs:
            raise AnalysisError("%s: method table of get_method not resolvable" % f.fq)
        for t in tabs:
            for k, kn in zip([e[0] for e in t.entries], t.key_nodes):
                if k is None:
                    L.bad(f, enclosing_stmt(t.call), "method table key `%s` is not a string literal" % ast.unparse(kn))
                elif k != k.lower():
                    L.bad(f, enclosing_stmt(t.call), "method table key %r is not lower case: get_method lower-cases the caller's name, so this "
                          "entry can never be selected" % k, what="key %r" % k)
                else:
                    L.ok(f.fq, "key %r of the %s table" % (k, t.label or f.qualname))
                    tables_by_file.setdefault(f.module.relpath, set()).add(k)
    # documented names reachable
    for rel, (docname, _) in DOC_TABLES.items():
        m = model.module(rel)
        v = m.const(docname)
        if not isinstance(v, ast.Dict):
            raise AnchorError("documentation table %s vanished from %s" % (docname, rel))
        pre = _predispatch_literals(model, rel)
        for k in v.keys:
            if not (isinstance(k, ast.Constant) and isinstance(k.value, str)):
                continue
            name = k.value
            if name in tables_by_file.get(rel, set()) or name in pre:
                L.ok(rel, "documented method %r is dispatchable" % name)
            else:
                L.bad(rel + "::" + docname, k, "documented method %r is neither a key of the dispatch table nor handled by a pre-dispatch branch" % name, file=rel)


def _predispatch_literals(model: Model, rel: str) -> Set[str]:
    out = set()
    m = model.module(rel)
    for f in m.functions.values():
        for c in own_nodes(f.node):
            if not (isinstance(c, ast.Compare) and len(c.ops) == 1):
                continue
            left = c.left
            while isinstance(left, ast.Call) and isinstance(left.func, ast.Attribute) and left.func.attr in ("lower", "casefold", "strip") and not left.args:
                left = left.func.value
            if not (isinstance(left, ast.Name) and left.id == "method"):
                continue
            rhs = c.comparators[0]
            if isinstance(c.ops[0], ast.Eq) and isinstance(rhs, ast.Constant) and isinstance(rhs.value, str):
                out.add(rhs.value)
            elif isinstance(c.ops[0], ast.In) and isinstance(rhs, (ast.Tuple, ast.List, ast.Set)):
                out |= {e.value for e in rhs.elts if isinstance(e, ast.Constant) and isinstance(e.value, str)}
    return out


# ------------------------------------------------------------------------------------------------- C
RAW, OK = "RAW", "OK"


def _const_lower(e) -> bool:
    return isinstance(e, ast.Constant) and (e.value is None or (isinstance(e.value, str) and e.value == e.value.lower()))


def _helper_returns_param_or_lower(model: Model, f: FuncInfo, call: ast.Call) -> Optional[int]:
    """If the callee returns on every path either a lower-case literal or its i-th parameter unchanged, return i."""
    g = resolve_call(model, f, call, by_unique_name=False)
    if g is None:
        return None
    rets = [r for r in own_nodes(g.node) if isinstance(r, ast.Return) and r.value is not None]
    if not rets:
        return None
    idx = None
    for r in rets:
        v = r.value
        if _const_lower(v):
            continue
        if isinstance(v, ast.Name) and v.id in g.params():
            i = g.params().index(v.id)
            if idx is not None and idx != i:
                return None
            idx = i
            continue
        if isinstance(v, ast.Call):
            sub = _helper_returns_param_or_lower(model, g, v)
            if sub is not None and sub < len(v.args) and isinstance(v.args[sub], ast.Name) and v.args[sub].id in g.params():
                i = g.params().index(v.args[sub].id)
                if idx is not None and idx != i:
                    return None
                idx = i
                continue
        return None
    return idx if idx is not None else -1


def _case(model: Model, C: RuleResult):
    for rel, q in PUBLIC:
        f = model.func(rel, q)
        if "method" not in f.all_params():
            raise AnchorError("%s has no `method` parameter" % f.fq)
        cfg = CFG(f.node)
        # abstract state: dict var -> RAW/OK for 'method' and for the pseudo-variable <dict>["method"]
        tracked0 = {"method": RAW}
        IN: Dict[int, Optional[Dict[str, str]]] = {n.id: None for n in cfg.nodes}

        def join(a, b):
            if a is None:
                return dict(b)
            out = {}
            for k in set(a) | set(b):
                out[k] = OK if a.get(k, OK) == OK and b.get(k, OK) == OK else RAW
            return out

        def expr_state(e, st) -> str:
            if _const_lower(e):
                return OK
            if isinstance(e, ast.Name):
                return st.get(e.id, OK) if e.id in st else OK if e.id not in ("method",) else st["method"]
            if isinstance(e, ast.Subscript) and isinstance(e.slice, ast.Constant) and e.slice.value == "method":
                return st.get(ast.unparse(e), RAW)
            if isinstance(e, ast.Call) and isinstance(e.func, ast.Attribute) and e.func.attr == "lower":
                return OK
            if isinstance(e, ast.IfExp):
                a, b = expr_state(e.body, st), expr_state(e.orelse, st)
                return OK if a == OK and b == OK else RAW
            if isinstance(e, ast.Call):
                i = _helper_returns_param_or_lower(model, f, e)
                if i == -1:
                    return OK
                if i is not None and i < len(e.args):
                    return expr_state(e.args[i], st)
            return RAW if ("method" in names_loaded(e)) else OK

        def transfer(node: Node, st):
            st = dict(st)
            s = node.stmt
            if node.kind == "stmt" and isinstance(s, ast.Assign) and len(s.targets) == 1:
                t = s.targets[0]
                if isinstance(t, ast.Name) and (t.id in st or "method" in names_loaded(s.value) or t.id == "method"):
                    v = expr_state(s.value, st)
                    # only track variables that carry the method value
                    if t.id in st or (isinstance(s.value, (ast.Name, ast.Subscript, ast.Call, ast.IfExp)) and v is not None and
                                      ("method" in names_loaded(s.value) or any(k in ast.unparse(s.value) for k in st if "[" in k))):
                        st[t.id] = v
                elif isinstance(t, ast.Subscript) and isinstance(t.slice, ast.Constant) and t.slice.value == "method":
                    st[ast.unparse(t)] = expr_state(s.value, st)
            return st

        def refine(node: Node, lab, st):
            """isinstance(v, str) false edge => v is not a string => OK"""
            s = node.stmt
            if node.kind == "test" and isinstance(s, ast.If):
                t = s.test
                neg = False
                if isinstance(t, ast.UnaryOp) and isinstance(t.op, ast.Not):
                    t, neg = t.operand, True
                if isinstance(t, ast.Call) and isinstance(t.func, ast.Name) and t.func.id == "isinstance" and len(t.args) == 2 \
                        and isinstance(t.args[0], ast.Name) and t.args[0].id in st and ast.unparse(t.args[1]) == "str":
                    is_str = (lab is True) != neg
                    if not is_str:
                        st = dict(st)
                        st[t.args[0].id] = OK
                if isinstance(t, ast.Compare) and isinstance(t.left, ast.Name) and t.left.id in st and isinstance(t.ops[0], ast.Is) \
                        and isinstance(t.comparators[0], ast.Constant) and t.comparators[0].value is None:
                    if (lab is True) != neg:
                        st = dict(st)
                        st[t.left.id] = OK
            return st

        work = deque([cfg.entry])
        IN[cfg.entry.id] = dict(tracked0)
        OUTE: Dict[Tuple[int, int], Dict[str, str]] = {}
        it = 0
        while work and it < 5000:
            it += 1
            n = work.popleft()
            st_in = IN[n.id]
            if st_in is None:
                continue
            st_out = transfer(n, st_in)
            for succ, lab in n.succ:
                if lab == "exc":
                    continue
                st_e = refine(n, lab, st_out)
                new = join(IN[succ.id], st_e)
                if new != IN[succ.id]:
                    IN[succ.id] = new
                    work.append(succ)
        # now examine comparisons
        for nd in cfg.nodes:
            s = nd.stmt
            if s is None or IN[nd.id] is None or nd.kind not in ("stmt", "test", "return"):
                continue
            if isinstance(s, (ast.With, ast.Try, ast.FunctionDef, ast.ClassDef)):
                continue
            st = IN[nd.id]
            exprs = [s.test] if nd.kind == "test" else [s]
            for e in exprs:
                for c in ast.walk(e):
                    if isinstance(c, (ast.FunctionDef, ast.Lambda)):
                        continue
                    if isinstance(c, ast.Compare) and len(c.ops) == 1 and isinstance(c.ops[0], (ast.Eq, ast.NotEq, ast.In, ast.NotIn)):
                        l = c.left
                        r = c.comparators[0]
                        var = None
                        if isinstance(l, ast.Name) and l.id in st:
                            var = l.id
                        elif isinstance(l, ast.Subscript) and ast.unparse(l) in st:
                            var = ast.unparse(l)
                        if var is None:
                            continue
                        against_names = (isinstance(r, ast.Constant) and isinstance(r.value, str)) or \
                            (isinstance(r, (ast.Name, ast.Call, ast.Attribute)) and isinstance(c.ops[0], (ast.In, ast.NotIn))) or \
                            isinstance(r, (ast.Dict, ast.List, ast.Tuple, ast.Set))
                        if not against_names:
                            continue
                        what = "%s: `%s` with %s in state %s" % (f.qualname, norm_stmt(c, 70), var, st[var])
                        if st[var] == OK:
                            C.ok(f.fq, what)
                        else:
                            C.bad(f, s if nd.kind != "test" else s, "the caller's `method` is compared with method names before it is lower-cased: "
                                  "`%s` - a differently cased name takes the wrong branch or is rejected although get_method is case-insensitive"
                                  % norm_stmt(c, 70), what=what)


# ------------------------------------------------------------------------------------------------- R
def _get_method(model: Model, Rr: RuleResult):
    f = model.func(MISC, "get_method")
    ps = f.params()  # algname, methods, method
    if len(ps) != 3:
        raise AnalysisError("get_method signature changed")
    tbl, mth = ps[1], ps[2]
    # semantics first: abstract evaluation over a table with a prefix pair and exact / mixed-case / abbreviated / unknown / callable probes
    from ..domains import dictsem
    try:
        problems = dictsem.check_lookup(f.node, ps[0], tbl, mth)
    except dictsem.Unsupported as e:
        raise AnalysisError("get_method: body cannot be interpreted over the abstract lookup domain (%s)" % e)
    if not problems:
        Rr.ok(f.fq, "get_method: exact case-insensitive names return their own entry, abbreviations / unknown names / non-callables raise, a callable passes through (14 probes)")
    else:
        Rr.bad(f, f.node, "get_method does not implement the documented lookup: %s" % problems[0], what="; ".join(problems)[:500])
    rets = [r for r in own_nodes(f.node) if isinstance(r, ast.Return)]
    for r in rets:
        Rr.ok(f.fq, "exit `%s` covered by the probe table" % norm_stmt(r, 60))
    # every other path raises: the function's normal exit is reachable only through returns
    cfg = CFG(f.node)
    falls = [p for p, lab in cfg.exit.pred if p.kind != "return" and lab != "exc"]
    if falls:
        Rr.bad(f, falls[0].stmt if falls[0].stmt is not None else f.node, "a path falls off the end of get_method (implicit None) instead of raising")
    else:
        Rr.ok(f.fq, "every non-returning path raises (no implicit default)")
    raises = [r for r in own_nodes(f.node) if isinstance(r, ast.Raise)]
    if any("Unknown" in ast.unparse(r) for r in raises):
        Rr.ok(f.fq, "unknown names raise RuntimeError")
    else:
        Rr.bad(f, f.node, "unknown method names are not rejected")


# ------------------------------------------------------------------------------------------------- A / N
EXPECTED_POSITIONAL = {
    "solve_torchfcn.forward": ["A", "B", "E", "M"],
    "symeig_torchfcn.forward": ["A", "neig", "mode", "M"],
    "_RootFinder.forward": ["fwd_fcn", "y0", "params"],
    "_SolveIVP.forward": ["pfcn", "ts", "y0", "params"],
    "_Quadrature.forward": ["<fcn>", "<xl>", "<xu>", "params"],
    "_MCQuad.forward": ["log_pfcn", "x0", "pparams"],
    "Interp1D.__init__": ["x", "y"],
    "SQuad.__init__": ["x"],
}


def _contract(model: Model, sites, A: RuleResult, N: RuleResult):
    for f, c in sites:
        st = enclosing_stmt(c)
        if not (isinstance(st, ast.Assign) and isinstance(st.targets[0], ast.Name)):
            A.bad(f, st, "result of get_method is not bound to a name")
            continue
        impl = st.targets[0].id
        calls = [x for x in own_nodes(f.node) if isinstance(x, ast.Call) and isinstance(x.func, ast.Name) and x.func.id == impl]
        if len(calls) != 1:
            A.bad(f, st, "the selected implementation must be called exactly once (found %d calls)" % len(calls))
            continue
        call = calls[0]
        pos = [ast.unparse(a) for a in call.args]
        splat = [k for k in call.keywords if k.arg is None]
        named = [k.arg for k in call.keywords if k.arg is not None]
        exp = EXPECTED_POSITIONAL.get(f.qualname)
        if exp is None:
            A.bad(f, enclosing_stmt(call), "unexpected dispatch site (not in the frozen table of functionals)")
            continue
        pos_ok = len(pos) == len(exp) and all(e.startswith("<") or e == p for e, p in zip(exp, pos))
        what = "%s(%s, **%s)" % (impl, ", ".join(pos), [ast.unparse(k.value) for k in splat])
        if not pos_ok or named:
            A.bad(f, enclosing_stmt(call), "the implementation must be called with the documented positional arguments %s (got %s%s)" %
                  (exp, pos, ", keywords %s" % named if named else ""), what=what)
            continue
        if len(splat) != 1:
            A.bad(f, enclosing_stmt(call), "the caller's extra options must be handed to the implementation by ** splat", what=what)
            continue
        # the splatted dict derives from the forward options and `method` is not in it
        optname = ast.unparse(splat[0].value)
        defs = function_defs(f.node)
        opt_ok = _derives_from_fwd_options(f, splat[0].value, defs)
        method_removed = _method_removed(f, optname, c)
        if not (opt_ok and method_removed):
            # another spelling (a copy, a filtered comprehension, ..): decide on the abstract content of the splatted dictionary
            _env, snaps, (_fd, _bd, fwd0, _b0, _fp) = ac.abstract_option_run(model, f, watch_calls=[call])
            got = snaps.get(call)
            if got is not None:
                expect = {k_: v_ for k_, v_ in fwd0.items() if k_ != "method"}
                opt_ok = {k_: v_ for k_, v_ in got.items() if k_ != "method"} == expect
                method_removed = "method" not in got
        if opt_ok and method_removed:
            A.ok(f.fq, what + " : options derive from the caller's **fwd_options, `method` is not among them")
        elif not opt_ok:
            A.bad(f, enclosing_stmt(call), "the options splatted into the implementation do not derive from the caller's forward options", what=what)
        else:
            A.bad(f, enclosing_stmt(call), "`method` is still in the options handed to the implementation", what=what)
        # N
        if f.cls is not None and f.name == "forward" and any(b.endswith("autograd.Function") for b in f.cls.base_exprs):
            under_eg = any(isinstance(a, ast.With) and any("enable_grad" in ast.unparse(i.context_expr) for i in a.items) for a in ancestors(call))
            if under_eg:
                N.bad(f, enclosing_stmt(call), "the forward implementation is called under torch.enable_grad(): an autograd graph is recorded through "
                      "the method instead of using only its returned value")
            else:
                N.ok(f.fq, "%s(...) runs inside %s.forward (no graph), not under enable_grad" % (impl, f.cls.name))
        elif f.qualname in ("Interp1D.__init__", "SQuad.__init__"):
            N.ok(f.fq, "%s is documented to differentiate through the implementation: only lookup rules apply" % f.qualname)
        else:
            N.bad(f, enclosing_stmt(call), "the implementation is called outside an autograd.Function.forward")


def _derives_from_fwd_options(f: FuncInfo, e, defs, depth=0) -> bool:
    if depth > 5:
        return False
    if isinstance(e, ast.Name):
        if e.id in ("fwd_options", "options") and e.id in f.all_params() + ([f.kwarg()] if f.kwarg() else []):
            return True
        ds = defs.get(e.id, [])
        return bool(ds) and all(_derives_from_fwd_options(f, d, defs, depth + 1) for d in ds)
    if isinstance(e, ast.Call) and ast.unparse(e.func).split(".")[-1] == "set_default_option" and len(e.args) == 2:
        return _derives_from_fwd_options(f, e.args[1], defs, depth + 1)
    return False


def _method_removed(f: FuncInfo, optname: str, gm_call: ast.Call) -> bool:
    """`method` is passed separately (a parameter) or popped from the option dict before the implementation call"""
    src_names = {optname}
    defs = function_defs(f.node)
    # aliases: config = fwd_options
    for nm, ds in defs.items():
        if any(isinstance(d, ast.Name) and d.id == optname for d in ds):
            src_names.add(nm)
        if nm == optname:
            for d in ds:
                if isinstance(d, ast.Name):
                    src_names.add(d.id)
    popped = any(isinstance(c, ast.Call) and isinstance(c.func, ast.Attribute) and c.func.attr == "pop" and isinstance(c.func.value, ast.Name)
                 and c.func.value.id in src_names and c.args and isinstance(c.args[0], ast.Constant) and c.args[0].value == "method"
                 for c in own_nodes(f.node))
    method_is_param = "method" in f.all_params()
    # when method is a separate parameter the wrapper must not have stored it into the options
    return popped or method_is_param
