"""C16 -- mcquad returns the weighted sample mean it documents, with its gradient (structural part)."""
from __future__ import annotations
import ast
from typing import List, Optional, Dict
from ..model import Model, FuncInfo, own_nodes, norm_stmt, AnalysisError, AnchorError, enclosing_stmt, ancestors
from ..report import RuleResult
from ..flow import function_defs, names_loaded, def_use_closure
from ..callgraph import resolve_call
from ..rules import autograd as ac
from ..rules.solverloop import enclosing_ifs

PROP = "C16"
LEVEL = "other"
EXPLANATION = (
    "Decided from the source of mcquad.py / mcmc.py: (U) every named parameter of every function is read (an ignored "
    "nsamples or a dropped xsamples/wsamples argument is a violation); (S) mh and mhcustom follow the same two-phase "
    "protocol: burn-in called with (x0, nburnout, collect=False), collection with (<state returned by burn-in>, nsamples, "
    "collect=True); (N) in each sampler the loop makes exactly `count` steps (range(count)), stores exactly one sample per "
    "step at the loop index into a buffer of length `count`, and nothing is stored outside the loop; (W) the returned "
    "weights are 1/len replicated len times or w / w.sum() (they sum to one); the integral is the sum of f(x_i)*w_i over "
    "zip(samples, weights); (B) backward passes the saved samples to the recursive call and they reach .apply, where "
    "forward skips sampling; (AC1-AC6) autograd contract of _MCQuad incl. allow_unused + None->zeros for tensors that enter "
    "neither f nor log p. NOT decided: statistical accuracy of mh, its acceptance rule.")
ASSUMPTIONS = ["torch.autograd semantics", "custom_step returns the next state"]

MCQ = "xitorch/integrate/mcquad.py"
MCMC = "xitorch/_impls/integrate/mcsamples/mcmc.py"


def rules(model: Model, tier: str) -> List[RuleResult]:
    fc = ac.get_fncls(model, "_MCQuad")
    R1 = RuleResult(PROP, "AC1", "arity of _MCQuad.backward and of _mcquad's apply calls", min_instances=2)
    R2 = RuleResult(PROP, "AC2", "all eleven fixed slots return the literal None", min_instances=11)
    R3 = RuleResult(PROP, "AC3", "create_graph follows torch.is_grad_enabled() in mcquad.py", min_instances=2)
    R4 = RuleResult(PROP, "AC4", "both pull-backs of the augmented integrand: allow_unused=True and None -> zeros", min_instances=4)
    R5 = RuleResult(PROP, "AC5", "recursive _mcquad receives the saved options by ** splat", min_instances=1)
    R6 = RuleResult(PROP, "AC6", "layout: four segments, three count slots, object parameters of both pure functions", min_instances=4)
    U = RuleResult(PROP, "C16-U", "every named parameter is read", min_instances=20)
    S = RuleResult(PROP, "C16-S", "two-phase sampler protocol of mh / mhcustom", min_instances=6)
    N = RuleResult(PROP, "C16-N", "sample / step counts of the sampler loops", min_instances=2)
    W = RuleResult(PROP, "C16-W", "weights sum to one; integral is sum f(x_i) w_i over the paired samples", min_instances=4)
    B = RuleResult(PROP, "C16-B", "backward re-uses the forward samples", min_instances=4)

    ac.ac1_arity(model, fc, R1)
    ac.ac2_frozen_none(fc, R2)
    ac.ac3_create_graph(model, R3, files={MCQ})
    ac.ac4_allow_unused(fc, R4)
    n = ac.ac4_none_conversion(fc, R4, recursive_callees={"_mcquad"})
    if n == 0:
        R4.bad(fc.backward, fc.backward.node, "augmented integrand no longer recognised as the callable of the recursive _mcquad")
    ac.ac5_options_forwarding(model, fc, R5, {"_mcquad"})
    ac.ac6_layout(model, fc, R6)
    R6f = RuleResult(PROP, "AC6f", "family consistency: f-side and p-side functions, counts, separators and parameter lists are never crossed", min_instances=10)
    ac.ac6_family_consistency(model, fc, R6f)
    _unused_params(model, U)
    _sampler_protocol(model, S)
    _counts(model, N)
    _weights(model, W)
    _same_samples(model, fc, B)
    XS = RuleResult(PROP, "C16-X", "log p receives one sample position per call; one substitution context open at a time", min_instances=5)
    _single_sample_calls(model, XS)
    _one_context(model, XS)
    _hy = ac.hygiene_rules(model, ac.get_fncls(model, '_MCQuad'), PROP, min_copies=1, min_opt=2, min_conv=2, min_idx=8)
    from ..rules import substitution as _subst
    _sub = _subst.rules(model, PROP, tier)
    from .c07 import _tensor_packer
    Pk = RuleResult(PROP, "C16-P", "tuple-valued integrands: TensorPacker segments tile the flat vector and pack() returns the slices unchanged (component-wise means)", min_instances=2)
    _tensor_packer(model, Pk)
    SV = RuleResult(PROP, "C16-A", "samples are recorded by value (a step that works in place returns the same object every iteration)", min_instances=1)
    _samples_by_value(model, SV)
    return [R1, R2, R3, R4, R5, R6, R6f, U, S, N, W, B, *_hy, XS, Pk, SV, *_sub]


def _samples_by_value(model: Model, A: RuleResult):
    """The chain state returned by a step (the built-in proposal or the caller's `custom_step`, which may update its argument in place and
    return it) is the *same object* from one iteration to the next whenever the step works in place.  A sample must therefore be recorded by
    value - written into a slot of a pre-allocated tensor, or cloned - never as a reference in a Python container: a list of references to
    one tensor is nsamples copies of the last point (the integral becomes f(x_last) and the gradient w.r.t. the parameters of log p zero)."""
    mod = model.module(MCMC)
    for f in mod.functions.values():
        if f.parent is not None:
            continue
        loops = [l for l in own_nodes(f.node) if isinstance(l, (ast.For, ast.While))]
        for lp in loops:
            # names bound in the loop to the result of a call of a parameter (a user-supplied step) or re-bound chain state
            stepped = set()
            for n in ast.walk(lp):
                if isinstance(n, ast.Assign) and isinstance(n.value, ast.Call):
                    fn = n.value.func
                    if isinstance(fn, ast.Name) and fn.id in f.params():
                        for t in n.targets:
                            for x in ast.walk(t):
                                if isinstance(x, ast.Name):
                                    stepped.add(x.id)
            if not stepped:
                continue
            for n in ast.walk(lp):
                if isinstance(n, ast.Assign) and len(n.targets) == 1 and isinstance(n.targets[0], ast.Subscript) and isinstance(n.value, ast.Name) and n.value.id in stepped:
                    base = n.targets[0].value
                    defs = [d.value for d in own_nodes(f.node) if isinstance(d, ast.Assign) and any(isinstance(t, ast.Name) and isinstance(base, ast.Name) and t.id == base.id for t in d.targets)]
                    is_tensor = any(isinstance(d, ast.Call) and ast.unparse(d.func).startswith(("torch.empty", "torch.zeros", "torch.ones")) or
                                    (isinstance(d, ast.Call) and isinstance(d.func, ast.Attribute) and d.func.attr.startswith("new_")) for d in defs)
                    if is_tensor:
                        A.ok(f.fq, "`%s`: the state a step returned is copied into a slot of a pre-allocated tensor" % norm_stmt(n, 60))
                    else:
                        A.bad(f, n, "the state returned by the step is stored by reference in a Python container (`%s`): a step that works in place returns the same "
                              "object every time, so every stored sample is the last point" % norm_stmt(n, 60))
                if isinstance(n, ast.Call) and isinstance(n.func, ast.Attribute) and n.func.attr in ("append", "insert", "extend") and n.args:
                    a = n.args[-1]
                    if isinstance(a, ast.Name) and a.id in stepped:
                        A.bad(f, enclosing_stmt(n), "the state returned by the step is recorded by reference (`%s`): a step that updates its argument in place and returns it hands "
                              "back the same object every iteration, so all recorded samples are the last point (the integral becomes f(x_last), the gradient w.r.t. the "
                              "parameters of log p zero); record a copy (a slot of a pre-allocated tensor, or .clone())" % ast.unparse(n)[:60])
                    elif any(isinstance(x, ast.Name) and x.id in stepped for x in ast.walk(a)):
                        if any(isinstance(c, ast.Call) and isinstance(c.func, ast.Attribute) and c.func.attr == "clone" for c in ast.walk(a)) or isinstance(a, ast.BinOp):
                            A.ok(f.fq, "`%s`: a copy of the state is recorded" % ast.unparse(n)[:60])
                        else:
                            A.undecided(f, enclosing_stmt(n), "cannot interpret how the state is recorded in `%s`" % ast.unparse(n)[:60])


def _unused_params(model: Model, U: RuleResult):
    for rel in (MCQ, MCMC):
        m = model.module(rel)
        for f in m.functions.values():
            ps = [p for p in f.all_params() if p not in ("self", "cls")]
            if f.cls is not None and f.name in ("forward", "backward") and ps:
                ps = ps[1:]  # ctx
            loaded = set()
            for n in ast.walk(f.node):
                if isinstance(n, ast.Name) and isinstance(n.ctx, ast.Load):
                    loaded.add(n.id)
            for p in ps:
                if p in loaded:
                    U.ok(f.fq, "parameter `%s` is read" % p)
                else:
                    U.bad(f, f.node, "parameter `%s` of %s is never read: the caller's value is silently ignored" % (p, f.qualname),
                          what="parameter `%s`" % p)


def _arg_for(call: ast.Call, callee: FuncInfo, pname: str) -> Optional[ast.AST]:
    ps = callee.params()
    for k in call.keywords:
        if k.arg == pname:
            return k.value
    if pname in ps:
        i = ps.index(pname)
        if i < len(call.args) and not any(isinstance(a, ast.Starred) for a in call.args[:i + 1]):
            return call.args[i]
    return None


def _integrate_semantic(model: Model, it: FuncInfo, W: RuleResult) -> Optional[bool]:
    """_integrate evaluated on symbolic samples and weights (domains/chain.py): whatever the spelling (accumulating loop, comprehension +
    sum, stack + sum(0)) the result must be  sum_i ffcn(x_i, *fparams) * w_i  with sample i paired with weight i.  None: not interpretable."""
    from ..domains.chain import SumInterp, Term, Mismatch, flat_sum
    from ..domains.dictsem import Unsupported, Raised, _Return
    from ..domains.kinds import AObj
    ps = it.params()
    if len(ps) < 4:
        return None
    decided = False
    for n in (3, 1):
        xs = [Term(("x", i)) for i in range(n)]
        ws = [Term(("w", i)) for i in range(n)]
        fp = [Term(("param", 0)), "a non-tensor parameter"]
        f = AObj("ffcn")
        sh = dict(logpfcn=f, custom_step=None, pparams=fp, noise=0, runs=0, steps=0, scenario=[], proposals={}, x0=None, used_random={}, asked=set())

        class It(SumInterp):
            shared = sh
        run = It({ps[0]: f, ps[1]: list(xs), ps[2]: list(ws), ps[3]: fp})
        try:
            try:
                run.run(list(it.node.body))
                res = None
            except _Return as r:
                res = r.v
        except (Unsupported, TypeError, AttributeError, KeyError, IndexError, ValueError):
            if decided:
                raise AnalysisError("C16-W: _integrate is interpretable for some sizes only")
            return None
        except (Mismatch, Raised) as e:
            W.bad(it, it.node, "_integrate: %s" % e)
            return False
        decided = True
        want = tuple(sorted([Term(("mul",) + tuple(sorted((Term(("lp", xs[i])), ws[i]), key=repr))) for i in range(n)], key=repr))
        got = flat_sum(res)
        if got == want:
            W.ok(it.fq, "_integrate with %d samples returns sum_i ffcn(x_i, *fparams) * w_i (sample i paired with weight i)" % n)
        else:
            W.bad(it, it.node, "_integrate must accumulate f(x_i) * w_i over the paired samples and weights: for %d symbolic samples it returns %s, expected the sum of %s"
                  % (n, res, list(want)))
            return False
    return True


_MH_SCENARIOS = [
    (2, 3, ["up", "reject", "accept", "reject", "up"]),
    (2, 3, ["reject"] * 5),
    (2, 3, ["accept", "accept", "up", "up", "reject"]),
    (0, 2, ["reject", "accept"]),
    (3, 1, ["up", "up", "reject", "accept"]),
]


def _sampler_semantic(model: Model, name: str, S: RuleResult) -> Optional[bool]:
    """The whole sampler evaluated on symbolic chain states (domains/chain.py): for every scenario of accept / reject decisions the
    returned samples must be the positions after each of the nsamples steps that follow nburnout uncollected steps, the weights
    uniform 1/nsamples.  None: not interpretable (the structural rules decide); True/False: decided (findings recorded)."""
    from ..domains.chain import run_sampler, Mismatch, Term, Buf, Weights, current_state
    from ..domains.dictsem import Unsupported, Raised
    from ..domains.kinds import module_records
    f = model.func(MCMC, name)
    mod = model.module(MCMC)
    functions = {q: fi.node for q, fi in mod.functions.items() if "." not in q}
    records = module_records(mod.tree)
    kind = "mhcustom" if name == "mhcustom" else "mh"
    runs = _MH_SCENARIOS if kind == "mh" else [(2, 3, None), (0, 2, None), (3, 1, None)]
    decided = 0
    for nb, ns, scen in runs:
        label = "%s, nburnout=%d, nsamples=%d%s" % (name, nb, ns, (", decisions %s" % scen) if scen else "")
        try:
            res, sh = run_sampler(f.node, functions, records, kind, nb, ns, scen)
        except (Unsupported, TypeError, AttributeError, KeyError, IndexError, ValueError) as e:
            if decided:
                raise AnalysisError("C16-S: %s is interpretable for some scenarios only (%s)" % (name, e))
            return None
        except (Mismatch, Raised) as e:
            S.bad(f, f.node, "%s: %s" % (label, e), what=label)
            decided += 1
            continue
        decided += 1
        if kind == "mh":
            nsteps = sh["noise"]
            states = [current_state(sh, j + 1) for j in range(nb + ns)] if nsteps >= nb + ns else None
        else:
            nsteps = sh["steps"]
            cur, states = sh["x0"], []
            for _ in range(nb + ns):
                cur = Term(("step", cur))
                states.append(cur)
        if nsteps != nb + ns:
            S.bad(f, f.node, "%s: the chain makes %d steps, not nburnout + nsamples = %d" % (label, nsteps, nb + ns), what=label)
            continue
        want = states[nb:]
        ok = isinstance(res, tuple) and len(res) == 2 and isinstance(res[0], list) and list(res[0]) == want
        if not ok:
            got = list(res[0]) if isinstance(res, tuple) and len(res) == 2 and isinstance(res[0], list) else res
            S.bad(f, f.node, "%s: the samples must be the positions after steps %d..%d of one chain started at x0 (burn-in steps not collected, a rejected proposal "
                  "records the current position again): expected %s, the sampler returns %s" % (label, nb + 1, nb + ns, want, got), what=label)
            continue
        w = res[1]
        if not (isinstance(w, Weights) and w.n == ns and isinstance(w.value, (int, float)) and abs(w.value * ns - 1.0) < 1e-12):
            S.bad(f, f.node, "%s: the weights must be uniform 1/nsamples over the %d samples, got %r" % (label, ns, w), what=label)
            continue
        S.ok(f.fq, "%s: samples = positions after steps %d..%d of one chain, uniform weights 1/%d" % (label, nb + 1, nb + ns, ns))
    return True


def _sampler_protocol(model: Model, S: RuleResult):
    for name, helper in (("mh", "_mh_sample"), ("mhcustom", "_mhcustom_sample")):
        _SEMANTIC_DECIDED[name] = False
        if _sampler_semantic(model, name, S) is not None:
            _SEMANTIC_DECIDED[name] = True
            continue
        f = model.func(MCMC, name)
        h = model.func(MCMC, helper)
        hp = h.params()
        # role of the helper's parameters: start state = 2nd, count = the one used in range(), collect flag = last
        start_p = hp[1]
        count_p = _loop_count_param(h)
        flag_p = hp[-1]
        calls = [s for s in f.node.body if isinstance(s, ast.Assign) and isinstance(s.value, ast.Call)
                 and resolve_call(model, f, s.value) is h]
        if len(calls) != 2:
            S.bad(f, f.node, "%s must call %s exactly twice (burn-in, collection); found %d call(s)" % (name, helper, len(calls)))
            continue
        c1, c2 = calls
        fp = f.params()  # (logpfcn, x0, pparams, nsamples, nburnout, ...)
        x0_p, ns_p, nb_p = fp[1], "nsamples", "nburnout"

        def src(e):
            return ast.unparse(e) if e is not None else None
        a = {k: src(_arg_for(c1.value, h, k)) for k in (start_p, count_p, flag_p)}
        what = "%s burn-in: %s(start=%s, count=%s, collect=%s)" % (name, helper, a[start_p], a[count_p], a[flag_p])
        if a[start_p] == x0_p and a[count_p] == nb_p and a[flag_p] == "False":
            S.ok(f.fq, what)
        else:
            S.bad(f, c1, "burn-in phase must start from `%s`, make `%s` steps and not collect" % (x0_p, nb_p), what=what)
        # state returned by phase 1
        t1 = c1.targets[0]
        state = t1.elts[0].id if isinstance(t1, ast.Tuple) and isinstance(t1.elts[0], ast.Name) else (t1.id if isinstance(t1, ast.Name) else None)
        b = {k: src(_arg_for(c2.value, h, k)) for k in (start_p, count_p, flag_p)}
        what = "%s collection: %s(start=%s, count=%s, collect=%s)" % (name, helper, b[start_p], b[count_p], b[flag_p])
        if state is not None and b[start_p] == state and b[count_p] == ns_p and b[flag_p] == "True":
            S.ok(f.fq, what)
        else:
            S.bad(f, c2, "collection phase must start from the state returned by the burn-in (`%s`), draw `%s` samples and collect"
                  % (state, ns_p), what=what)
        # phase-1 result is the helper's non-collect return (x first)
        rets = [r for r in own_nodes(h.node) if isinstance(r, ast.Return) and r.value is not None]
        nc = [r for r in rets if isinstance(r.value, ast.Tuple)]
        if nc and isinstance(nc[0].value.elts[0], ast.Name) and nc[0].value.elts[0].id == _state_var(h):
            S.ok(h.fq, "%s returns the last state first when not collecting" % helper)
        else:
            S.bad(h, rets[-1] if rets else h.node, "%s must return the last state when not collecting" % helper)


def _loop_count_param(h: FuncInfo) -> str:
    for n in own_nodes(h.node):
        if isinstance(n, ast.For) and isinstance(n.iter, ast.Call) and isinstance(n.iter.func, ast.Name) and n.iter.func.id == "range":
            for a in reversed(n.iter.args[:2]):
                for nm in ast.walk(a):
                    if isinstance(nm, ast.Name) and nm.id in h.params():
                        return nm.id
    raise AnalysisError("%s: no `for .. in range(<count parameter>)` loop" % h.fq)


def _state_var(h: FuncInfo) -> Optional[str]:
    """the variable initialised from the start-state parameter"""
    start = h.params()[1]
    for s in h.node.body:
        if isinstance(s, ast.Assign) and isinstance(s.targets[0], ast.Name) and isinstance(s.value, ast.Name) and s.value.id == start:
            return s.targets[0].id
    return start


_SEMANTIC_DECIDED: Dict[str, bool] = {}


def _counts(model: Model, N: RuleResult):
    for helper in ("_mh_sample", "_mhcustom_sample"):
        if _SEMANTIC_DECIDED.get(helper[1:].replace("_sample", "")):
            N.ok("%s::%s" % (MCMC, helper), "%s: one step and one stored sample per iteration, exactly `count` iterations - decided with the whole sampler on symbolic chain states (C16-S)" % helper)
            continue
        h = model.func(MCMC, helper)
        cnt = _loop_count_param(h)
        flag = h.params()[-1]
        loops = [n for n in own_nodes(h.node) if isinstance(n, ast.For)]
        if len(loops) != 1:
            N.bad(h, h.node, "expected exactly one sampling loop, found %d" % len(loops))
            continue
        lp = loops[0]
        args = lp.iter.args
        ok_range = (len(args) == 1 and isinstance(args[0], ast.Name) and args[0].id == cnt) or \
                   (len(args) == 2 and isinstance(args[0], ast.Constant) and args[0].value == 0 and isinstance(args[1], ast.Name) and args[1].id == cnt)
        what = "%s: `%s` makes exactly `%s` iterations" % (helper, norm_stmt(lp), cnt)
        if ok_range:
            N.ok(h.fq, what)
        else:
            N.bad(h, lp, "the sampling loop must run exactly `%s` times (range(%s))" % (cnt, cnt), what=what)
        ivar = lp.target.id if isinstance(lp.target, ast.Name) else None
        # buffer
        bufs = [s for s in own_nodes(h.node) if isinstance(s, ast.Assign) and isinstance(s.targets[0], ast.Name)
                and isinstance(s.value, ast.Call) and ast.unparse(s.value.func).split(".")[-1] in ("empty", "zeros")
                and s.value.args and isinstance(s.value.args[0], ast.Tuple) and s.value.args[0].elts
                and isinstance(s.value.args[0].elts[0], ast.Name) and s.value.args[0].elts[0].id == cnt]
        if len(bufs) != 1:
            N.bad(h, h.node, "no sample buffer of leading length `%s` found" % cnt)
            continue
        buf = bufs[0].targets[0].id
        N.ok(h.fq, "%s: buffer `%s` has leading length `%s`" % (helper, buf, cnt))
        stores = [s for s in own_nodes(h.node) if isinstance(s, ast.Assign) and isinstance(s.targets[0], ast.Subscript)
                  and isinstance(s.targets[0].value, ast.Name) and s.targets[0].value.id == buf]
        in_loop = [s for s in stores if any(a is lp for a in ancestors(s))]
        out_loop = [s for s in stores if s not in in_loop]
        for s in out_loop:
            N.bad(h, s, "a sample is stored outside the sampling loop: the buffer then does not hold exactly one sample per step")
        good = [s for s in in_loop if isinstance(s.targets[0].slice, ast.Name) and s.targets[0].slice.id == ivar]
        # exactly one store per iteration, guarded only by the collect flag
        if len(in_loop) == 1 and len(good) == 1:
            ifs = [i for i, inbody in enclosing_ifs(good[0], lp)]
            if all(isinstance(i.test, ast.Name) and i.test.id == flag for i in ifs):
                N.ok(h.fq, "%s: one store `%s` per iteration at the loop index" % (helper, norm_stmt(good[0])))
            else:
                N.bad(h, good[0], "the per-step store is conditional on something else than the collect flag")
        else:
            N.bad(h, lp, "each iteration must store exactly one sample at the loop index (found %d store(s) in the loop)" % len(in_loop))
        # no iteration can skip its store: the sampling loop has no continue / break / return
        jumps = [n for n in ast.walk(lp) if isinstance(n, (ast.Continue, ast.Break, ast.Return))]
        if jumps:
            N.bad(h, jumps[0], "an iteration of the sampling loop can be cut short (%s): its row of the sample buffer is never written, so the expectation averages "
                  "uninitialised memory (a rejected proposal must still record the current state)" % type(jumps[0]).__name__.lower())
        else:
            N.ok(h.fq, "%s: no continue/break/return inside the sampling loop (every iteration reaches its store)" % helper)
        # one state transition per iteration: the state variable is (re)assigned in the loop body at top level or under accept
        st = _state_var(h)
        steps = [s for s in ast.walk(lp) if isinstance(s, ast.Assign) and isinstance(s.targets[0], ast.Name) and s.targets[0].id == st]
        if steps:
            N.ok(h.fq, "%s: state `%s` advanced inside the loop" % (helper, st))
        else:
            N.bad(h, lp, "the chain state `%s` is never advanced inside the loop" % st)
        # the sample of iteration i is the state *after* the i-th step: in the loop body the store follows every
        # statement that advances the state
        if good and steps:
            def top_index(node):
                for k, b in enumerate(lp.body):
                    if any(x is node for x in ast.walk(b)):
                        return k
                return -1
            si = top_index(good[0])
            adv = [top_index(x) for x in steps]
            if all(a < si for a in adv):
                N.ok(h.fq, "%s: the store follows the state transition of the same iteration" % helper)
            else:
                N.bad(h, good[0], "the sample is stored before the state is advanced in that iteration: the collected samples are the burned-in "
                      "state plus the first count-1 new states, and the last drawn state is never used")


def _single_sample_calls(model: Model, X: RuleResult):
    """log p (and the custom step) are documented to receive ONE sample position: every call of the `logpfcn` parameter in the
    samplers passes a chain state or one element `xs[i]` of a node array - never the whole array of sample positions (a log p that
    reduces over its argument would silently broadcast one value over all nodes)."""
    for f in model.module(MCMC).functions.values():
        if f.parent is not None or not f.params() or f.params()[0] != "logpfcn":
            continue
        defs = function_defs(f.node)
        # arrays holding one entry per sample / node: defined from leggauss(...) or allocated with a leading sample count
        arrays = set()
        for nm, ds in defs.items():
            for d in ds:
                src = ast.unparse(d)
                if "leggauss(" in src or ("torch.empty((" in src or "torch.zeros((" in src) and "nsamples" in src:
                    arrays.add(nm)
        changed = True
        while changed:
            changed = False
            for nm, ds in defs.items():
                if nm in arrays:
                    continue
                for d in ds:
                    if isinstance(d, ast.Subscript) and isinstance(d.value, ast.Name) and d.value.id in arrays and not isinstance(d.slice, ast.Slice):
                        continue
                    if names_loaded(d) & arrays and not isinstance(d, ast.Subscript):
                        arrays.add(nm)
                        changed = True
        for c in own_nodes(f.node):
            if isinstance(c, ast.Call) and isinstance(c.func, ast.Name) and c.func.id == "logpfcn" and c.args:
                a = c.args[0]
                whole = isinstance(a, ast.Name) and a.id in arrays
                what = "%s: logpfcn(%s, ...)" % (f.name, ast.unparse(a))
                if whole:
                    X.bad(f, enclosing_stmt(c), "log p is called with the whole array of sample positions `%s` instead of one position at a time: a density that reduces over "
                          "its argument returns a single value that is broadcast over all nodes" % a.id, what=what)
                else:
                    X.ok(f.fq, what + " : one sample position")


def _one_context(model: Model, X: RuleResult, whole_package: bool = False):
    """At most one pure function's useobjparams context is open while a pure function is evaluated: with two contexts open at once,
    functions that are methods of the SAME object overwrite each other's substituted tensors (the second install wins)."""
    for f in (list(model.all_functions()) if whole_package else list(model.module(MCQ).functions.values())):
        for w in own_nodes(f.node):
            if not isinstance(w, ast.With):
                continue
            mine = [i for i in w.items if isinstance(i.context_expr, ast.Call) and isinstance(i.context_expr.func, ast.Attribute) and i.context_expr.func.attr == "useobjparams"]
            if not mine:
                continue
            nested = [i for b in w.body for x in ast.walk(b) if isinstance(x, ast.With) for i in x.items
                      if isinstance(i.context_expr, ast.Call) and isinstance(i.context_expr.func, ast.Attribute) and i.context_expr.func.attr == "useobjparams"]
            what = "%s: `%s`" % (f.qualname, norm_stmt(w, 90))
            fdefs = function_defs(f.node)

            def recv(i):
                e = i.context_expr.func.value
                if isinstance(e, ast.Name) and len(fdefs.get(e.id, [])) == 1 and isinstance(fdefs[e.id][0], (ast.Attribute, ast.Name)):
                    e = fdefs[e.id][0]
                return ast.unparse(e)
            receivers = {recv(i) for i in mine + nested}
            if len(receivers) > 1:
                X.bad(f, w, "two useobjparams contexts are open at the same time: when f and log p are methods of the same object the second install overwrites the tensors "
                      "of the first, so one of the functions is evaluated with the other's copies (its pull-back is None -> zero)", what=what)
            else:
                X.ok(f.fq, what + " : a single substitution context")


def _uniform_weights(model: Model, f, expr, sname, defs):
    """Decide `expr == 1/N replicated N times` with N = len(samples): "" if so, a reason if the expression was understood and is
    something else, None if it cannot be interpreted.  Understood spellings: zeros(S) + c, c + zeros(S), full(S, c), ones(S) * c,
    ones(S) / d, with S = N | (N,) | [N]; N, c, d arithmetic over samples.shape[0] / len(samples) (through local names)."""
    from ..domains.poly import eval_expr, S as _S, C as _C, Uninterpretable as _U
    sn = ast.unparse(sname)

    def atom(e):
        t = ast.unparse(e)
        if t in ("%s.shape[0]" % sn, "len(%s)" % sn, "%s.size(0)" % sn):
            return _S("N")
        if isinstance(e, ast.Name) and len(defs.get(e.id, [])) == 1:
            try:
                return eval_expr(defs[e.id][0], {}, atom)
            except _U:
                return None
        if isinstance(e, ast.Name):
            return _S(e.id)                      # a parameter / unknown quantity: a symbol of its own
        return None

    def num(e):
        return eval_expr(e, {}, atom)

    def shape_len(e):
        if isinstance(e, (ast.Tuple, ast.List)) and len(e.elts) == 1:
            e = e.elts[0]
        return num(e)
    try:
        length = value = None
        dtype_kw = None
        e = expr
        if isinstance(e, ast.BinOp) and isinstance(e.op, (ast.Add, ast.Mult, ast.Div)):
            sides = [e.left, e.right]
            ctor = [x for x in sides if isinstance(x, ast.Call) and ast.unparse(x.func).split(".")[-1] in ("zeros", "ones")]
            if len(ctor) != 1 or not ctor[0].args:
                return None
            other = sides[1] if sides[0] is ctor[0] else sides[0]
            kind = ast.unparse(ctor[0].func).split(".")[-1]
            length = shape_len(ctor[0].args[0])
            dtype_kw = next((k.value for k in ctor[0].keywords if k.arg == "dtype"), None)
            if kind == "zeros" and isinstance(e.op, ast.Add):
                value = num(other)
            elif kind == "ones" and isinstance(e.op, ast.Mult):
                value = num(other)
            elif kind == "ones" and isinstance(e.op, ast.Div) and e.left is ctor[0]:
                value = _C(1) / num(other)
            else:
                return None
        elif isinstance(e, ast.Call) and ast.unparse(e.func).split(".")[-1] == "full" and len(e.args) >= 2:
            length, value = shape_len(e.args[0]), num(e.args[1])
            dtype_kw = next((k.value for k in e.keywords if k.arg == "dtype"), None)
        else:
            return None
    except _U:
        return None
    if not length.eq(_S("N")):
        return "%r weights for len(samples) samples" % (length,)
    if not value.eq(_C(1) / _S("N")):
        return "each weight is %r, not 1/len(samples)" % (value,)
    # dtype: must not be the dtype of the state (which may be an integer tensor: 1/N would be truncated to 0)
    if dtype_kw is not None:
        state_params = set(f.params()[1:2])
        src = _dtype_source(model, f, dtype_kw, defs)
        if src is not None and src in state_params | {sn}:
            return "the weights take the dtype of the state `%s` (an integer state truncates 1/N to 0)" % src
    return ""


def _dtype_source(model: Model, f, e, defs, depth=0):
    """name of the tensor whose `.dtype` this expression is (followed through local names and tuples returned by module-level helpers)"""
    if depth > 5:
        return None
    if isinstance(e, ast.Attribute) and e.attr == "dtype" and isinstance(e.value, ast.Name):
        base = e.value.id
        # the base may itself be a plain alias of a parameter
        ds = defs.get(base, [])
        if len(ds) == 1 and isinstance(ds[0], ast.Name):
            return ds[0].id
        return base
    if isinstance(e, ast.Name):
        for st in own_nodes(f.node):
            if isinstance(st, ast.Assign) and isinstance(st.targets[0], ast.Tuple) and isinstance(st.value, ast.Call) and isinstance(st.value.func, ast.Name):
                names = [t.id if isinstance(t, ast.Name) else None for t in st.targets[0].elts]
                if e.id in names:
                    g = f.module.functions.get(st.value.func.id)
                    if g is None:
                        return None
                    k = names.index(e.id)
                    gd = function_defs(g.node)
                    for r in own_nodes(g.node):
                        if isinstance(r, ast.Return) and isinstance(r.value, ast.Tuple) and k < len(r.value.elts):
                            src = _dtype_source(model, g, r.value.elts[k], gd, depth + 1)
                            if src is None:
                                continue
                            # map the helper's parameter back to the caller's argument
                            if src in g.params():
                                i = g.params().index(src)
                                if i < len(st.value.args) and isinstance(st.value.args[i], ast.Name):
                                    return st.value.args[i].id
                            return src
                    return None
        ds = defs.get(e.id, [])
        if len(ds) == 1:
            return _dtype_source(model, f, ds[0], defs, depth + 1)
    return None


def _weights(model: Model, W: RuleResult):
    for name in ("mh", "mhcustom"):
        f = model.func(MCMC, name)
        rets = [r for r in own_nodes(f.node) if isinstance(r, ast.Return) and isinstance(r.value, ast.Tuple) and len(r.value.elts) == 2]
        if not rets:
            W.bad(f, f.node, "%s does not return (samples, weights)" % name)
            continue
        sname = rets[0].value.elts[0]
        wname = rets[0].value.elts[1]
        defs = function_defs(f.node)
        wd = defs.get(wname.id, []) if isinstance(wname, ast.Name) else [wname]       # the expression may be written in the return itself
        what = "%s weights = %s" % (name, norm_stmt(wd[0], 90) if wd else None)
        if len(wd) != 1:
            W.undecided(f, rets[0], "%s: the weights are not defined by a single expression" % name)
            continue
        verdict = _uniform_weights(model, f, wd[0], sname, defs)
        if verdict is None:
            W.undecided(f, rets[0], "%s: cannot interpret the weights expression `%s`" % (name, ast.unparse(wd[0])[:80]))
        elif verdict == "":
            W.ok(f.fq, what + "  [= 1/len(samples) replicated len(samples) times, floating dtype]")
        else:
            W.bad(f, rets[0], "the weights returned by %s are not 1/len(samples) replicated len(samples) times: %s" % (name, verdict), what=what)
    d = model.func(MCMC, "dummy1d")
    from ..domains import tensorterm as tt
    rets = [r for r in own_nodes(d.node) if isinstance(r, ast.Return) and isinstance(r.value, ast.Tuple)]
    ev = tt.TermEval({})
    try:
        ev.run(d.node.body)
    except tt.Unsupported as e:
        W.undecided(d, rets[0] if rets else d.node, "cannot interpret dummy1d: %s" % e)
        return
    got = ev.returned
    if not (got is not None and got[0] == "op" and got[1] == "tuple" and len(got) == 4):
        W.bad(d, rets[0] if rets else d.node, "dummy1d must return (samples, weights)")
        return
    w = got[3]
    c, t = tt._split_coef(w)
    factors = list(t[1]) if t[0] == "had" else [t]
    norm = [f_ for f_ in factors if f_[0] == "recip" and f_[1][0] == "op" and f_[1][1] == "sum" and len(f_[1]) == 3]
    ok = False
    if len(norm) == 1:
        rest = [f_ for f_ in factors if f_ is not norm[0]]
        ok = bool(rest) and tt.scale(c, tt.had(*rest)) == norm[0][1][2]
    if ok:
        W.ok(d.fq, "dummy1d normalises: weights = X / sum(X) with X = %s" % tt.show(norm[0][1][2])[:120])
    else:
        W.bad(d, rets[0] if rets else d.node, "dummy1d must return weights normalised by their sum (returned: %s)" % tt.show(w)[:200])
    # the integral
    it = model.func(MCQ, "_integrate")
    sem = _integrate_semantic(model, it, W)
    if sem is not None:
        return
    loops = [n for n in own_nodes(it.node) if isinstance(n, ast.For)]
    ok = False
    if len(loops) == 1:
        lp = loops[0]
        ps = it.params()  # ffcn, xsamples, wsamples, fparams
        zip_ok = isinstance(lp.iter, ast.Call) and isinstance(lp.iter.func, ast.Name) and lp.iter.func.id == "zip" \
            and [ast.unparse(a) for a in lp.iter.args] == [ps[1], ps[2]] and isinstance(lp.target, ast.Tuple) and len(lp.target.elts) == 2
        if zip_ok:
            xv, wv = [e.id for e in lp.target.elts]
            body = [s for s in lp.body if isinstance(s, (ast.Assign, ast.AugAssign))]
            if len(body) == 1:
                s = body[0]
                val = s.value
                if isinstance(s, ast.Assign) and isinstance(val, ast.BinOp) and isinstance(val.op, ast.Add):
                    acc = s.targets[0].id if isinstance(s.targets[0], ast.Name) else None
                    terms = [val.left, val.right]
                    term = [t for t in terms if not (isinstance(t, ast.Name) and t.id == acc)]
                    if len(term) == 1:
                        val = term[0]
                if isinstance(val, ast.BinOp) and isinstance(val.op, ast.Mult):
                    sides = [val.left, val.right]
                    calls = [x for x in sides if isinstance(x, ast.Call) and isinstance(x.func, ast.Name) and x.func.id == ps[0]
                             and x.args and isinstance(x.args[0], ast.Name) and x.args[0].id == xv]
                    ws = [x for x in sides if isinstance(x, ast.Name) and x.id == wv]
                    ok = len(calls) == 1 and len(ws) == 1
    if ok:
        W.ok(it.fq, "_integrate accumulates ffcn(x, *fparams) * w over zip(xsamples, wsamples)")
    else:
        W.bad(it, it.node, "_integrate must accumulate f(x_i) * w_i over the paired samples and weights")


def _same_samples(model: Model, fc, B: RuleResult):
    fw, bw = fc.forward, fc.backward
    # forward: sampling only when xsamples is None; ctx.xsamples / ctx.wsamples saved
    guard = [n for n in own_nodes(fw.node) if isinstance(n, ast.If) and ast.unparse(n.test) == "xsamples is None"]
    sampled_inside = guard and any(isinstance(c, ast.Call) and isinstance(c.func, ast.Name) and c.func.id == "method_fcn" for c in ast.walk(guard[0]))
    if guard and sampled_inside:
        B.ok(fw.fq, "forward draws samples only `if xsamples is None`")
    else:
        B.bad(fw, fw.node, "forward must skip the sampler when samples are supplied")
    saved = {}
    for s in own_nodes(fw.node):
        if isinstance(s, ast.Assign) and isinstance(s.targets[0], ast.Attribute) and s.targets[0].attr in ("xsamples", "wsamples") \
                and isinstance(s.value, ast.Name):
            saved[s.targets[0].attr] = s.value.id
    if saved == {"xsamples": "xsamples", "wsamples": "wsamples"}:
        B.ok(fw.fq, "forward keeps the samples and weights it integrated over on ctx")
    else:
        B.bad(fw, fw.node, "forward must keep the samples/weights it used for the backward pass (found %s)" % saved)
    # backward: recursive call passes them
    bdefs = function_defs(bw.node)
    call = None
    for c in own_nodes(bw.node):
        if isinstance(c, ast.Call) and isinstance(c.func, ast.Name) and c.func.id == "_mcquad":
            call = c
    if call is None:
        raise AnchorError("no recursive _mcquad call in _MCQuad.backward")
    mc = model.func(MCQ, "_mcquad")
    okb = True
    for p in ("xsamples", "wsamples"):
        a = _arg_for(call, mc, p)
        src = None
        if isinstance(a, ast.Name):
            ds = bdefs.get(a.id, [])
            src = ast.unparse(ds[0]) if len(ds) == 1 else None
        elif a is not None:
            src = ast.unparse(a)
        if src != "%s.%s" % (fc.bctx, p):
            okb = False
    if okb:
        B.ok(bw.fq, "backward passes ctx.xsamples / ctx.wsamples to the recursive _mcquad")
    else:
        B.bad(bw, enclosing_stmt(call), "the recursive _mcquad in backward must receive the samples and weights saved by forward")
    # _mcquad: they reach .apply in forward's slots
    ix, iw = fc.fixed.index("xsamples"), fc.fixed.index("wsamples")
    sites = [c for f, c in ac.apply_sites(model, fc) if f is mc]
    if not sites:
        raise AnchorError("_mcquad no longer calls _MCQuad.apply")
    for c in sites:
        ax, aw = c.args[ix], c.args[iw]
        what = "_MCQuad.apply(..., %s, %s, ...) in _mcquad" % (ast.unparse(ax), ast.unparse(aw))
        if isinstance(ax, ast.Name) and ax.id == "xsamples" and isinstance(aw, ast.Name) and aw.id == "wsamples":
            B.ok(mc.fq, what)
        else:
            B.bad(mc, enclosing_stmt(c), "_mcquad must hand its xsamples/wsamples arguments to _MCQuad.apply (otherwise the backward "
                  "expectation is taken over freshly drawn samples)", what=what)
