"""C07 -- solve_ivp integrates the ODE with the declared scheme (structural part).

Static analysis only.  The tableau literals are folded to exact rationals *from their source text* and every
Butcher order condition is decided exactly; the steppers are interpreted in the polynomial normal-form domain
(loops summarised, never unrolled or executed) and compared with the Runge-Kutta update formulas.
"""
from __future__ import annotations
import ast
from fractions import Fraction as Fr
from typing import List, Dict, Optional, Tuple
from ..model import Model, FuncInfo, own_nodes, norm_stmt, AnalysisError, AnchorError, enclosing_stmt, ancestors
from ..report import RuleResult
from ..flow import function_defs, names_loaded, def_use_closure
from ..callgraph import dict_literal_entries
from ..domains import exact
from ..domains.poly import Rat, Poly, C, S, Uninterpretable, eval_expr
from ..domains.fragment import Frag, Arr, ListVal, Tup, Opaque

PROP = "C07"
LEVEL = "other"
EXPLANATION = (
    "Decided from the source of solve_ivp's integrators, for every input at once: (T) the coefficients of all five schemes, folded to "
    "exact rationals from the literals' source text, satisfy explicitness, the row-sum condition and EVERY Butcher order condition "
    "(rooted trees) up to the declared order - 1 for euler, 4 for rk4 and rk38, 3(2) for rk23 and 5(4) for rk45, the embedded "
    "estimator on the FSAL-extended tableau - and equal the named schemes (classic RK4, 3/8 rule, Bogacki-Shampine, Dormand-Prince); "
    "thorough: the order is exactly the declared one; (D) each method name dispatches to the stepper with that tableau; (R) the "
    "generic explicit stepper and rk_step, interpreted in a polynomial normal-form domain with loops summarised as sums, compute "
    "k_j = f(t + c_j h, y + h sum_m a_jm k_m), y' = y + h sum_j b_j k_j with h = t[i+1]-t[i], the extra FSAL stage is f(t+h, y') stored "
    "in the slot the error weights contract; (X) the controller accepts iff ||K^T E h|| / (atol + rtol max(|y|,|y'|)) < 1, its exponent is "
    "-1/(q+1), growth/shrink factors are clipped, a step that would overshoot lands exactly on the requested time, and the state tuple "
    "is read at the position it is written; (0) row 0 of the result is the initial value; (I) one step per interval and the time grid "
    "is only read at the current interval (no dependence on later points); (V) a decreasing grid negates both the grid and the "
    "dynamics; (P) tuple states are flattened/unflattened with the same packer in the same order. NOT decided: global accuracy of the "
    "computed trajectory, the step-size heuristics beyond their structure.")
ASSUMPTIONS = ["order conditions imply the local order of an explicit Runge-Kutta method (Butcher)",
               "torch.matmul(K[:s].T, a[:s]) is the sum over the first s stages; torch.stack / reshape preserve values",
               "the user function is called only through the stepper's `fcn`/`func` parameter"]

ERK = "xitorch/_impls/integrate/ivp/explicit_rk.py"
ARK = "xitorch/_impls/integrate/ivp/adaptive_rk.py"
IVP = "xitorch/integrate/solve_ivp.py"
MISC = "xitorch/_utils/misc.py"


def _f(*xs):
    return [Fr(x) if not isinstance(x, tuple) else Fr(*x) for x in xs]


# named schemes (Hairer, Norsett, Wanner, "Solving ODEs I"): the property says *the named* scheme
NAMED_FIXED = {
    "euler": dict(order=1, c=_f(0), b=_f(1), a=[_f(0)]),
    "rk4": dict(order=4, c=_f(0, (1, 2), (1, 2), 1), b=_f((1, 6), (1, 3), (1, 3), (1, 6)),
                a=[_f(0, 0, 0, 0), _f((1, 2), 0, 0, 0), _f(0, (1, 2), 0, 0), _f(0, 0, 1, 0)]),
    "rk38": dict(order=4, c=_f(0, (1, 3), (2, 3), 1), b=_f((1, 8), (3, 8), (3, 8), (1, 8)),
                 a=[_f(0, 0, 0, 0), _f((1, 3), 0, 0, 0), _f((-1, 3), 1, 0, 0), _f(1, -1, 1, 0)]),
}
NAMED_PAIRS = {
    "rk23": dict(order=3, est=2, stages=3, C=_f(0, (1, 2), (3, 4)), B=_f((2, 9), (1, 3), (4, 9)),
                 A=[_f(), _f((1, 2)), _f(0, (3, 4))],
                 E=_f((5, 72), (-1, 12), (-1, 9), (1, 8))),
    "rk45": dict(order=5, est=4, stages=6, C=_f(0, (1, 5), (3, 10), (4, 5), (8, 9), 1),
                 B=_f((35, 384), 0, (500, 1113), (125, 192), (-2187, 6784), (11, 84)),
                 A=[_f(), _f((1, 5)), _f((3, 40), (9, 40)), _f((44, 45), (-56, 15), (32, 9)),
                    _f((19372, 6561), (-25360, 2187), (64448, 6561), (-212, 729)),
                    _f((9017, 3168), (-355, 33), (46732, 5247), (49, 176), (-5103, 18656))],
                 E=_f((-71, 57600), 0, (71, 16695), (-71, 1920), (17253, 339200), (-22, 525), (1, 40))),
}


# ------------------------------------------------------------------------------------------ discovery
def _dispatch(model: Model):
    """method name -> implementation FuncInfo, from the table handed to get_method in _SolveIVP.forward"""
    fwd = model.func(IVP, "_SolveIVP.forward")
    defs = function_defs(fwd.node)
    table = None
    for c in own_nodes(fwd.node):
        if isinstance(c, ast.Call) and ast.unparse(c.func) == "get_method" and len(c.args) >= 2:
            t = c.args[1]
            if isinstance(t, ast.Name) and len(defs.get(t.id, [])) == 1:
                t = defs[t.id][0]
            elif isinstance(t, ast.Name) and not defs.get(t.id) and t.id in fwd.module.assigns:
                t = fwd.module.assigns[t.id]                      # a module-level table
            table = dict_literal_entries(t)
    if not table:
        raise AnchorError("dispatch table of _SolveIVP.forward not found")
    out = {}
    for k, v in table:
        if isinstance(k, ast.Constant) and isinstance(k.value, str):
            r = model.resolve_expr(fwd.module, v)
            if r and r[0] == "func":
                out[k.value] = r[1]
    return out


def _bind_call(fi: FuncInfo, call: ast.Call) -> Dict[str, ast.AST]:
    """map a call's arguments to the callee's parameter names (positional + keyword; stars ignored)"""
    params = fi.params()
    out = {}
    for i, a in enumerate(call.args):
        if isinstance(a, ast.Starred):
            break
        if i < len(params):
            out[params[i]] = a
    for k in call.keywords:
        if k.arg:
            out[k.arg] = k.value
    return out


def _fixed_tableau_of(model: Model, impl: FuncInfo):
    """impl returns explicit_rk(<tableau>, fcn, t, y0, params): resolve the tableau literal; also checks the pass-through"""
    erk = model.func(ERK, "explicit_rk")
    for r in own_nodes(impl.node):
        if isinstance(r, ast.Return) and isinstance(r.value, ast.Call):
            tgt = model.resolve_expr(impl.module, r.value.func)
            if tgt and tgt[0] == "func" and tgt[1] is erk:
                b = _bind_call(erk, r.value)
                tab = b.get(erk.params()[0])
                res = model.resolve_expr(impl.module, tab) if tab is not None else None
                if not (res and res[0] == "assign"):
                    return None, r, "tableau argument does not resolve to a module-level literal"
                # the remaining arguments are the implementation's own parameters in the same roles
                mism = [p for p in erk.params()[1:] if not (isinstance(b.get(p), ast.Name) and b[p].id == p) and p in impl.params()]
                # roles by position of impl's signature (fcn, t, y0, params)
                want = dict(zip(erk.params()[1:], impl.params()[:4]))
                bad = [p for p, q in want.items() if not (isinstance(b.get(p), ast.Name) and b[p].id == q)]
                return (res[1], res[2], ast.unparse(tab)), r, ("arguments %s are not passed through in their roles" % bad) if bad else None
    return None, None, "no `return explicit_rk(...)`"


def _pair_class_of(model: Model, impl: FuncInfo):
    ra = model.func(ARK, "_rk_adaptive")
    for r in own_nodes(impl.node):
        if isinstance(r, ast.Return) and isinstance(r.value, ast.Call):
            tgt = model.resolve_expr(impl.module, r.value.func)
            if tgt and tgt[0] == "func" and tgt[1] is ra:
                b = _bind_call(ra, r.value)
                cls = b.get("cls")
                res = model.resolve_expr(impl.module, cls) if cls is not None else None
                if not (res and res[0] == "class"):
                    return None, r, "solver class argument does not resolve to a class"
                want = dict(zip(ra.params()[:4], impl.params()[:4]))
                bad = [p for p, q in want.items() if not (isinstance(b.get(p), ast.Name) and b[p].id == q)]
                kw_ok = any(k.arg is None for k in r.value.keywords)
                if not kw_ok:
                    bad.append("**kwargs (atol/rtol)")
                return res[1], r, ("arguments %s are not passed through" % bad) if bad else None
    return None, None, "no `return _rk_adaptive(...)`"


def _extract_fixed(module, call: ast.AST):
    """_Tableau(c=..., b=..., a=...) -> dict of folded values"""
    if not isinstance(call, ast.Call):
        raise Uninterpretable("tableau is not a constructor call: %s" % ast.unparse(call)[:60])
    fields = None
    r = None
    cname = ast.unparse(call.func)
    cls = module.classes.get(cname)
    if cls is not None:
        fields = [s.target.id for s in cls.node.body if isinstance(s, ast.AnnAssign) and isinstance(s.target, ast.Name)]
    vals = {}
    for i, a in enumerate(call.args):
        if fields and i < len(fields):
            vals[fields[i]] = a
    for k in call.keywords:
        vals[k.arg] = k.value
    out = {}
    for k in ("c", "b", "a"):
        if k not in vals:
            raise Uninterpretable("tableau field %s missing" % k)
        try:
            out[k] = exact.fold_nested(vals[k], module.source)
        except exact.NotFoldable as e:
            raise Uninterpretable("tableau field %s: %s" % (k, e))
    return out


def _extract_pair(cls):
    ca = {}
    for c in reversed(cls.mro()):
        ca.update({k: (v, c.module.source) for k, v in c.class_assigns().items()})
    out = {}
    for k in ("A", "B", "C", "E", "n_stages", "error_estimator_order"):
        if k not in ca or (isinstance(ca[k][0], ast.Constant) and ca[k][0].value is None):
            raise Uninterpretable("class attribute %s missing on %s" % (k, cls.name))
        try:
            out[k] = exact.fold_nested(ca[k][0], ca[k][1])
        except exact.NotFoldable as e:
            raise Uninterpretable("%s.%s: %s" % (cls.name, k, e))
    return out


# ------------------------------------------------------------------------------------------ C07-T
def _check_fixed(T: RuleResult, N: RuleResult, name, impl, where_fi, tabname, tab, node, tier):
    c, b, a = tab["c"], tab["b"], tab["a"]
    s = len(b)
    decl = NAMED_FIXED[name]
    p = decl["order"]
    what = "%s -> %s (%d stages)" % (name, tabname, s)
    if not (len(c) == s and len(a) == s and all(isinstance(r, list) and len(r) == s for r in a)):
        T.bad(where_fi, node, "%s: the tableau's c, b and rows of a do not all have length %d" % (what, s), what=what)
        return 0
    n_obl = 0
    expl = [(i, j) for i in range(s) for j in range(i, s) if a[i][j] != 0]
    if expl:
        T.bad(where_fi, node, "%s is not explicit: a[%d][%d] = %s is read as zero by the stepper (only stages m < j are summed)" % ((what,) + expl[0] + (a[expl[0][0]][expl[0][1]],)), what=what)
    else:
        T.ok(where_fi.fq, "%s: explicit (a_ij = 0 for j >= i), so the stepper's partial sums use every non-zero coefficient" % what)
    rows = [i for i in range(s) if sum(a[i], Fr(0)) != c[i]]
    if rows:
        T.bad(where_fi, node, "%s: row-sum condition c_i = sum_j a_ij fails for stage %d (c=%s, sum=%s)" % (what, rows[0], c[rows[0]], sum(a[rows[0]], Fr(0))), what=what)
    else:
        T.ok(where_fi.fq, "%s: c_i = sum_j a_ij for every stage (in particular c_0 = 0: the first stage is f(t, y))" % what)
    bad, n = exact.failed_conditions(a, b, p)
    n_obl += n
    if bad:
        k, t, lhs, rhs = bad[0]
        T.bad(where_fi, node, "%s: order condition of order %d for tree %s fails: sum b_i Phi_i = %s, required %s (%d of %d conditions up to order %d fail)"
              % (what, k, t, lhs, rhs, len(bad), n, p), what=what)
    else:
        T.ok(where_fi.fq, "%s: all %d order conditions up to the declared order %d hold exactly" % (what, n, p), conditions=n)
    if tier == "thorough" and not bad:
        att = exact.attained_order(a, b, 6)
        if att != p:
            T.note("%s attains order %d, declared %d (a higher attained order is not a violation)" % (what, att, p))
        T.ok(where_fi.fq, "%s: attained order is %d (first failing condition at order %d)" % (what, att, att + 1))
    same = (c == decl["c"] and b == decl["b"] and a == decl["a"])
    if same:
        N.ok(where_fi.fq, "%s: coefficients equal the named scheme exactly" % what)
    else:
        N.bad(where_fi, node, "%s: coefficients differ from the named scheme '%s' (the property promises the named Runge-Kutta scheme)" % (what, name), what=what)
    return n_obl


def _check_pair(T: RuleResult, N: RuleResult, name, cls, pair, tier):
    decl = NAMED_PAIRS[name]
    A, B, Cc, E = pair["A"], pair["B"], pair["C"], pair["E"]
    ns, q = pair["n_stages"], pair["error_estimator_order"]
    what = "%s -> class %s" % (name, cls.name)
    node = cls.node
    fq = cls.fq
    file = cls.module.relpath
    if not (isinstance(ns, Fr) and ns.denominator == 1 and isinstance(q, Fr) and q.denominator == 1):
        T.bad(fq, node, "%s: n_stages / error_estimator_order are not integers" % what, file=file, what=what)
        return 0
    ns, q = int(ns), int(q)
    p = decl["order"]
    if not (len(B) == ns and len(Cc) == ns and len(A) == ns and len(E) == ns + 1 and all(len(r) >= i for i, r in enumerate(A))):
        T.bad(fq, node, "%s: shapes disagree: n_stages=%d, len(B)=%d, len(C)=%d, rows(A)=%d, len(E)=%d (must be n_stages+1: the FSAL stage is "
              "contracted too)" % (what, ns, len(B), len(Cc), len(A), len(E)), file=file, what=what)
        return 0
    # the stepper reads a[:s] of row s only: effective strictly lower-triangular tableau
    a = [[(A[i][j] if j < i and j < len(A[i]) else Fr(0)) for j in range(ns)] for i in range(ns)]
    ignored = [(i, j) for i in range(ns) for j in range(len(A[i])) if j >= i and A[i][j] != 0]
    if ignored:
        T.bad(fq, node, "%s: A[%d][%d] = %s is never read by rk_step (row s uses its first s entries): the declared tableau is not the applied one"
              % ((what,) + ignored[0] + (A[ignored[0][0]][ignored[0][1]],)), file=file, what=what)
    else:
        T.ok(fq, "%s: every non-zero coefficient of A lies where rk_step reads it (strictly lower triangle)" % what)
    rows = [i for i in range(ns) if sum(a[i], Fr(0)) != Cc[i]]
    if rows:
        T.bad(fq, node, "%s: row-sum condition fails for stage %d (C=%s, sum A=%s)" % (what, rows[0], Cc[rows[0]], sum(a[rows[0]], Fr(0))), file=file, what=what)
    else:
        T.ok(fq, "%s: C_i = sum_j A_ij for every stage" % what)
    n_obl = 0
    bad, n = exact.failed_conditions(a, B, p)
    n_obl += n
    if bad:
        k, t, lhs, rhs = bad[0]
        T.bad(fq, node, "%s: order condition of order %d for tree %s fails for the propagated solution: %s, required %s (%d of %d fail)"
              % (what, k, t, lhs, rhs, len(bad), n), file=file, what=what)
    else:
        T.ok(fq, "%s: all %d order conditions up to order %d hold exactly for the propagated solution (A, B)" % (what, n, p), conditions=n)
    # FSAL-extended tableau: stage ns is f(t + h, ynew): c = 1, row = B
    a_ext = [r + [Fr(0)] for r in a] + [list(B) + [Fr(0)]]
    bhat = [x - e for x, e in zip(list(B) + [Fr(0)], E)]
    if sum(E, Fr(0)) != 0:
        T.bad(fq, node, "%s: the error weights do not sum to zero (sum E = %s): the error estimate does not vanish for constant dynamics" % (what, sum(E, Fr(0))), file=file, what=what)
    else:
        T.ok(fq, "%s: sum(E) = 0" % what)
    bad2, n2 = exact.failed_conditions(a_ext, bhat, q)
    n_obl += n2
    if bad2:
        k, t, lhs, rhs = bad2[0]
        T.bad(fq, node, "%s: the embedded solution b^ = [B,0] - E violates the order-%d condition for tree %s on the FSAL-extended tableau: %s, "
              "required %s - the error estimate is not that of an order-%d method" % (what, k, t, lhs, rhs, q), file=file, what=what)
    else:
        T.ok(fq, "%s: the embedded solution [B,0]-E satisfies all %d conditions up to error_estimator_order=%d on the FSAL-extended tableau" % (what, n2, q), conditions=n2)
    if q != decl["est"] or ns != decl["stages"]:
        T.bad(fq, node, "%s: declares error_estimator_order=%d, n_stages=%d; the method promises a %d(%d) pair with %d stages" % (what, q, ns, p, decl["est"], decl["stages"]), file=file, what=what)
    else:
        T.ok(fq, "%s: declared estimator order %d and stage count %d are those of the %d(%d) pair" % (what, q, ns, p, q))
    if tier == "thorough" and not bad and not bad2:
        att = exact.attained_order(a, B, 6)
        att2 = exact.attained_order(a_ext, bhat, 6)
        T.ok(fq, "%s: attained orders are exactly %d (propagated) and %d (embedded)" % (what, att, att2))
        if att2 >= att:
            T.bad(fq, node, "%s: the embedded solution has order %d >= %d: E estimates nothing" % (what, att2, att), file=file, what=what)
    tri = [[(A[i][j] if j < len(A[i]) else Fr(0)) for j in range(i)] for i in range(ns)]
    same = (tri == decl["A"] and B == decl["B"] and Cc == decl["C"] and E == decl["E"])
    if same:
        N.ok(fq, "%s: coefficients equal the named pair exactly" % what)
    else:
        N.bad(fq, node, "%s: coefficients differ from the named embedded pair" % what, file=file, what=what)
    return n_obl


# ------------------------------------------------------------------------------------------ C07-R explicit_rk
class _ErkModel:
    """interpretation of explicit_rk in the normal-form domain"""

    def __init__(self, model: Model):
        self.fi = model.func(ERK, "explicit_rk")
        P = self.fi.params()
        if len(P) < 5:
            raise AnchorError("explicit_rk no longer has the (tableau, fcn, t, y0, params) signature")
        self.p_tab, self.p_fcn, self.p_t, self.p_y0, self.p_params = P[:5]
        self.calls = []       # (call node, loop symbols, time, state, rest)
        self.fr = Frag(self.fi.module.source, on_call=self._call, on_attr=self._attr)
        self.fr.env[self.p_t] = Arr("t")
        self.fr.env[self.p_y0] = S("y0")
        self.fr.env[self.p_params] = Opaque("params")
        self.fr.env[self.p_tab] = Opaque("tableau")
        self.ret = self.fr.run(self.fi.node.body)

    def _attr(self, fr: Frag, e: ast.Attribute):
        if isinstance(e.value, ast.Name) and e.value.id == self.p_tab and e.attr in ("a", "b", "c"):
            return Arr(e.attr)
        if isinstance(e.value, ast.Name) and e.value.id == self.p_t and e.attr in ("dtype", "device"):
            return Opaque("t." + e.attr)
        return None

    def _call(self, fr: Frag, c: ast.Call):
        fn = ast.unparse(c.func)
        if fn == "len" and len(c.args) == 1:
            v = fr.ev(c.args[0])
            if isinstance(v, Arr) and not v.idx:
                return S("len(%s)" % v.base)
            raise Uninterpretable("len of %r" % (v,))
        if isinstance(c.func, ast.Name) and c.func.id == self.p_fcn:
            if len(c.args) < 2 or isinstance(c.args[0], ast.Starred) or isinstance(c.args[1], ast.Starred):
                raise Uninterpretable("user function call without explicit (t, y): %s" % ast.unparse(c))
            tm = fr.num(fr.ev(c.args[0]), "time argument")
            st = fr.num(fr.ev(c.args[1]), "state argument")
            rest = [ast.unparse(a) for a in c.args[2:]]
            if not fr.loop_syms:
                raise Uninterpretable("user function called outside the step loops")
            self.calls.append((c, tuple(fr.loop_syms), tm, st, rest))
            return fr.atom("K", (S(fr.loop_syms[-1]),))
        if isinstance(c.func, ast.Attribute) and c.func.attr in ("clone", "contiguous", "to", "type", "float", "double", "half", "detach", "cpu", "cuda"):
            try:
                recv = fr.ev(c.func.value)
            except Uninterpretable:
                recv = None
            if isinstance(recv, Rat):
                if c.func.attr in ("clone", "contiguous"):
                    return recv                                   # same values
                return fr.atom("@%s" % c.func.attr, (recv,))      # a conversion: possibly other values (dtype / graph)
        if fn in ("torch.stack",) and c.args:
            v = fr.ev(c.args[0])
            dim = [k.value for k in c.keywords if k.arg == "dim"] or list(c.args[1:2])
            d0 = (not dim) or (isinstance(dim[0], ast.Constant) and dim[0].value == 0)
            if isinstance(v, ListVal) and d0:
                return v
            raise Uninterpretable("torch.stack of %r along a non-leading dimension" % (v,))
        return None


def _erk_roles(model: Model, R: RuleResult, Z: RuleResult, I: RuleResult):
    try:
        em = _ErkModel(model)
    except Uninterpretable as e:
        raise AnalysisError("C07-R cannot interpret explicit_rk: %s" % e)
    fi, fr = em.fi, em.fr
    loops = [l for l in fr.loops]
    outer = [l for l in loops if l[1] == "$0"]
    stage = [l for l in loops if l[1] == "$1"]
    if len(outer) != 1 or len(stage) != 1:
        raise AnalysisError("C07-R: explicit_rk does not have the (interval loop, stage loop) structure any more")
    onode, osym, (olo, ohi, ostep), oin = outer[0]
    snode, ssym, (slo, shi, sstep), sin = stage[0]
    h = fr.atom("t", (S("$0") + C(1),)) - fr.atom("t", (S("$0"),))
    t0 = fr.atom("t", (S("$0"),))
    yprev = S("@prev:y:$0")
    # which local carries the state: the one whose loop-carried placeholder appears in the state arguments
    carried = [k for k, v in oin.env.items() if isinstance(v, Rat)]
    # interval loop covers range(len(t) - 1)
    if olo.eq(C(0)) and ohi.eq(S("len(t)") - C(1)) and ostep.eq(C(1)):
        I.ok(fi.fq, "one iteration per interval: for %s in range(len(t) - 1)" % onode.target.id)
    else:
        I.bad(fi, onode, "the interval loop must run over range(len(t) - 1): one step per requested interval")
    lens = {"len(c)", "len(b)", "len(a)"}
    if slo.eq(C(0)) and sstep.eq(C(1)) and repr(shi) in lens:
        R.ok(fi.fq, "stage loop covers every stage: range(%r)" % shi)
    else:
        R.bad(fi, snode, "the stage loop must visit every stage 0..s-1 of the tableau (found range(%r, %r, %r))" % (slo, shi, sstep))
    # list of stage values: ks.append(k) once per stage
    gens = {k: v for k, v in sin.env.items() if isinstance(v, ListVal)}
    stage_lists = {}
    for k, v in oin.env.items():
        if isinstance(v, ListVal) and v.gen is not None and v.gen[0] == "$1":
            stage_lists[v.name] = v.gen

    def resolve(base, idx):
        if base in stage_lists and len(idx) == 1:
            sym, val, lo, hi = stage_lists[base]
            return fr.subst(val, sym, idx[0])
        return None

    def exp_time(j):
        return t0 + fr.atom("c", (j,)) * h

    def exp_state(j, ystate):
        m = "$2"
        term = fr.atom("a", (j, S(m))) * fr.atom("K", (S(m),))
        return ystate + h * (C(0) if j.eq(C(0)) else fr.make_sum(m, C(0), j, C(1), term))

    def czero(base, idx):
        # c[0] = 0 and the empty sum: justified by C07-T (row-sum condition of an explicit tableau gives c_0 = 0)
        if base == "c" and len(idx) == 1 and idx[0].eq(C(0)):
            return C(0)
        return None

    if not em.calls:
        raise AnalysisError("C07-R: no call of the user function found in explicit_rk")
    for (c, syms, tm, st, rest) in em.calls:
        if syms != ("$0", "$1"):
            R.bad(fi, enclosing_stmt(c), "the dynamics are evaluated outside the stage loop")
            continue
        tm = fr.rewrite(tm, resolve)
        st = fr.rewrite(st, resolve)
        # stage index at this call: j == 0 branch or general
        cond = None
        for a in ancestors(c):
            if isinstance(a, ast.If) and a in [b[0] for b in fr.branches]:
                t = a.test
                if isinstance(t, ast.Compare) and len(t.ops) == 1 and isinstance(t.ops[0], ast.Eq) and isinstance(t.left, ast.Name) \
                        and t.left.id == snode.target.id and isinstance(t.comparators[0], ast.Constant) and t.comparators[0].value == 0:
                    inbody = any(c is n for s_ in a.body for n in ast.walk(s_))
                    cond = "zero" if inbody else "nonzero"
                else:
                    raise AnalysisError("C07-R: the user function is called under a condition the interpreter does not know: %s" % norm_stmt(a))
        j = C(0) if cond == "zero" else S("$1")
        et, es = exp_time(j), exp_state(j, yprev)
        if cond == "zero":
            et = fr.rewrite(et, czero)
            tm2 = fr.rewrite(tm, czero)
        else:
            tm2 = tm
        what = "stage %s: fcn(%s, %s)" % ("0" if cond == "zero" else "j", ast.unparse(c.args[0]), ast.unparse(c.args[1]))
        ok_t = tm2.eq(et)
        ok_s = st.eq(es)
        if ok_t and ok_s and rest == ["*" + em.p_params]:
            R.ok(fi.fq, what + "  ==  f(t_i + c_j h, y + h sum_{m<j} a_jm k_m), h = t[i+1] - t[i]")
        else:
            if not ok_t:
                R.bad(fi, enclosing_stmt(c), "stage time is not t_i + c_j*h with h = t[i+1]-t[i]: normal form %r, expected %r" % (tm2, et), what=what)
            if not ok_s:
                R.bad(fi, enclosing_stmt(c), "stage state is not y + h*sum_{m<j} a[j][m]*k[m]: normal form %r, expected %r" % (st, es), what=what)
            if rest != ["*" + em.p_params]:
                R.bad(fi, enclosing_stmt(c), "the extra parameters are not forwarded to the dynamics as *%s" % em.p_params, what=what)
    # update of the state
    ycands = [k for k, v in oin.env.items() if isinstance(v, Rat) and ("@prev:%s:$0" % k) in fr._deep_symbols(fr, v)]
    m = "$1"
    upd_expected = None
    found = False
    for k in ycands:
        v = fr.rewrite(oin.env[k], resolve)
        prev = S("@prev:%s:$0" % k)
        exp = prev + h * fr.make_sum(m, C(0), shi, C(1), fr.atom("b", (S(m),)) * fr.atom("K", (S(m),)))
        # the state arguments must use this same carried variable
        if any(("@prev:%s:$0" % k) in st.symbols() for (_, _, _, st, _) in em.calls):
            found = True
            if v.eq(exp) and k == "y" or v.eq(exp):
                R.ok(fi.fq, "update: %s <- %s + h * sum_j b[j] * k_j over all stages" % (k, k))
            else:
                stmt = [s_ for s_ in onode.body if isinstance(s_, (ast.Assign, ast.AugAssign)) and k in {n.id for n in ast.walk(s_) if isinstance(n, ast.Name) and isinstance(n.ctx, ast.Store)}]
                R.bad(fi, stmt[-1] if stmt else onode, "the step update is not y + h*sum_j b[j]*k_j: normal form %r, expected %r" % (v, exp))
    if not found:
        R.bad(fi, onode, "no loop-carried state variable feeds the stage evaluations (each step must start from the previous step's result)")
    # C07-0 / C07-I: result list
    ret = em.ret[1] if em.ret else None
    if not isinstance(ret, ListVal):
        raise AnalysisError("C07-0: explicit_rk does not return torch.stack(<list of states>, dim=0)")
    first = ret.items[0] if ret.items else None
    if isinstance(first, Rat) and first.eq(S("y0")) and ret.appends and ret.appends[0][0] == ():
        Z.ok(fi.fq, "row 0 of the stacked result is the y0 argument itself")
    else:
        Z.bad(fi, fi.node, "the first entry of the returned trajectory is not the initial value y0 unchanged")
    per_iter = [(syms, v) for syms, v in ret.appends if syms == ("$0",)]
    other = [(syms, v) for syms, v in ret.appends if syms not in ((), ("$0",))]
    if len(per_iter) == 1 and not other and len(ret.items) == 1:
        v = per_iter[0][1]
        # value appended is the updated state of this iteration
        okv = any(isinstance(v, Rat) and isinstance(oin.env.get(k), Rat) and v.eq(oin.env[k]) for k in ycands)
        if okv:
            I.ok(fi.fq, "exactly one state is recorded per interval and it is the state after that interval's step")
        else:
            I.bad(fi, onode, "the value recorded for an interval is not the state after that interval's single step")
    else:
        I.bad(fi, onode, "the result must receive exactly one entry per interval (found %d per iteration, %d elsewhere)" % (len(per_iter), len(other) + len(ret.items) - 1))
    # the grid is read only at i and i+1
    idxs = set()
    for name, (base, idx) in fr.atoms.items():
        if base == "t" and idx and "$probe" not in repr(idx[0]):     # ($probe: scratch symbol of the interpreter's equality test)
            idxs.add(repr(idx[0]))
    if idxs <= {"$0", "1 + $0"}:
        I.ok(fi.fq, "the time grid is read only at the current interval's end points t[i], t[i+1]: %s" % sorted(idxs))
    else:
        I.bad(fi, onode, "the stepper reads the time grid outside the current interval: indices %s" % sorted(idxs))



# ------------------------------------------------------------------------------------------ C07-R explicit_rk, specialised
def _erk_specialised(model: Model, tabs) -> List[Tuple[str, bool, str, Optional[ast.AST]]]:
    """Fall-back / cross-check of C07-R: explicit_rk partially evaluated for each *concrete* tableau its callers pass (loops over the
    tableau unrolled, helpers followed; time grid, state and user function symbolic).  Returns (rule, ok, message, node) tuples;
    raises Uninterpretable when the stepper is outside the evaluator's vocabulary."""
    from ..domains.pyspec import Spec, Rec, Lazy, RecList, Opq, _num
    fi = model.func(ERK, "explicit_rk")
    P = fi.params()
    if len(P) < 5:
        raise AnchorError("explicit_rk no longer has the (tableau, fcn, t, y0, params) signature")
    out = []
    for tabname, vals in tabs:
        def resolve(fexpr, _m=fi.module):
            r = model.resolve_expr(_m, fexpr)
            if r and r[0] == "func" and isinstance(r[1].node, ast.FunctionDef):
                return r[1].node
            return None
        sp = Spec(resolve, source=fi.module.source)
        params = Opq("params")
        grid = sp.grid("t")
        env = {P[0]: Rec(dict(c=list(vals["c"]), b=list(vals["b"]), a=[list(r) for r in vals["a"]])), P[1]: sp.user_fn, P[2]: grid, P[3]: S("y0"), P[4]: params}
        try:
            sp.run(fi.node.body, env)
            ret = None
        except Exception as e:
            if type(e).__name__ == "_Return":
                ret = e.v
            else:
                raise
        what = "explicit_rk specialised to %s" % tabname
        if len(sp.sym_loops) != 1 or not isinstance(ret, RecList):
            raise Uninterpretable("%s: no interval loop with a list of states returned through torch.stack" % what)
        lp = sp.sym_loops[0]
        i = S("$i")
        ok_range = lp["lo"].eq(C(0)) and lp["step"].eq(C(1)) and lp["hi"].eq(S("len(t)") - C(1))
        out.append(("C07-I", ok_range, "%s: one iteration per interval, range(len(t) - 1)" % what, lp["node"]))
        out.append(("C07-0", len(ret) == 1 and isinstance(ret[0], Rat) and ret[0].eq(S("y0")), "%s: row 0 of the result is y0 itself" % what, fi.node))
        ok_one = len(ret.per_iter) == 1 and isinstance(ret.per_iter[0], Rat)
        out.append(("C07-I", ok_one, "%s: exactly one state recorded per interval" % what, lp["node"]))
        if not ok_one:
            continue
        new = ret.per_iter[0]
        carried = [k for k in lp["carried_init"] if ("@prev:%s" % k) in new.symbols() or any(("@prev:%s" % k) in st.symbols() for _, st, _ in sp.fcalls)]
        if len(carried) != 1:
            out.append(("C07-R", False, "%s: no single loop-carried state feeds the stage evaluations (found %s)" % (what, carried), lp["node"]))
            continue
        k = carried[0]
        yp = S("@prev:%s" % k)
        init = lp["carried_init"][k]
        after = lp["after_body"][k]
        out.append(("C07-I", isinstance(init, Rat) and init.eq(S("y0")) and isinstance(after, Rat) and after.eq(new),
                    "%s: the first step starts from y0 and every step from the state recorded for the previous interval" % what, lp["node"]))
        # the expected step with this tableau's numbers, over the same atoms of the user function
        ncalls_code = len(sp.fcalls)
        t0 = S("t[%r]" % i)
        t1 = S("t[%r]" % (i + C(1)))
        h = t1 - t0
        ks = []
        for j, cj in enumerate(vals["c"]):
            acc = C(0)
            for m in range(j):
                acc = acc + C(vals["a"][j][m]) * ks[m]
            ks.append(sp.fatom(t0 + C(cj) * h, yp + h * acc))
        exp = yp
        for j, bj in enumerate(vals["b"]):
            exp = exp + h * C(bj) * ks[j]
        ok_step = new.eq(exp)
        out.append(("C07-R", ok_step, "%s: the recorded state is y + h sum_j b_j k_j with k_j = f(t_i + c_j h, y + h sum_{m<j} a_jm k_m), h = t[i+1] - t[i]%s"
                    % (what, "" if ok_step else " -- normal form %r, expected %r" % (new, exp)), lp["node"]))
        rest_ok = all(len(r) == 1 and isinstance(r[0], tuple) and r[0][0] == "star" and r[0][1] is params for r in sp.frest)
        out.append(("C07-R", rest_ok, "%s: the extra parameters are forwarded to every evaluation of the dynamics" % what, lp["node"]))
        reads = {repr(r) for r in sp.grid_reads}
        out.append(("C07-I", reads <= {repr(i), repr(i + C(1))}, "%s: the grid is read only at t[i], t[i+1] (indices %s)" % (what, sorted(reads)), lp["node"]))
    return out


# ------------------------------------------------------------------------------------------ C07-R rk_step
class _Sl:
    """a[lo:hi] view of an uninterpreted array (possibly `.T`)"""
    def __init__(self, arr: Arr, lo: Rat, hi: Rat, transposed=False):
        self.arr, self.lo, self.hi, self.transposed = arr, lo, hi, transposed


class _RkStepModel:
    def __init__(self, model: Model):
        self.fi = model.func(ARK, "rk_step")
        P = self.fi.params()
        if len(P) != 6:
            raise AnchorError("rk_step no longer has the (func, t, y, f, h, abck) signature")
        self.p_func, self.p_t, self.p_y, self.p_f, self.p_h, self.p_abck = P
        self.calls = []
        self.stores = []     # (index normal form, value, loop symbols)
        fr = self.fr = Frag(self.fi.module.source, on_call=self._call, on_attr=self._attr, on_subscript=self._sub, on_store=self._store)
        fr.env[self.p_t] = S("t")
        fr.env[self.p_y] = S("y")
        fr.env[self.p_f] = S("f")
        fr.env[self.p_h] = S("h")
        fr.env[self.p_abck] = Tup([Arr("A"), Arr("B"), Arr("C"), Arr("K")])   # roles by position, checked against the pack site
        self.ret = None
        self.loop = None
        for s in self.fi.node.body:
            if isinstance(s, ast.For) and not (isinstance(s.iter, ast.Call) and ast.unparse(s.iter.func) == "range"):
                self._zip_loop(s)
            else:
                r = fr.run([s])
                if r is not None:
                    self.ret = r[1]

    def _zip_loop(self, s: ast.For):
        fr = self.fr
        it = s.iter
        if not (isinstance(it, ast.Call) and ast.unparse(it.func) == "enumerate" and it.args and isinstance(it.args[0], ast.Call)
                and ast.unparse(it.args[0].func) == "zip"):
            raise Uninterpretable("stage loop header %s" % ast.unparse(it))
        start = [k.value for k in it.keywords if k.arg == "start"] or list(it.args[1:2])
        k0 = fr.num(fr.ev(start[0])) if start else C(0)
        tgt = s.target
        if not (isinstance(tgt, ast.Tuple) and len(tgt.elts) == 2 and isinstance(tgt.elts[0], ast.Name) and isinstance(tgt.elts[1], ast.Tuple)
                and len(tgt.elts[1].elts) == len(it.args[0].args) and all(isinstance(e, ast.Name) for e in tgt.elts[1].elts)):
            raise Uninterpretable("stage loop target %s" % ast.unparse(tgt))
        sym = "$0"
        inner = fr.fork()
        inner.loop_syms = [sym]
        inner.env[tgt.elts[0].id] = S(sym)
        his = []
        for name, src in zip(tgt.elts[1].elts, it.args[0].args):
            v = fr.ev(src)
            if isinstance(v, _Sl) and not v.arr.idx:
                # element number (sym - k0) of base[lo:hi]  ->  base[lo + sym - k0]
                inner.env[name.id] = Arr(v.arr.base, (v.lo + S(sym) - k0,))
                his.append(v.hi - v.lo + k0)
            elif isinstance(v, Arr) and not v.idx:
                inner.env[name.id] = Arr(v.base, (S(sym) - k0,))
                his.append(S("len(%s)" % v.base) + k0)
            else:
                raise Uninterpretable("zip operand %s" % ast.unparse(src))
        inner.loop_ranges = {sym: (k0, his[0], C(1))}
        self.loop = (s, sym, k0, his, inner)
        r = inner.run(s.body)
        if r is not None:
            raise Uninterpretable("return inside the stage loop")
        # names bound inside the loop are loop-local afterwards
        for n in ast.walk(s):
            if isinstance(n, ast.Name) and isinstance(n.ctx, ast.Store):
                fr.env[n.id] = None

    def _len(self, arr: Arr) -> Rat:
        return S("len(%s)" % arr.base)

    def _sub(self, fr: Frag, e: ast.Subscript):
        if isinstance(e.slice, ast.Slice):
            base = fr.ev(e.value)
            if not isinstance(base, Arr):
                raise Uninterpretable("slice of %r" % (base,))
            if e.slice.step is not None:
                raise Uninterpretable("strided slice %s" % ast.unparse(e))

            def bound(b, default):
                if b is None:
                    return default
                v = fr.num(fr.ev(b))
                if not v.symbols() and v.n.t.get((), 0) < 0:
                    return self._len(base) + v
                return v
            return _Sl(base, bound(e.slice.lower, C(0)), bound(e.slice.upper, self._len(base)))
        if isinstance(e.slice, ast.UnaryOp) and isinstance(e.slice.op, ast.USub) and isinstance(e.slice.operand, ast.Constant):
            base = fr.ev(e.value)
            if isinstance(base, Arr):
                return Arr(base.base, base.idx + (self._len(base) - C(e.slice.operand.value),))
        return None

    def _attr(self, fr: Frag, e: ast.Attribute):
        if e.attr in ("T", "mT"):
            v = fr.ev(e.value)
            if isinstance(v, _Sl):
                return _Sl(v.arr, v.lo, v.hi, not v.transposed)
            if isinstance(v, Arr):
                return _Sl(v, C(0), self._len(v), True)
        return None

    def _store(self, fr: Frag, target: ast.Subscript, val, op):
        if op is not None:
            raise Uninterpretable("augmented store into the stage buffer")
        base = fr.ev(target.value)
        if not (isinstance(base, Arr) and not base.idx):
            raise Uninterpretable("store target %s" % ast.unparse(target))
        sl = target.slice
        if isinstance(sl, ast.UnaryOp) and isinstance(sl.op, ast.USub) and isinstance(sl.operand, ast.Constant):
            idx = self._len(base) - C(sl.operand.value)
        else:
            idx = fr.num(fr.ev(sl), "store index")
        self.stores.append((base.base, idx, fr.num(val), tuple(fr.loop_syms), target))
        return True

    def _call(self, fr: Frag, c: ast.Call):
        fn = ast.unparse(c.func)
        if isinstance(c.func, ast.Name) and c.func.id == self.p_func:
            if len(c.args) != 2 or c.keywords:
                raise Uninterpretable("stage evaluation %s" % ast.unparse(c))
            tm, st = fr.num(fr.ev(c.args[0])), fr.num(fr.ev(c.args[1]))
            n = len(self.calls)
            self.calls.append((c, tuple(fr.loop_syms), tm, st))
            return fr.atom("F", (C(n),))
        if fn in ("torch.matmul", "torch.mv") and len(c.args) == 2:
            m, v = fr.ev(c.args[0]), fr.ev(c.args[1])
            if not (isinstance(m, _Sl) and m.transposed):
                raise Uninterpretable("matmul whose first operand is not a transposed stage block: %s" % ast.unparse(c))
            if isinstance(v, Arr):
                v = _Sl(v, C(0), m.hi - m.lo) if True else v
                whole = True
            elif isinstance(v, _Sl) and not v.transposed:
                whole = False
            else:
                raise Uninterpretable("matmul second operand %s" % ast.unparse(c.args[1]))
            if not (v.hi - v.lo).eq(m.hi - m.lo):
                raise Uninterpretable("matmul of blocks of different lengths: %s" % ast.unparse(c))
            mm = "$m"
            off = v.lo - m.lo
            term = fr.atom(m.arr.base, m.arr.idx + (S(mm),)) * fr.atom(v.arr.base, v.arr.idx + (S(mm) + off,))
            r = fr.make_sum(mm, m.lo, m.hi, C(1), term)
            if whole:
                self.whole_vectors = getattr(self, "whole_vectors", [])
                self.whole_vectors.append((v.arr.base, m.hi - m.lo, c))
            return r
        return None


def _rkstep_roles(model: Model, R: RuleResult):
    try:
        rm = _RkStepModel(model)
    except Uninterpretable as e:
        raise AnalysisError("C07-R cannot interpret rk_step: %s" % e)
    fi, fr = rm.fi, rm.fr
    if rm.loop is None:
        raise AnalysisError("C07-R: rk_step has no stage loop")
    lnode, sym, k0, his, inner = rm.loop
    nK = S("len(K)")
    mm = "$m"

    def dot(lo, hi, vec_idx_prefix, vec):
        term = fr.atom("K", (S(mm),)) * fr.atom(vec, vec_idx_prefix + (S(mm),))
        return fr.make_sum(mm, lo, hi, C(1), term)
    # K[0] = f
    st0 = [x for x in rm.stores if x[0] == "K" and x[1].eq(C(0)) and x[3] == ()]
    if st0 and st0[0][2].eq(S("f")):
        R.ok(fi.fq, "stage 0 is the derivative handed in (FSAL): K[0] = f")
    else:
        R.bad(fi, fi.node, "stage 0 of the buffer is not the derivative f at (t, y) handed in by the caller")
    # loop stages
    if not k0.eq(C(1)):
        R.bad(fi, lnode, "the stage loop must start at stage 1 (stage 0 is f); found start=%r" % k0)
    lst = [x for x in rm.stores if x[0] == "K" and x[3] == (sym,)]
    lcalls = [x for x in rm.calls if x[1] == (sym,)]
    if len(lst) != 1 or len(lcalls) != 1:
        R.bad(fi, lnode, "each stage must be evaluated once and stored once (found %d evaluations, %d stores)" % (len(lcalls), len(lst)))
    else:
        base, idx, val, _, tnode = lst[0]
        c, _, tm, stt = lcalls[0]
        n = rm.calls.index(lcalls[0])
        et = S("t") + fr.atom("C", (S(sym),)) * S("h")
        es = S("y") + S("h") * dot(C(0), S(sym), (S(sym),), "A")
        what = "stage s: K[%s] = func(%s, %s)" % (ast.unparse(tnode.slice), ast.unparse(c.args[0]), ast.unparse(c.args[1]))
        ok = True
        if not idx.eq(S(sym)):
            ok = False
            R.bad(fi, enclosing_stmt(tnode), "stage s is stored in slot %r instead of slot s" % idx, what=what)
        if not val.eq(fr.atom("F", (C(n),))):
            ok = False
            R.bad(fi, enclosing_stmt(tnode), "the value stored as stage s is not the stage evaluation", what=what)
        if not tm.eq(et):
            ok = False
            R.bad(fi, enclosing_stmt(c), "stage time is not t + C[s]*h: normal form %r, expected %r" % (tm, et), what=what)
        if not stt.eq(es):
            ok = False
            R.bad(fi, enclosing_stmt(c), "stage state is not y + h*sum_{m<s} A[s][m]*K[m]: normal form %r, expected %r" % (stt, es), what=what)
        if ok:
            R.ok(fi.fq, what + "  ==  f(t + C_s h, y + h sum_{m<s} A_sm K_m), s = 1..")
    # ynew, fnew
    post = [x for x in rm.calls if x[1] == ()]
    ret = rm.ret
    if not (isinstance(ret, Tup) and len(ret.items) == 2 and len(post) == 1):
        R.bad(fi, fi.node, "rk_step must evaluate the FSAL stage once after the stage loop and return (ynew, fnew)")
        return rm
    c, _, tm, stt = post[0]
    n = rm.calls.index(post[0])
    ynew, fnew = ret.items
    eyn = S("y") + S("h") * dot(C(0), nK - C(1), (), "B")
    what = "ynew = %s" % "y + h * K[:-1]^T B"
    if isinstance(ynew, Rat) and ynew.eq(eyn):
        R.ok(fi.fq, "propagated solution: ynew == y + h * sum_{m < n_stages} B[m] K[m] (all stages except the FSAL slot)")
    else:
        R.bad(fi, fi.node.body[-1], "the returned solution is not y + h*sum_m B[m]*K[m] over the n_stages stages: normal form %r, expected %r" % (ynew, eyn))
    if tm.eq(S("t") + S("h")) and isinstance(ynew, Rat) and stt.eq(ynew) and isinstance(fnew, Rat) and fnew.eq(fr.atom("F", (C(n),))):
        R.ok(fi.fq, "FSAL stage: fnew = func(t + h, ynew) (c = 1, row = B) and it is what is returned")
    else:
        R.bad(fi, enclosing_stmt(c), "the extra stage must be func(t + h, ynew) and be returned as fnew (found time %r, state %r)" % (tm, stt))
    last = [x for x in rm.stores if x[0] == "K" and x[3] == () and x[1].eq(nK - C(1))]
    if last and last[0][2].eq(fr.atom("F", (C(n),))):
        R.ok(fi.fq, "the FSAL stage is stored in the last slot K[-1], the slot the last error weight contracts")
    else:
        R.bad(fi, fi.node, "the FSAL stage is not stored in the last slot of the stage buffer (the error estimate would use a stale row)")
    return rm


# ------------------------------------------------------------------------------------------ C07-X controller
def _self_attr(e: ast.AST) -> Optional[str]:
    if isinstance(e, ast.Attribute) and isinstance(e.value, ast.Name) and e.value.id == "self":
        return e.attr
    return None


def _atom_hook_factory(extra=None):
    """atoms for the controller's scalar algebra: self.<attr> -> symbol, x.norm() -> |x|, torch.max(a, b) -> MAX{a,b}"""
    def hook(e):
        a = _self_attr(e)
        if a is not None:
            return S("self." + a)
        if isinstance(e, ast.Call):
            fn = ast.unparse(e.func)
            if isinstance(e.func, ast.Attribute) and e.func.attr == "norm" and not e.args:
                return S("|%s|" % ast.unparse(e.func.value))
            if fn in ("torch.max", "max", "torch.maximum") and len(e.args) == 2:
                parts = sorted(repr(eval_expr(x, {}, hook)) for x in e.args)
                return S("MAX{%s}" % ",".join(parts))
            if extra:
                r = extra(e)
                if r is not None:
                    return r
        if isinstance(e, ast.Name):
            return S(e.id)
        return None
    return hook


_SINGLE_STEP_SPEC = """
def _single_step(self, rk_state, t1):
    f0, t0, y0, h = rk_state
    accepted = False
    prev_rejected = False
    while not accepted:
        t1_achieved = t0 + h > t1
        hstep = t1 - t0 if t1_achieved else h
        tnew = t0 + hstep
        abck = (self.A, self.B, self.C, self.K)
        ynew, fnew = rk_step(self.func, t0, y0, f0, hstep, abck)
        scale = self.atol + torch.max(y0.norm(), ynew.norm()) * self.rtol
        errnorm = self._error_norm(self.K, hstep) / scale
        accepted = errnorm < 1
        if accepted and not t1_achieved:
            if errnorm == 0:
                factor = self.max_factor
            else:
                factor = min(self.max_factor, self.step_mult * errnorm ** self.error_exponent)
            if prev_rejected:
                factor = min(1.0, factor)
            h *= factor
        elif not accepted:
            factor = max(self.min_factor, self.step_mult * errnorm ** self.error_exponent)
            h = hstep * factor
        prev_rejected = not accepted
    rk_state = (fnew, tnew, ynew, h)
    return rk_state, t1_achieved
"""

_STEP_SPEC = """
def _step(self, rk_state, t1):
    t1_achieved = False
    while not t1_achieved:
        rk_state, t1_achieved = self._single_step(rk_state, t1)
    return rk_state
"""


def _loop_parts(fnode):
    """(statements before, the loop, statements after) of a function whose body has exactly one top-level `while`"""
    body = [st for st in fnode.body if not (isinstance(st, ast.Expr) and isinstance(st.value, ast.Constant))]
    idx = [i for i, st in enumerate(body) if isinstance(st, ast.While)]
    if len(idx) != 1 or body[idx[0]].orelse:
        return None
    if any(isinstance(n, (ast.While, ast.For)) for st in body[:idx[0]] + body[idx[0] + 1:] for n in ast.walk(st)):
        return None
    return body[:idx[0]], body[idx[0]], body[idx[0] + 1:]


def _loop_semantics(fi: FuncInfo, spec_src: str, R: RuleResult, what: str, max_trips: int = 3) -> Optional[bool]:
    """The function and its specification (reference code kept in the checker) are both evaluated over symbolic terms through up to
    `max_trips` trips of their loop, for every consistent assignment of the tests the terms leave open (the acceptance test, the
    overshoot test, ..; keyed by the test's *term*, so `accepted`, `not errnorm < 1` and `errnorm >= 1` are one decision).  On every
    assignment the returned terms must be equal.  Flag loops, `while True` with return / continue / break and guard clauses are all
    the same to this comparison.  Returns True (decided, reported), False (undecided: the caller may fall back), None (not applicable)."""
    from ..domains import tensorterm as tt
    parts = _loop_parts(fi.node)
    sfn = ast.parse(spec_src).body[0]
    sparts = _loop_parts(sfn)
    if parts is None or sparts is None:
        return None
    cps, sps = fi.params(), [a.arg for a in sfn.args.args]
    if len(cps) != len(sps):
        return None
    syms = {i: ("op", "name", "arg%d" % i) for i in range(len(sps))}
    cenv = {p_: syms[i] for i, p_ in enumerate(cps)}
    senv = {p_: syms[i] for i, p_ in enumerate(sps)}

    def run_both(ch):
        return (tt.simulate_loop(parts[0], parts[1], parts[2], cenv, ch, max_trips=max_trips),
                tt.simulate_loop(sparts[0], sparts[1], sparts[2], senv, ch, max_trips=max_trips))
    try:
        outcomes = tt.all_outcomes(run_both)
    except tt.Unsupported as e:
        R.undecided(fi, fi.node, "cannot interpret %s over terms: %s" % (what, e))
        return False
    n_ok = 0
    for ch, (got, want) in outcomes:
        if got == want:
            n_ok += 1
            continue
        label = ", ".join("%s%s" % ("" if v_ else "NOT ", tt.show(k_)[:70]) for k_, v_ in ch.items())
        if got[0] == "return" and want[0] == "return" and tt.foreign_operators(got[1], want[1]):
            R.undecided(fi, fi.node, "cannot interpret %s: it uses %s, which the specification term does not" % (what, tt.foreign_operators(got[1], want[1])))
            return False
        rets = [r for r in own_nodes(fi.node) if isinstance(r, ast.Return)]
        R.bad(fi, rets[-1] if rets else fi.node, "%s differs from its specification when [%s]: it %s %s, the specification %s %s" %
              (what, label, got[0] + "s" if got[0] == "return" else got[0], tt.show(got[1])[:300] if got[1] is not None else "",
               want[0] + "s" if want[0] == "return" else want[0], tt.show(want[1])[:300] if want[1] is not None else ""))
        return True
    R.ok(fi.fq, "%s equals its specification on all %d consistent outcomes of the open tests (up to %d trips of the loop; term comparison)" % (what, n_ok, max_trips))
    return True


def _controller_rest(model: Model, X: RuleResult, base):
    # _error_norm: norm of (K^T E) * h
    enf = base.find_method("_error_norm")
    if enf is None:
        raise AnchorError("anchor function vanished: RKAdaptiveStepSolver._error_norm")
    try:
        em = _ErrNorm(enf)
        if em.ok:
            X.ok(enf.fq, "_error_norm returns || sum_m K[m] E[m] * h || over all n_stages+1 rows")
        else:
            X.bad(enf, enf.node, "the error estimate is not the norm of h * sum_m E[m] K[m] over the whole stage buffer: %s" % em.why)
    except Uninterpretable as e:
        raise AnalysisError("C07-X: cannot interpret _error_norm: %s" % e)
    # the stage buffer has n_stages + 1 rows and is the one handed to rk_step
    setup = base.find_method("setup")
    kal = [s for s in own_nodes(setup.node) if isinstance(s, ast.Assign) and any(_self_attr(t) == "K" for t in s.targets)]
    okK = False
    if len(kal) == 1 and isinstance(kal[0].value, ast.Call) and kal[0].value.args:
        shp = kal[0].value.args[0]
        if isinstance(shp, (ast.Tuple, ast.List)) and shp.elts:
            try:
                r0 = eval_expr(shp.elts[0], {}, lambda e: S("ns") if _self_attr(e) == "n_stages" else None)
                okK = r0.eq(S("ns") + C(1))
            except Uninterpretable:
                okK = False
    if okK:
        X.ok(setup.fq, "the stage buffer has n_stages + 1 rows (the FSAL slot exists): `%s`" % norm_stmt(kal[0]))
    else:
        X.bad(setup, kal[0] if kal else setup.node, "the stage buffer must be allocated with n_stages + 1 rows")


def _controller(model: Model, X: RuleResult, L: RuleResult, rm: "_RkStepModel"):
    base = model.cls(ARK, "RKAdaptiveStepSolver")
    init = base.find_method("__init__")
    # X1 exponent
    asg = [s for s in own_nodes(init.node) if isinstance(s, ast.Assign) and any(_self_attr(t) == "error_exponent" for t in s.targets)]
    if len(asg) != 1:
        raise AnalysisError("C07-X: assignment of self.error_exponent not found in RKAdaptiveStepSolver.__init__")

    def h1(e):
        if _self_attr(e) == "error_estimator_order":
            return S("q")
        return None
    try:
        val = eval_expr(asg[0].value, {}, h1, init.module.source)
    except Uninterpretable as e:
        raise AnalysisError("C07-X: cannot normalise the error exponent: %s" % e)
    if val.eq(C(-1) / (S("q") + C(1))):
        X.ok(init.fq, "error_exponent == -1/(error_estimator_order + 1): `%s`" % norm_stmt(asg[0]))
    else:
        X.bad(init, asg[0], "the step-size exponent must be -1/(q+1) for an estimator of order q; normal form %r" % val)
    # uses of the exponent: errnorm ** self.error_exponent in both branches
    ss = base.find_method("_single_step")
    if ss is None:
        raise AnchorError("anchor function vanished: RKAdaptiveStepSolver._single_step")
    sem = _loop_semantics(ss, _SINGLE_STEP_SPEC, X, "the accept / reject loop of _single_step (scaled error test, landing on t1, step-size update, returned state)")
    if sem:
        for txt in ("accepted <=> ||K^T E h|| / (atol + rtol*max(|y|,|ynew|)) < 1 with h the step actually taken",
                    "a trial step that would pass the requested time is shortened to land exactly on it: t0 + (t1 - t0)",
                    "step-size update: growth min(max_factor, c*err^e) (capped at 1 after a rejection), rejection h <- h_taken * max(min_factor, c*err^e)",
                    "the only way out of the step loop is an accepted trial"):
            X.ok(ss.fq, txt + " [implied by the term comparison with the specification]")
        L.ok(ss.fq, "rk_step receives (self.A, self.B, self.C, self.K) and self.func, the new state is (fnew, t0 + h_taken, ynew, h) plus the achieved flag "
             "[term comparison with the specification]")
        L.ok(ss.fq, "the state tuple is unpacked and re-packed in one layout [term comparison with the specification]")
        _controller_rest(model, X, base)
        return _layout(ss, rm)
    defs = function_defs(ss.node)
    loops = [w for w in own_nodes(ss.node) if isinstance(w, ast.While)]
    if len(loops) != 1:
        raise AnalysisError("C07-X: _single_step no longer has a single accept loop")
    w = loops[0]
    flag = None
    t = w.test
    if isinstance(t, ast.UnaryOp) and isinstance(t.op, ast.Not) and isinstance(t.operand, ast.Name):
        flag = t.operand.id
    if flag is None:
        raise AnalysisError("C07-X: the accept loop's condition is not `not <flag>`")
    if any(isinstance(n, ast.Break) for n in ast.walk(w)) or any(isinstance(n, ast.Return) for n in ast.walk(w)):
        X.bad(ss, w, "the accept loop can be left other than by the acceptance test (break/return inside)")
    else:
        X.ok(ss.fq, "the only exit of the step loop is `%s` becoming true" % flag)
    fasg = [s for s in ast.walk(w) if isinstance(s, ast.Assign) and any(isinstance(x, ast.Name) and x.id == flag for x in s.targets)]
    if len(fasg) != 1 or not isinstance(fasg[0].value, ast.Compare) or len(fasg[0].value.ops) != 1:
        X.bad(ss, fasg[0] if fasg else w, "the acceptance flag must be set exactly once per trial from one comparison of the scaled error with 1")
        return _layout(ss, rm)
    cmp_ = fasg[0].value
    left, op, right = cmp_.left, cmp_.ops[0], cmp_.comparators[0]
    if isinstance(op, (ast.Gt, ast.GtE)):
        left, right = right, left
        op = ast.Lt() if isinstance(op, ast.Gt) else ast.LtE()
    if not (isinstance(op, (ast.Lt, ast.LtE)) and isinstance(right, ast.Constant) and right.value == 1 and isinstance(left, ast.Name)):
        X.bad(ss, fasg[0], "a trial step must be accepted iff the scaled error is below 1 (found `%s`)" % norm_stmt(fasg[0]))
        return _layout(ss, rm)
    errname = left.id
    # locals of the loop body, in order
    body_defs: Dict[str, ast.AST] = {}
    for s in w.body:
        if isinstance(s, ast.Assign) and len(s.targets) == 1:
            if isinstance(s.targets[0], ast.Name):
                body_defs[s.targets[0].id] = s.value
            elif isinstance(s.targets[0], ast.Tuple):
                for i, e in enumerate(s.targets[0].elts):
                    if isinstance(e, ast.Name):
                        body_defs[e.id] = ("item", i, s.value)
    # the rk_step call
    rk = [(k, v) for k, v in body_defs.items() if isinstance(v, tuple) and isinstance(v[2], ast.Call) and ast.unparse(v[2].func) == "rk_step"]
    if len(rk) != 2:
        raise AnalysisError("C07-X: `ynew, fnew = rk_step(...)` not found in the accept loop")
    rkcall = rk[0][1][2]
    rkb = _bind_call(rm.fi, rkcall)
    ynew_name = [k for k, v in rk if v[1] == 0][0]
    fnew_name = [k for k, v in rk if v[1] == 1][0]
    step_arg = rkb.get(rm.p_h)

    keep = {ynew_name, fnew_name} | ({step_arg.id} if isinstance(step_arg, ast.Name) else set())

    def expand(e, depth=0):
        """inline loop-body locals (single definitions) into an expression copy"""
        class T(ast.NodeTransformer):
            def visit_Name(self, n):
                v = body_defs.get(n.id)
                if isinstance(n.ctx, ast.Load) and v is not None and not isinstance(v, tuple) and depth < 6 and n.id not in keep:
                    return expand(v, depth + 1)
                return n
        import copy as _c
        return T().visit(_c.deepcopy(e))

    def errhook(e):
        if isinstance(e, ast.Call) and _self_attr(e.func) is not None:
            callee = base.find_method(_self_attr(e.func))
            if callee is not None and callee.name == "_error_norm":
                args = [repr(eval_expr(x, {}, hook, ss.module.source)) for x in e.args]
                return S("ERRNORM(%s)" % ",".join(args))
        return None
    hook = _atom_hook_factory(errhook)
    try:
        en = eval_expr(expand(ast.Name(id=errname, ctx=ast.Load())), {}, hook, ss.module.source)
    except Uninterpretable as e:
        raise AnalysisError("C07-X: cannot normalise the scaled error: %s" % e)
    y_arg = ast.unparse(rkb.get(rm.p_y)) if rkb.get(rm.p_y) is not None else "?"
    step_txt = ast.unparse(step_arg) if step_arg is not None else "?"
    stepnf = repr(eval_expr(expand(step_arg), {}, hook, ss.module.source)) if step_arg is not None else "?"
    mx = "MAX{%s}" % ",".join(sorted(["|%s|" % y_arg, "|%s|" % ynew_name]))
    expected = S("ERRNORM(self.K,%s)" % stepnf) / (S("self.atol") + S(mx) * S("self.rtol"))
    if en.eq(expected):
        X.ok(ss.fq, "accepted <=> ||K^T E h|| / (atol + rtol*max(|y|,|ynew|)) < 1 with h the step actually taken (`%s`)" % step_txt)
    else:
        X.bad(ss, fasg[0], "the accepted-step test is not error_norm(K, h_taken)/(atol + rtol*max(|y|,|ynew|)) < 1: normal form %r, expected %r" % (en, expected))
    _controller_rest(model, X, base)
    # pack site of abck agrees with the unpack roles in rk_step
    ab = rkb.get(rm.p_abck)
    abv = body_defs.get(ab.id) if isinstance(ab, ast.Name) else ab
    roles = [(_self_attr(x) if isinstance(abv, ast.Tuple) else None) for x in (abv.elts if isinstance(abv, ast.Tuple) else [])]
    if roles == ["A", "B", "C", "K"] and _self_attr(rkb.get(rm.p_func)) == "func":
        L.ok(ss.fq, "rk_step receives (self.A, self.B, self.C, self.K) in the order it unpacks them and self.func as the dynamics")
    else:
        L.bad(ss, enclosing_stmt(rkcall), "the coefficient tuple handed to rk_step is %s; rk_step unpacks (A, B, C, K)" % roles)
    # landing exactly on the requested time
    unp = [s for s in ss.node.body if isinstance(s, ast.Assign) and isinstance(s.targets[0], ast.Tuple) and isinstance(s.value, ast.Name)
           and s.value.id == ss.params()[1]]
    if len(unp) != 1:
        raise AnalysisError("C07-L: `f0, t0, y0, h = rk_state` not found in _single_step")
    names = [e.id if isinstance(e, ast.Name) else None for e in unp[0].targets[0].elts]
    pos = {}
    for role, p in (("f", rm.p_f), ("t", rm.p_t), ("y", rm.p_y)):
        a = rkb.get(p)
        if isinstance(a, ast.Name) and a.id in names:
            pos[role] = names.index(a.id)
    if len(pos) != 3 or len(names) != 4:
        raise AnalysisError("C07-L: cannot determine the layout of the solver state tuple")
    pos["h"] = [i for i in range(4) if i not in pos.values()][0]
    tname, hname, t1name = names[pos["t"]], names[pos["h"]], ss.params()[2]
    # hstep = t1 - t0 if achieved else h ; achieved = t0 + h > t1
    sd = body_defs.get(step_arg.id) if isinstance(step_arg, ast.Name) else None
    land_ok = False
    if isinstance(sd, ast.IfExp) and isinstance(sd.test, ast.Name):
        ach = body_defs.get(sd.test.id)
        try:
            b = eval_expr(sd.body, {}, _atom_hook_factory())
            o = eval_expr(sd.orelse, {}, _atom_hook_factory())
            cond_ok = False
            if isinstance(ach, ast.Compare) and len(ach.ops) == 1:
                l_, r_ = eval_expr(ach.left, {}, _atom_hook_factory()), eval_expr(ach.comparators[0], {}, _atom_hook_factory())
                if isinstance(ach.ops[0], (ast.Lt, ast.LtE)):
                    l_, r_ = r_, l_
                if isinstance(ach.ops[0], (ast.Gt, ast.GtE, ast.Lt, ast.LtE)):
                    cond_ok = l_.eq(S(tname) + S(hname)) and r_.eq(S(t1name))
            land_ok = cond_ok and b.eq(S(t1name) - S(tname)) and o.eq(S(hname))
        except Uninterpretable:
            land_ok = False
    if land_ok:
        X.ok(ss.fq, "a trial step that would pass the requested time is shortened to land exactly on it: t0 + (t1 - t0)")
    else:
        X.bad(ss, enclosing_stmt(sd) if sd is not None else w, "a step that would overshoot the requested time must be cut to t1 - t0 (and flagged as achieving t1)")
    # the returned state: (fnew, tnew, ynew, h) in the layout that is unpacked
    rets = [r for r in own_nodes(ss.node) if isinstance(r, ast.Return)]
    rv = rets[-1].value if rets else None
    okret = False
    if isinstance(rv, ast.Tuple) and len(rv.elts) == 2:
        st = rv.elts[0]
        sdefs = function_defs(ss.node)
        if isinstance(st, ast.Name):
            cands = [d for d in sdefs.get(st.id, []) if isinstance(d, ast.Tuple)]
            st = cands[-1] if cands else st
        if isinstance(st, ast.Tuple) and len(st.elts) == 4:
            items = [ast.unparse(e) for e in st.elts]
            tn = st.elts[pos["t"]]
            tv = body_defs.get(tn.id) if isinstance(tn, ast.Name) else tn
            try:
                tnf = eval_expr(tv, {}, _atom_hook_factory()) if tv is not None and not isinstance(tv, tuple) else None
            except Uninterpretable:
                tnf = None
            okret = (items[pos["y"]] == ynew_name and items[pos["f"]] == fnew_name and items[pos["h"]] == hname and
                     tnf is not None and tnf.eq(S(tname) + S(step_txt)) and isinstance(rv.elts[1], ast.Name) and
                     isinstance(sd, ast.IfExp) and rv.elts[1].id == sd.test.id)
    if okret:
        L.ok(ss.fq, "the new state is (fnew, t0 + h_taken, ynew, h) in the layout `%s` that is unpacked, plus the achieved flag" % ", ".join(names))
    else:
        L.bad(ss, rets[-1] if rets else ss.node, "the state returned after an accepted step must be (fnew, t0 + h_taken, ynew, h) in the unpacked layout %s" % names)
    # step-size update: grow clipped by max_factor, shrink by min_factor, both from errnorm ** error_exponent
    src_w = [n for n in ast.walk(w) if isinstance(n, ast.Call) and isinstance(n.func, ast.Name) and n.func.id in ("min", "max")]
    grow = [c for c in src_w if c.func.id == "min" and any(_self_attr(a) == "max_factor" for a in c.args)]
    shrink = [c for c in src_w if c.func.id == "max" and any(_self_attr(a) == "min_factor" for a in c.args)]

    def uses_exp(c):
        return any(isinstance(n, ast.BinOp) and isinstance(n.op, ast.Pow) and isinstance(n.left, ast.Name) and n.left.id == errname
                   and _self_attr(n.right) == "error_exponent" for n in ast.walk(c))
    if grow and shrink and all(uses_exp(c) for c in grow + shrink):
        # the shrink is in the rejected branch and multiplies the step taken
        rej_ok = False
        for s in ast.walk(w):
            if isinstance(s, ast.If):
                chain = [s]
                while len(chain[-1].orelse) == 1 and isinstance(chain[-1].orelse[0], ast.If):
                    chain.append(chain[-1].orelse[0])
                for br in chain:
                    tt = br.test
                    if isinstance(tt, ast.UnaryOp) and isinstance(tt.op, ast.Not) and isinstance(tt.operand, ast.Name) and tt.operand.id == flag:
                        asg_h = [a for a in br.body if isinstance(a, ast.Assign) and isinstance(a.targets[0], ast.Name) and a.targets[0].id == hname]
                        if asg_h and any(c in list(ast.walk(b_)) for b_ in br.body for c in shrink):
                            nm = names_loaded(asg_h[-1].value)
                            rej_ok = step_txt in nm or hname in nm
        if rej_ok:
            X.ok(ss.fq, "step-size update: growth min(max_factor, c*err^e), rejection h <- h_taken * max(min_factor, c*err^e)")
        else:
            X.bad(ss, w, "after a rejected trial the step must become h_taken * max(min_factor, step_mult * err ** error_exponent)")
    else:
        X.bad(ss, w, "growth and shrink factors must be err ** error_exponent clipped by max_factor (min) and min_factor (max)")
    return pos, names


def _layout(ss: FuncInfo, rm: "_RkStepModel"):
    """layout of the solver state tuple, from the unpack statement and the roles in which rk_step receives the pieces"""
    unp = [s for s in ss.node.body if isinstance(s, ast.Assign) and isinstance(s.targets[0], ast.Tuple) and isinstance(s.value, ast.Name)
           and s.value.id == ss.params()[1]]
    calls = [c for c in ast.walk(ss.node) if isinstance(c, ast.Call) and ast.unparse(c.func) == "rk_step"]
    if len(unp) != 1 or len(calls) != 1:
        raise AnalysisError("C07-L: `f0, t0, y0, h = rk_state` / the rk_step call not found in _single_step")
    rkb = _bind_call(rm.fi, calls[0])
    names = [e.id if isinstance(e, ast.Name) else None for e in unp[0].targets[0].elts]
    pos = {}
    for role, p in (("f", rm.p_f), ("t", rm.p_t), ("y", rm.p_y)):
        a = rkb.get(p)
        if isinstance(a, ast.Name) and a.id in names:
            pos[role] = names.index(a.id)
    if len(pos) != 3 or len(names) != 4:
        raise AnalysisError("C07-L: cannot determine the layout of the solver state tuple")
    pos["h"] = [i for i in range(4) if i not in pos.values()][0]
    return pos, names


class _ErrNorm:
    def __init__(self, fi: FuncInfo):
        P = fi.params()
        self.ok = False
        self.why = ""
        kname, hname = P[1], P[2]
        rm = object.__new__(_RkStepModel)
        rm.calls, rm.stores = [], []
        fr = Frag(fi.module.source, on_call=self._call, on_attr=self._attr, on_subscript=lambda f, e: _RkStepModel._sub(rm, f, e))
        rm.fr = fr
        # E and the stage buffer both have n_stages + 1 entries (C07-T: len(E) = n_stages + 1; C07-X: K is allocated with n_stages + 1 rows)
        rm._len = lambda arr: S("len(K)")
        self.rm = rm
        self.fr = fr
        fr.env[kname] = Arr("K")
        fr.env[hname] = S("h")
        fr.env["self"] = Opaque("self")
        r = fr.run(fi.node.body)
        val = r[1] if r else None
        mm = "$m"
        exp = fr.make_sum(mm, C(0), S("len(K)"), C(1), fr.atom("K", (S(mm),)) * fr.atom("E", (S(mm),))) * S("h")
        if isinstance(val, Rat) and len(val.symbols()) == 1 and list(val.symbols())[0].startswith("NORM(") and self.inner is not None and self.inner.eq(exp):
            self.ok = True
        else:
            self.why = "normal form %r" % (val,)

    inner = None

    def _attr(self, fr, e):
        if _self_attr(e) == "E":
            return Arr("E")
        return _RkStepModel._attr(self.rm, fr, e)

    def _call(self, fr, c):
        if isinstance(c.func, ast.Attribute) and c.func.attr == "norm" and not c.args:
            v = fr.num(fr.ev(c.func.value))
            self.inner = v
            return S("NORM(%r)" % v)
        if ast.unparse(c.func) in ("torch.norm", "torch.linalg.norm") and len(c.args) == 1:
            v = fr.num(fr.ev(c.args[0]))
            self.inner = v
            return S("NORM(%r)" % v)
        return _RkStepModel._call(self.rm, fr, c)


# ------------------------------------------------------------------------------------------ solve / _step / setup
def _adaptive_driver(model: Model, Z: RuleResult, I: RuleResult, L: RuleResult, V: RuleResult, pos, names):
    base = model.cls(ARK, "RKAdaptiveStepSolver")
    solve, step, setup = base.find_method("solve"), base.find_method("_step"), base.find_method("setup")
    if solve is None or step is None or setup is None:
        raise AnchorError("anchor function vanished: RKAdaptiveStepSolver.solve/_step/setup")
    # ---- _step: repeat single steps until the requested time is reached, threading the state
    wl = [w for w in own_nodes(step.node) if isinstance(w, ast.While)]
    okstep = False
    if len(wl) == 1 and isinstance(wl[0].test, ast.UnaryOp) and isinstance(wl[0].test.op, ast.Not) and isinstance(wl[0].test.operand, ast.Name):
        fl = wl[0].test.operand.id
        sp = step.params()
        for s in wl[0].body:
            if isinstance(s, ast.Assign) and isinstance(s.targets[0], ast.Tuple) and len(s.targets[0].elts) == 2 and isinstance(s.value, ast.Call) \
                    and _self_attr(s.value.func) == "_single_step":
                a = [ast.unparse(x) for x in s.value.args]
                tg = [ast.unparse(x) for x in s.targets[0].elts]
                okstep = (a == [sp[1], sp[2]] and tg == [sp[1], fl])
        rets = [r for r in own_nodes(step.node) if isinstance(r, ast.Return)]
        okstep = okstep and len(rets) == 1 and ast.unparse(rets[0].value) == sp[1] and not any(isinstance(n, ast.Break) for n in ast.walk(wl[0]))
    if okstep:
        I.ok(step.fq, "_step repeats _single_step on the threaded state until the requested time is reached, for that time only")
    else:
        # another arrangement of the loop: decide by comparing with the specification over terms (three trips)
        sem = _loop_semantics(step, _STEP_SPEC, I, "_step (single steps on the threaded state until the requested time is reached)")
        if sem is None:
            I.bad(step, step.node, "_step must thread the state through _single_step(rk_state, t1) until t1 is achieved and return that state")
    # ---- solve
    defs = function_defs(solve.node)
    src_attr = {}
    for k, ds in defs.items():
        if len(ds) == 1 and _self_attr(ds[0]) is not None:
            src_attr[k] = _self_attr(ds[0])

    def is_ts(e):
        return _self_attr(e) == "ts" or (isinstance(e, ast.Name) and src_attr.get(e.id) == "ts")
    floop = [f for f in own_nodes(solve.node) if isinstance(f, ast.For)]
    if len(floop) != 1:
        raise AnalysisError("C07-I: solve no longer has a single loop over the requested times")
    fl = floop[0]
    it = fl.iter
    okrange = (isinstance(it, ast.Call) and ast.unparse(it.func) == "range" and len(it.args) == 2 and isinstance(it.args[0], ast.Constant)
               and it.args[0].value == 1 and isinstance(it.args[1], ast.Call) and ast.unparse(it.args[1].func) == "len" and is_ts(it.args[1].args[0]))
    if not okrange and isinstance(it, ast.Call) and len(it.args) == 2 and isinstance(it.args[1], ast.Name):
        d = defs.get(it.args[1].id, [])
        okrange = (isinstance(it.args[0], ast.Constant) and it.args[0].value == 1 and len(d) == 1 and isinstance(d[0], ast.Call)
                   and ast.unparse(d[0].func) == "len" and is_ts(d[0].args[0]))
    ivar = fl.target.id if isinstance(fl.target, ast.Name) else None
    if okrange:
        I.ok(solve.fq, "solve visits every requested time after the first exactly once, in order: `%s`" % norm_stmt(fl))
    else:
        I.bad(solve, fl, "the loop over requested times must be range(1, len(ts))")
    # subscripts of the grid
    bad_sub = []
    nsub = 0
    for n in own_nodes(solve.node):
        if isinstance(n, ast.Subscript) and is_ts(n.value):
            nsub += 1
            sl = n.slice
            inloop = any(a is fl for a in ancestors(n))
            if isinstance(sl, ast.Constant) and sl.value in (0, 1) and not inloop:
                continue
            if isinstance(sl, ast.Name) and sl.id == ivar and inloop:
                continue
            bad_sub.append(n)
    others = []
    for m_ in base.methods.values():
        if m_.name in ("solve", "setup", "__init__"):
            continue
        for n in ast.walk(m_.node):
            if _self_attr(n) == "ts":
                others.append((m_, n))
    if bad_sub or others:
        fi_, n_ = (solve, enclosing_stmt(bad_sub[0])) if bad_sub else (others[0][0], enclosing_stmt(others[0][1]))
        I.bad(fi_, n_, "the time grid is read at an index other than the current target (values at a time point would depend on later points)")
    else:
        I.ok(solve.fq, "the time grid is read only as ts[0], ts[1] (initial step) and ts[i] inside the loop; no other method reads it (%d reads)" % nsub)
    # loop body: state threaded, yt[i] = state[pos y]
    st_name = None
    okbody = False
    stores = []
    for s in fl.body:
        if isinstance(s, ast.Assign) and isinstance(s.value, ast.Call) and _self_attr(s.value.func) == "_step" and isinstance(s.targets[0], ast.Name):
            a = s.value.args
            if len(a) == 2 and isinstance(a[0], ast.Name) and a[0].id == s.targets[0].id and isinstance(a[1], ast.Subscript) and is_ts(a[1].value) \
                    and isinstance(a[1].slice, ast.Name) and a[1].slice.id == ivar:
                st_name = s.targets[0].id
        if isinstance(s, ast.Assign) and isinstance(s.targets[0], ast.Subscript):
            stores.append(s)
    if st_name and len(stores) == 1:
        s = stores[0]
        tgt, val = s.targets[0], s.value
        okbody = (isinstance(tgt.slice, ast.Name) and tgt.slice.id == ivar and isinstance(val, ast.Subscript) and isinstance(val.value, ast.Name)
                  and val.value.id == st_name and isinstance(val.slice, ast.Constant) and val.slice.value == pos["y"]
                  and fl.body.index(s) > [i for i, x in enumerate(fl.body) if isinstance(x, ast.Assign) and isinstance(x.value, ast.Call) and _self_attr(x.value.func) == "_step"][0])
        yt_name = tgt.value.id if isinstance(tgt.value, ast.Name) else None
    if okbody:
        L.ok(solve.fq, "row i of the result is component %d (the solution, per the layout `%s`) of the state reached at ts[i]" % (pos["y"], ", ".join(names)))
    else:
        L.bad(solve, stores[0] if stores else fl, "row i of the result must be the solution component (index %d of the state tuple) after stepping to ts[i]" % pos["y"])
        yt_name = None
    # initial state tuple
    init = [d for d in defs.get(st_name or "", []) if isinstance(d, ast.Tuple)]
    okinit = False
    if init and len(init[0].elts) == 4:
        el = init[0].elts

        def res(e):
            if isinstance(e, ast.Name) and len(defs.get(e.id, [])) == 1:
                return defs[e.id][0]
            return e
        y_e, t_e, f_e, h_e = res(el[pos["y"]]), res(el[pos["t"]]), res(el[pos["f"]]), res(el[pos["h"]])
        t_ok = isinstance(t_e, ast.Subscript) and is_ts(t_e.value) and isinstance(t_e.slice, ast.Constant) and t_e.slice.value == 0
        y_ok = _self_attr(y_e) == "y0"
        f_ok = (isinstance(f_e, ast.Call) and _self_attr(f_e.func) == "func" and len(f_e.args) == 2 and
                ast.unparse(res(f_e.args[0])) == ast.unparse(t_e) and _self_attr(res(f_e.args[1])) == "y0")
        okinit = t_ok and y_ok and f_ok
    if okinit:
        L.ok(solve.fq, "the initial state is (func(ts[0], y0), ts[0], y0, h0) in the same layout")
    else:
        L.bad(solve, enclosing_stmt(init[0]) if init else solve.node, "the initial solver state must be (func(ts[0], y0), ts[0], y0, h0) in the layout %s" % names)
    # first row and shape
    z_ok = False
    if yt_name:
        st0 = [s for s in solve.node.body if isinstance(s, ast.Assign) and isinstance(s.targets[0], ast.Subscript) and isinstance(s.targets[0].value, ast.Name)
               and s.targets[0].value.id == yt_name and isinstance(s.targets[0].slice, ast.Constant) and s.targets[0].slice.value == 0]
        rets = [r for r in own_nodes(solve.node) if isinstance(r, ast.Return)]
        ret_ok = (len(rets) == 1 and isinstance(rets[0].value, ast.Call) and isinstance(rets[0].value.func, ast.Attribute) and rets[0].value.func.attr == "reshape"
                  and isinstance(rets[0].value.func.value, ast.Name) and rets[0].value.func.value.id == yt_name)
        z_ok = len(st0) == 1 and _self_attr(st0[0].value) == "y0" and ret_ok
    sdefs = [s for s in own_nodes(setup.node) if isinstance(s, ast.Assign) and any(_self_attr(t) == "y0" for t in s.targets)]
    yparam = setup.params()[3]
    s_ok = (len(sdefs) == 1 and isinstance(sdefs[0].value, ast.Call) and isinstance(sdefs[0].value.func, ast.Attribute) and sdefs[0].value.func.attr in ("reshape", "view", "flatten")
            and isinstance(sdefs[0].value.func.value, ast.Name) and sdefs[0].value.func.value.id == yparam)
    if z_ok and s_ok:
        Z.ok(solve.fq, "row 0 of the adaptive result is the (flattened) y0 argument, and the buffer is only reshaped on return")
    else:
        Z.bad(solve, solve.node, "row 0 of the adaptive solvers' result must be the initial value itself (yt[0] = self.y0 = y0.reshape(-1))")
    # ---- setup: time reversal (decided for both directions by a case split on the sign of ts[1] - ts[0])
    tsp, fcnp, pp = setup.params()[2], setup.params()[1], setup.params()[4]

    def direction_test(t, decreasing):
        """value of a test that compares ts[1] with ts[0] (or their difference with 0) in the given case; None if it is another test"""
        if not (isinstance(t, ast.Compare) and len(t.ops) == 1):
            return None

        def hk(e):
            if isinstance(e, ast.Subscript) and isinstance(e.value, ast.Name) and e.value.id == tsp and isinstance(e.slice, ast.Constant):
                return S("ts%d" % e.slice.value)
            if isinstance(e, ast.Name):
                return envd.get(e.id)
            return None
        try:
            d = eval_expr(t.left, {}, hk) - eval_expr(t.comparators[0], {}, hk)
        except Uninterpretable:
            return None
        op = t.ops[0]
        if d.eq(S("ts1") - S("ts0")):
            neg = True       # d < 0 <=> decreasing
        elif d.eq(S("ts0") - S("ts1")):
            neg = False
        else:
            return None
        if isinstance(op, (ast.Lt, ast.LtE)):
            return decreasing if neg else not decreasing
        if isinstance(op, (ast.Gt, ast.GtE)):
            return (not decreasing) if neg else decreasing
        return None

    results = {}
    for decreasing in (True, False):
        envd: Dict[str, Rat] = {}
        out = {}

        def hook(e):
            if isinstance(e, ast.IfExp):
                v = direction_test(e.test, decreasing)
                if v is None:
                    raise Uninterpretable("conditional on something other than the direction: %s" % ast.unparse(e.test))
                return eval_expr(e.body if v else e.orelse, envd, hook)
            if isinstance(e, ast.Subscript) and isinstance(e.value, ast.Name) and e.value.id == tsp and isinstance(e.slice, ast.Constant):
                return S("ts%d" % e.slice.value)
            if isinstance(e, ast.Name):
                return envd.get(e.id, S(e.id))
            return None

        def run(stmts):
            for st in stmts:
                if isinstance(st, ast.If):
                    v = direction_test(st.test, decreasing)
                    if v is None:
                        continue
                    run(st.body if v else st.orelse)
                elif isinstance(st, ast.Assign) and len(st.targets) == 1:
                    tg = st.targets[0]
                    a = _self_attr(tg)
                    if isinstance(st.value, ast.Lambda):
                        if a is not None:
                            out[a] = (st.value, dict(envd))
                        continue
                    try:
                        v = eval_expr(st.value, envd, hook)
                    except Uninterpretable:
                        continue
                    if isinstance(tg, ast.Name):
                        envd[tg.id] = v
                    elif a is not None:
                        out[a] = v
        run(setup.node.body)
        if "ts" not in out or "func" not in out or not isinstance(out["func"], tuple):
            raise AnalysisError("C07-V: setup no longer assigns self.ts and self.func = lambda t, y: ... in the %s case" % ("decreasing" if decreasing else "increasing"))
        lam, lenv = out["func"]
        if len(lam.args.args) != 2:
            raise AnalysisError("C07-V: self.func is not a two-argument lambda")
        ta, ya = lam.args.args[0].arg, lam.args.args[1].arg
        rec = []

        def lhook(e):
            if isinstance(e, ast.Call):
                if isinstance(e.func, ast.Attribute) and e.func.attr in ("reshape", "view", "contiguous"):
                    return eval_expr(e.func.value, lenv, lhook)
                if isinstance(e.func, ast.Name) and e.func.id == fcnp and len(e.args) >= 2:
                    rec.append((eval_expr(e.args[0], lenv, lhook), eval_expr(e.args[1], lenv, lhook), [ast.unparse(a) for a in e.args[2:]]))
                    return S("FCN")
            if isinstance(e, ast.IfExp):
                v = direction_test(e.test, decreasing)
                if v is not None:
                    return eval_expr(e.body if v else e.orelse, lenv, lhook)
            if isinstance(e, ast.Name):
                return lenv.get(e.id, S(e.id))
            return None
        try:
            body = eval_expr(lam.body, lenv, lhook)
        except Uninterpretable as e:
            raise AnalysisError("C07-V: cannot normalise the dynamics closure: %s" % e)
        if len(rec) != 1:
            raise AnalysisError("C07-V: the dynamics closure does not call the user function exactly once")
        results[decreasing] = (out["ts"], body, rec[0][0], rec[0][1], rec[0][2], ta, ya, lam)
    tsv, body, tm, stt, rest, ta, ya, lam = results[True]
    okneg = tsv.eq(-S(tsp)) and body.eq(-S("FCN")) and tm.eq(-S(ta)) and stt.eq(S(ya))
    if okneg:
        V.ok(setup.fq, "decreasing grid: integrate s = -t with dynamics -f(-s, y): grid and dynamics are negated together")
    else:
        V.bad(setup, enclosing_stmt(lam), "for a decreasing grid the grid must be negated and the dynamics become -f(-t, y): found grid %r, dynamics %r evaluated at time %r" % (tsv, body, tm))
    tsv2, body2, tm2, stt2, rest2, ta2, ya2, lam2 = results[False]
    okpos = tsv2.eq(S(tsp)) and body2.eq(S("FCN")) and tm2.eq(S(ta2)) and stt2.eq(S(ya2))
    if okpos:
        V.ok(setup.fq, "increasing grid: grid and dynamics are used unchanged")
    else:
        V.bad(setup, enclosing_stmt(lam2), "for an increasing grid the grid and the dynamics must be used unchanged: found grid %r, dynamics %r at time %r" % (tsv2, body2, tm2))
    for name_, r_, lm_ in (("decreasing", rest, lam), ("increasing", rest2, lam2)):
        if r_ == ["*" + pp]:
            V.ok(setup.fq, "%s grid: the extra parameters are forwarded as *%s" % (name_, pp))
        else:
            V.bad(setup, enclosing_stmt(lm_), "%s grid: the dynamics are not called with the extra parameters *%s" % (name_, pp))


# ------------------------------------------------------------------------------------------ tuple states
def _tuple_states(model: Model, P: RuleResult):
    f = model.func(IVP, "solve_ivp")
    tp = model.cls(MISC, "TensorPacker")
    # the branch on list/tuple y0
    inner = [fi for fi in model.module(IVP).functions.values() if fi.parent is f]
    cand = None
    for fi in inner:
        src = ast.unparse(fi.node)
        if ".pack(" in src and ".flatten(" in src:
            cand = fi
    if cand is None:
        raise AnalysisError("C07-P: the flatten/unflatten wrapper of solve_ivp was not found")
    defs = function_defs(f.node)
    rollers = [k for k, ds in defs.items() if len(ds) == 1 and isinstance(ds[0], ast.Call) and ast.unparse(ds[0].func) == "TensorPacker"]
    if len(rollers) != 1:
        raise AnalysisError("C07-P: TensorPacker construction not found in solve_ivp")
    roller = rollers[0]
    y0p = f.params()[2]
    if ast.unparse(defs[roller][0].args[0]) == y0p:
        P.ok(f.fq, "the packer is built from the y0 tuple itself: `%s = %s`" % (roller, ast.unparse(defs[roller][0])))
    else:
        P.bad(f, enclosing_stmt(defs[roller][0]), "the packer must be built from the y0 tuple")
    # wrapper: pack the state, call pfcn with the packed state, flatten the result
    cp = cand.params()
    cdefs = function_defs(cand.node)
    rets = [r for r in own_nodes(cand.node) if isinstance(r, ast.Return)]

    def chase(e, d=0):
        while isinstance(e, ast.Name) and len(cdefs.get(e.id, [])) == 1 and d < 5:
            e = cdefs[e.id][0]
            d += 1
        return e
    okw = False
    if rets:
        rv = chase(rets[-1].value)
        if isinstance(rv, ast.Call) and ast.unparse(rv.func) == roller + ".flatten" and len(rv.args) == 1:
            inner_call = chase(rv.args[0])
            if isinstance(inner_call, ast.Call) and len(inner_call.args) >= 2:
                a0, a1 = inner_call.args[0], chase(inner_call.args[1])
                rest = [ast.unparse(x) for x in inner_call.args[2:]]
                okw = (isinstance(a0, ast.Name) and a0.id == cp[0] and isinstance(a1, ast.Call) and ast.unparse(a1.func) == roller + ".pack"
                       and ast.unparse(a1.args[0]) == cp[1] and rest == ["*" + (cand.vararg() or "")])
                callee = ast.unparse(inner_call.func)
    if okw:
        P.ok(cand.fq, "the wrapped dynamics unflatten the state with the packer, call %s(t, <tuple>, *params) and flatten its result with the same packer" % callee)
    else:
        P.bad(cand, cand.node, "the tuple-state wrapper must be flatten(pfcn(t, pack(ytensor), *params)) with one and the same packer")
    # y0 flattened before apply, result packed
    # the block that defines the wrapper: an arm of `if is_y0_list` or the function body after a guard clause
    class _Blk:
        body: list = []
    src_if = None
    for owner in ast.walk(f.node):
        for fld in ("body", "orelse"):
            blk = getattr(owner, fld, None)
            if isinstance(blk, list) and any(x is cand.node for x in blk):
                src_if = _Blk()
                src_if.body = blk
                src_if.lineno = getattr(blk[0], "lineno", 0)
    ok2 = False
    if src_if is not None:
        fl = [s for s in src_if.body if isinstance(s, ast.Assign) and isinstance(s.targets[0], ast.Name) and s.targets[0].id == y0p
              and isinstance(s.value, ast.Call) and ast.unparse(s.value.func) == roller + ".flatten" and ast.unparse(s.value.args[0]) == y0p]
        ap = [s for s in src_if.body if isinstance(s, ast.Assign) and isinstance(s.value, ast.Call) and ast.unparse(s.value.func).endswith(".apply")]
        rt = [s for s in src_if.body if isinstance(s, ast.Return)]
        if fl and rt and not ap and isinstance(rt[-1].value, ast.Call) and rt[-1].value.args and isinstance(rt[-1].value.args[0], ast.Call) \
                and ast.unparse(rt[-1].value.args[0].func).endswith(".apply"):
            # `return roller.pack(_SolveIVP.apply(...))`: the load-time normal form of `yt = apply(..); return roller.pack(yt)`
            tmp = ast.Assign(targets=[ast.Name(id="@applied", ctx=ast.Store())], value=rt[-1].value.args[0])
            ast.copy_location(tmp, rt[-1])
            ap = [tmp]
            packed = ast.Return(value=ast.Call(func=rt[-1].value.func, args=[ast.Name(id="@applied", ctx=ast.Load())], keywords=[]))
            ast.copy_location(packed, rt[-1])
            rt = [packed]
            src_if.body = list(src_if.body[:-1]) + [tmp, packed]
        if fl and ap and rt:
            apc = ap[0].value
            uses_wrapper = isinstance(apc.args[0], ast.Name) and apc.args[0].id == cand.name
            uses_flat = any(isinstance(a, ast.Name) and a.id == y0p for a in apc.args) and src_if.body.index(fl[0]) < src_if.body.index(ap[0])
            rv = rt[-1].value
            packs = isinstance(rv, ast.Call) and ast.unparse(rv.func) == roller + ".pack" and isinstance(rv.args[0], ast.Name) and rv.args[0].id == ap[0].targets[0].id
            ok2 = uses_wrapper and uses_flat and packs
    if ok2:
        P.ok(f.fq, "the tuple y0 is flattened before integration, the wrapped dynamics are integrated and the trajectory is unflattened with the same packer")
    else:
        P.bad(f, f.node, "tuple states: y0 must be flattened, integrated through the wrapper and the result packed back, all with one packer")
    _tensor_packer(model, P)


def _packer_semantic(model: Model, tp):
    """abstract run (domains/kinds.py) of TensorPacker over five tensors of shapes (2, 3), (), (4,), (1, 2), (3,): __init__ must record
    segments that tile [0, 16) in list order, flatten must be the concatenation of the flattened tensors in list order, and pack - applied to a
    flat vector with or without batch axes - must cut exactly those segments and give each its own shape back.  True / a message /
    None when a body is outside the interpreter's vocabulary (the structural comparison decides then)."""
    import itertools
    from ..domains.kinds import AObj, KindInterp, module_records
    from ..domains.dictsem import Unsupported, Raised, _Return

    class Size(tuple):
        """torch.Size: a tuple with numel()"""
        _xv_methods = ("numel",)

        def numel(self):
            n = 1
            for d in self:
                n *= d
            return n

    class Leaf(AObj):
        def __init__(self, name, shape):
            super().__init__(name, ("torch.Tensor",))
            self.shape_, self.n_ = Size(shape), 1
            for d in shape:
                self.n_ *= d
            self.attrs.update(shape=self.shape_, ndim=len(shape))
            self.methods.update(reshape=self.reshape, numel=lambda: self.n_, view=self.view, contiguous=lambda: self, flatten=lambda: Flat([(self, self.n_)], ()))

        def reshape(self, *shape):
            shape = tuple(shape[0]) if len(shape) == 1 and isinstance(shape[0], (tuple, list)) else tuple(shape)
            if shape == (-1,):
                return Flat([(self, self.n_)], ())
            raise Unsupported("reshape%r of a component" % (shape,))

        def view(self, *shape):
            raise Raised("view(..) of a component that need not be contiguous (RuntimeError for a transposed / expanded tensor)")

    class Flat(AObj):
        """(*batch, N): the concatenation of flattened leaves"""
        def __init__(self, segs, batch):
            super().__init__("flat", ("torch.Tensor",))
            self.segs, self.batch = list(segs), tuple(batch)
            self.attrs.update(shape=self.batch + (sum(n for _l, n in self.segs),), ndim=len(self.batch) + 1)
            self.methods.update(__getitem__=self.getitem, reshape=self.reshape, numel=lambda: sum(n for _l, n in self.segs), narrow=self.narrow)

        def reshape(self, *shape):
            shape = tuple(shape[0]) if len(shape) == 1 and isinstance(shape[0], (tuple, list)) else tuple(shape)
            if shape == (-1,) and not self.batch:
                return self
            if len(self.segs) == 1 and shape[:len(self.batch)] == self.batch:
                return Piece(self.segs[0][0], shape)
            raise Unsupported("reshape%r of a flat vector with %d segments" % (shape, len(self.segs)))

        def narrow(self, dim, start, length):
            return self.getitem((Ellipsis, slice(start, start + length))) if dim == -1 else (_ for _ in ()).throw(Unsupported("narrow along a batch axis"))

        def getitem(self, idx):
            parts = idx if isinstance(idx, tuple) else (idx,)
            if not (parts and isinstance(parts[-1], slice) and all(p is Ellipsis for p in parts[:-1]) and (len(parts) > 1 or not self.batch)):
                raise Unsupported("index %r of the flat vector" % (idx,))
            sl = parts[-1]
            if sl.step not in (None, 1):
                raise Unsupported("strided slice of the flat vector")
            lo, hi = sl.start or 0, sl.stop
            pos, out = 0, []
            for leaf, n in self.segs:
                a, b = pos, pos + n
                pos = b
                if hi is not None and b <= lo or (hi is not None and a >= hi) or b <= lo:
                    continue
                if a < lo or (hi is not None and b > hi):
                    raise Raised("the slice [%s:%s] cuts through the segment of `%s` ([%d:%d])" % (lo, hi, leaf.name, a, b))
                out.append((leaf, n))
            return Flat(out, self.batch)

    class Piece(AObj):
        def __init__(self, leaf, shape):
            super().__init__("piece of %s" % leaf.name, ("torch.Tensor",))
            self.leaf, self.shape_ = leaf, tuple(shape)
            self.attrs.update(shape=self.shape_)

    def cat(seq, dim=0):
        seq = list(seq)
        if dim not in (0, -1) or not all(isinstance(x, Flat) and not x.batch for x in seq):
            raise Unsupported("torch.cat of something other than flattened components along their only axis")
        return Flat([sg for x in seq for sg in x.segs], ())
    host = {"torch.numel": lambda t: t.numel() if isinstance(t, Size) else t.methods["numel"](), "torch.cat": cat, "sum": lambda xs, start=0: sum(xs, start),
            "itertools.accumulate": lambda xs, *a, **k: list(itertools.accumulate(xs, *a, **k)), "accumulate": lambda xs, *a, **k: list(itertools.accumulate(xs, *a, **k)),
            "int": int, "len": len, "torch.Size": lambda x: tuple(x)}
    leaves = [Leaf("a", (2, 3)), Leaf("b", ()), Leaf("c", (4,)), Leaf("d", (1, 2)), Leaf("e", (3,))]
    init, flat, pack = tp.find_method("__init__"), tp.find_method("flatten"), tp.find_method("pack")
    records = module_records(tp.module.tree)

    def run(fi, env):
        it = KindInterp(env)
        it.host, it.records = host, records
        try:
            it.run(fi.node.body)
        except _Return as r:
            return it, r.v
        return it, None
    try:
        me = init.params()[0]
        it0, _ = run(init, {init.params()[1]: list(leaves)})
        state = {k: v for k, v in it0.env.items() if k.startswith(me + ".")}
        _it, fl = run(flat, dict({k.replace(me + ".", flat.params()[0] + ".", 1): v for k, v in state.items()}, **{flat.params()[1]: list(leaves)}))
        if not (isinstance(fl, Flat) and not fl.batch and len(fl.segs) == len(leaves) and all(sg[0] is lf for sg, lf in zip(fl.segs, leaves))):
            return "flatten([a(2,3), b(), c(4), d(1,2), e(3)]) is %r, not the concatenation of the flattened tensors in list order" % ([s_[0].name for s_ in fl.segs] if isinstance(fl, Flat) else fl,)
        for batch in ((), (7,)):
            y = Flat([(lf, lf.n_) for lf in leaves], batch)
            _it, out = run(pack, dict({k.replace(me + ".", pack.params()[0] + ".", 1): v for k, v in state.items()}, **{pack.params()[1]: y}))
            out = list(out) if isinstance(out, (tuple, list)) else None
            if out is None or len(out) != len(leaves) or not all(isinstance(o, Piece) and o.leaf is lf and o.shape_ == batch + lf.shape_ for o, lf in zip(out, leaves)):
                return "pack of the flat vector (batch shape %r) gives %r instead of the five tensors with their own shapes %r" % (
                    batch, [(o.leaf.name, o.shape_) if isinstance(o, Piece) else o for o in (out or [])], [batch + lf.shape_ for lf in leaves])
    except Unsupported:
        return None
    except Raised as e:
        return "the packer raises on tensors of shapes (2, 3), (), (4,), (1, 2), (3,): %s" % e
    except (TypeError, AttributeError, KeyError, IndexError, ValueError):
        return None
    return True


def _tensor_packer(model: Model, P: RuleResult):
    tp = model.cls(MISC, "TensorPacker")
    sem = _packer_semantic(model, tp)
    if sem is True:
        P.ok(tp.fq, "abstract round trip over tensors of shapes (2, 3), (), (4,), (1, 2), (3,): the segments tile the flat vector contiguously in list order, flatten concatenates "
             "the flattened tensors in that order, pack cuts the same segments and restores each shape (with and without batch axes)")
        P.ok(tp.fq, "flatten and pack are inverse of each other on every path of the abstract run")
        return
    if isinstance(sem, str):
        P.bad(tp.find_method("pack") or tp.fq, (tp.find_method("pack") or tp).node, "flatten and pack must be inverse on EVERY path: %s" % sem)
        return
    # TensorPacker: offsets are contiguous, flatten and pack use list order
    init, flat, pack = tp.find_method("__init__"), tp.find_method("flatten"), tp.find_method("pack")
    isrc = ast.unparse(init.node)
    loop = [l for l in own_nodes(init.node) if isinstance(l, ast.For)]
    okp = False
    if len(loop) == 1:
        fr = Frag(init.module.source, on_call=lambda fr, c: S("numel(%s)" % ast.unparse(c.args[0])) if ast.unparse(c.func) in ("torch.numel",) else None)
        pre = {}
        for s in init.node.body:
            if isinstance(s, ast.Assign) and isinstance(s.targets[0], ast.Name) and isinstance(s.value, ast.Constant):
                pre[s.targets[0].id] = s.value.value
        body = loop[0].body
        # istart carried; ifinish = istart + numel(p); append((istart, ifinish, p.shape)); istart = ifinish
        tg = loop[0].target
        pn = tg.elts[1].id if isinstance(tg, ast.Tuple) and len(tg.elts) == 2 and isinstance(tg.elts[1], ast.Name) else (tg.id if isinstance(tg, ast.Name) else None)
        try:
            env = {k: S("@" + k) for k in pre}
            app = None
            for s in body:
                if isinstance(s, ast.Assign) and isinstance(s.targets[0], ast.Name):
                    env[s.targets[0].id] = eval_expr(s.value, env, lambda e: S("numel") if isinstance(e, ast.Call) and ast.unparse(e.func) == "torch.numel" and ast.unparse(e.args[0]) == pn else None)
                elif isinstance(s, ast.Expr) and isinstance(s.value, ast.Call) and isinstance(s.value.func, ast.Attribute) and s.value.func.attr == "append":
                    t = s.value.args[0]
                    if isinstance(t, ast.Tuple) and len(t.elts) == 3:
                        app = (eval_expr(t.elts[0], env), eval_expr(t.elts[1], env), ast.unparse(t.elts[2]))
            starts = [k for k in pre if pre[k] == 0]
            if app and starts:
                st = starts[0]
                okp = (app[0].eq(S("@" + st)) and app[1].eq(S("@" + st) + S("numel")) and app[2] == pn + ".shape" and env[st].eq(S("@" + st) + S("numel")))
        except Uninterpretable:
            okp = False
    if okp:
        P.ok(init.fq, "segment k of the flat state is [offset_k, offset_k + numel(p_k)) with offset_{k+1} = offset_k + numel(p_k), offset_0 = 0, shape p_k.shape")
    else:
        P.bad(init, init.node, "the packer's segments must tile the flat state contiguously in list order with each tensor's own shape")
    fsrc = ast.unparse(flat.node)
    ok_f = False
    for r in own_nodes(flat.node):
        if isinstance(r, ast.Return) and isinstance(r.value, ast.Call) and ast.unparse(r.value.func) == "torch.cat" and r.value.args:
            lc = r.value.args[0]
            dim = [k.value for k in r.value.keywords if k.arg == "dim"]
            if isinstance(lc, ast.ListComp) and len(lc.generators) == 1 and ast.unparse(lc.generators[0].iter) == flat.params()[1] and not lc.generators[0].ifs:
                el = lc.elt
                v = lc.generators[0].target
                ok_f = (isinstance(el, ast.Call) and isinstance(el.func, ast.Attribute) and el.func.attr == "reshape" and ast.unparse(el.func.value) == ast.unparse(v)
                        and [ast.unparse(a) for a in el.args] == ["-1"] and (not dim or ast.unparse(dim[0]) in ("-1", "0")))
    ok_pk = False
    n_ret_pack = sum(1 for r in own_nodes(pack.node) if isinstance(r, ast.Return))
    n_ret_flat = sum(1 for r in own_nodes(flat.node) if isinstance(r, ast.Return))
    for r in own_nodes(pack.node):
        if isinstance(r, ast.Return) and isinstance(r.value, ast.Call) and ast.unparse(r.value.func) in ("tuple", "list") and r.value.args:
            ge = r.value.args[0]
            if isinstance(ge, (ast.GeneratorExp, ast.ListComp)) and len(ge.generators) == 1 and _self_attr(ge.generators[0].iter) == "idx_shapes" and not ge.generators[0].ifs:
                tg = ge.generators[0].target
                if isinstance(tg, ast.Tuple) and len(tg.elts) == 3:
                    a, b, c = (x.id for x in tg.elts)
                    el = ge.elt
                    yp = pack.params()[1]
                    if isinstance(el, ast.Call) and isinstance(el.func, ast.Attribute) and el.func.attr == "reshape" and isinstance(el.func.value, ast.Subscript):
                        sub = el.func.value
                        sl = sub.slice.elts[-1] if isinstance(sub.slice, ast.Tuple) else sub.slice
                        ok_pk = (ast.unparse(sub.value) == yp and isinstance(sl, ast.Slice) and ast.unparse(sl.lower) == a and ast.unparse(sl.upper) == b
                                 and sl.step is None and c in names_loaded(el.args[0]))
    if n_ret_pack != 1 or n_ret_flat != 1:
        # every exit must be the per-segment form: a second return (a "fast path") is a second implementation of the inverse
        ok_pk = ok_pk and n_ret_pack == 1
        ok_f = ok_f and n_ret_flat == 1
    if ok_f and ok_pk:
        P.ok(tp.fq, "flatten concatenates reshape(-1) of the tensors in list order; pack slices [start:finish] of the last axis in the same order and restores each shape")
    else:
        P.bad(flat if not ok_f else pack, (flat if not ok_f else pack).node, "flatten and pack must be inverse on EVERY path: concatenate flattened tensors in list order / slice the same segments in the same order, "
              "each restored to its own shape (found %d return(s) in pack, %d in flatten)" % (n_ret_pack, n_ret_flat))


# ------------------------------------------------------------------------------------------ driver
def direction_rule(model: Model, V: RuleResult):
    """the time-reversal rule alone (used by C08: the adjoint system is integrated on decreasing two-point grids)"""
    scratch = lambda: RuleResult(PROP, "scratch", "not reported", min_instances=0)
    rm = _rkstep_roles(model, scratch())
    pos, names = _controller(model, scratch(), scratch(), rm)
    _adaptive_driver(model, scratch(), scratch(), scratch(), V, pos, names)


def rules(model: Model, tier: str) -> List[RuleResult]:
    T = RuleResult(PROP, "C07-T", "tableau algebra: explicitness, row sums, every Butcher order condition up to the declared order (exact rationals)", min_instances=20)
    N = RuleResult(PROP, "C07-N", "coefficients equal the named scheme (classic RK4, 3/8 rule, Euler, Bogacki-Shampine, Dormand-Prince)", min_instances=5)
    D = RuleResult(PROP, "C07-D", "each method name dispatches to the stepper with its own tableau and passes its arguments through", min_instances=5)
    R = RuleResult(PROP, "C07-R", "steppers compute k_j = f(t + c_j h, y + h sum a_jm k_m), y' = y + h sum b_j k_j (normal-form interpretation)", min_instances=9)
    X = RuleResult(PROP, "C07-X", "controller: exponent -1/(q+1), accept iff scaled error < 1, clipped factors, exact landing", min_instances=7)
    L = RuleResult(PROP, "C07-L", "state-tuple / coefficient-tuple layouts agree between writers and readers", min_instances=4)
    Z = RuleResult(PROP, "C07-0", "row 0 of the result is the initial value unchanged", min_instances=2)
    I = RuleResult(PROP, "C07-I", "one step per interval; the grid is read only at the current interval (no dependence on later points)", min_instances=6)
    V = RuleResult(PROP, "C07-V", "time reversal: a decreasing grid negates grid and dynamics together", min_instances=4)
    P = RuleResult(PROP, "C07-P", "tuple states: flatten/unflatten with one packer in one order; packer segments tile the flat state", min_instances=5)
    disp = _dispatch(model)
    missing = [k for k in list(NAMED_FIXED) + list(NAMED_PAIRS) if k not in disp]
    if missing:
        raise AnalysisError("C07-D: methods %s vanished from solve_ivp's dispatch table" % missing)
    n_cond = 0
    _fixed_tabs = []
    for name in NAMED_FIXED:
        impl = disp[name]
        tab, node, err = _fixed_tableau_of(model, impl)
        if tab is None:
            raise AnalysisError("C07-D: %s -> %s: %s" % (name, impl.fq, err))
        mod, expr, tabname = tab
        if err:
            D.bad(impl, node, "%s: %s" % (name, err))
        else:
            D.ok(impl.fq, "%s -> %s -> explicit_rk(%s, fcn, t, y0, params)" % (name, impl.name, tabname))
        try:
            vals = _extract_fixed(mod, expr)
        except Uninterpretable as e:
            raise AnalysisError("C07-T: cannot fold tableau %s: %s" % (tabname, e))
        n_cond += _check_fixed(T, N, name, impl, impl, tabname, vals, node, tier)
        _fixed_tabs.append((tabname, vals))
    for name in NAMED_PAIRS:
        impl = disp[name]
        cls, node, err = _pair_class_of(model, impl)
        if cls is None:
            raise AnalysisError("C07-D: %s -> %s: %s" % (name, impl.fq, err))
        if err:
            D.bad(impl, node, "%s: %s" % (name, err))
        else:
            D.ok(impl.fq, "%s -> %s -> _rk_adaptive(fcn, ts, y0, params, %s, **kwargs)" % (name, impl.name, cls.name))
        try:
            pair = _extract_pair(cls)
        except Uninterpretable as e:
            raise AnalysisError("C07-T: cannot fold the coefficients of %s: %s" % (cls.name, e))
        n_cond += _check_pair(T, N, name, cls, pair, tier)
    # _rk_adaptive constructs the class with the tolerances and runs setup/solve on the caller's arguments
    ra = model.func(ARK, "_rk_adaptive")
    src = ast.unparse(ra.node)
    calls = [c for c in own_nodes(ra.node) if isinstance(c, ast.Call)]
    ctor = [c for c in calls if isinstance(c.func, ast.Name) and c.func.id == "cls"]
    kw = {k.arg: ast.unparse(k.value) for c in ctor for k in c.keywords}
    setup_c = [c for c in calls if isinstance(c.func, ast.Attribute) and c.func.attr == "setup"]
    ok_ra = (kw.get("atol") == "atol" and kw.get("rtol") == "rtol" and setup_c and [ast.unparse(a) for a in setup_c[0].args] == ra.params()[:4]
             and any(isinstance(r, ast.Return) and isinstance(r.value, ast.Call) and isinstance(r.value.func, ast.Attribute) and r.value.func.attr == "solve"
                     for r in own_nodes(ra.node)))
    if ok_ra:
        D.ok(ra.fq, "_rk_adaptive builds cls(atol=atol, rtol=rtol), sets it up with (fcn, ts, y0, params) and returns solve()")
    else:
        D.bad(ra, ra.node, "_rk_adaptive must hand the requested atol/rtol to the solver and run setup(fcn, ts, y0, params); solve()")
    # the tolerances the controller reads are the caller's, unmodified
    cls0 = model.cls(ARK, "RKAdaptiveStepSolver")
    n_tol = 0
    for mth in cls0.methods.values():
        for st_ in own_nodes(mth.node):
            if isinstance(st_, ast.Assign):
                for tg_ in st_.targets:
                    if isinstance(tg_, ast.Attribute) and isinstance(tg_.value, ast.Name) and tg_.value.id == "self" and tg_.attr in ("atol", "rtol"):
                        n_tol += 1
                        v_ = st_.value
                        while isinstance(v_, ast.Call) and ast.unparse(v_.func) in ("float", "torch.as_tensor", "torch.tensor") and len(v_.args) == 1:
                            v_ = v_.args[0]
                        if mth.name == "__init__" and isinstance(v_, ast.Name) and v_.id == tg_.attr and v_.id in mth.params():
                            X.ok(mth.fq, "self.%s is the caller's %s" % (tg_.attr, tg_.attr))
                        else:
                            X.bad(mth, st_, "the controller's %s must be the value the caller requested; `%s` alters it (a floor / cap / rescaling silently changes the "
                                  "accuracy that was asked for)" % (tg_.attr, norm_stmt(st_, 80)))
    if n_tol < 2:
        raise AnalysisError("C07-X: RKAdaptiveStepSolver no longer stores atol and rtol")
    from .c18 import _get_method as _lookup_rule
    Gm = RuleResult(PROP, "C07-G", "the method name is resolved by an exact (case-insensitive) table lookup: a name selects its own scheme, never a neighbour", min_instances=2)
    _lookup_rule(model, Gm)
    # the generic explicit stepper: size-parametric interpretation first; the specialisation to the callers' concrete tableaux is a
    # cross-check when both can read the code and the deciding method when only it can (restructured steppers: helpers, zip over rows,
    # precomputed stage times).  A stepper neither can read is undecided.
    _R0, _Z0, _I0 = (RuleResult(PROP, x.rule, x.description, min_instances=0) for x in (R, Z, I))
    _primary_err = None
    try:
        _erk_roles(model, _R0, _Z0, _I0)
    except AnalysisError as _e:
        _primary_err = _e
    try:
        _spec = _erk_specialised(model, _fixed_tabs)
    except Uninterpretable as _e2:
        _spec = None
        _spec_err = _e2
    if _primary_err is not None and _spec is None:
        raise AnalysisError("%s; the specialising evaluator cannot read it either (%s)" % (_primary_err, _spec_err))
    for _src, _dst in ((_R0, R), (_Z0, Z), (_I0, I)):
        if _primary_err is None or _src.findings:          # definite violations found before the interpreter gave up are kept
            _dst.instances.extend(_src.instances)
            _dst.findings.extend(_src.findings)
            _dst.notes.extend(_src.notes)
            _dst.undecided_items.extend(_src.undecided_items if _primary_err is None else [])
            _dst.paths += _src.paths
    _fi_erk = model.func(ERK, "explicit_rk")
    for _rid, _ok, _msg, _node in (_spec or []):
        _dst = {"C07-R": R, "C07-0": Z, "C07-I": I}[_rid]
        if _ok:
            _dst.ok(_fi_erk.fq, _msg + " (partial evaluation on the tableau's concrete coefficients)")
        else:
            _dst.bad(_fi_erk, _node if _node is not None else _fi_erk.node, _msg)
    if _spec is None:
        R.note("explicit_rk: specialising evaluator not applicable (%s); decided by the size-parametric interpretation alone" % _spec_err)
    elif _primary_err is not None:
        R.note("explicit_rk: the size-parametric interpreter could not read the stepper (%s); decided by specialisation to the %d tableaux the callers pass "
               "(bounded claim: those tableaux)" % (_primary_err, len(_fixed_tabs)))
    rm = _rkstep_roles(model, R)
    # stage loop of rk_step covers every row of A and C
    lnode, sym, k0, his, inner = rm.loop
    if {repr(h) for h in his} <= {"len(A)", "len(C)"} and len(his) == 2:
        R.ok(rm.fi.fq, "the stage loop pairs row s of A with C[s] for every s in 1..n_stages-1")
    else:
        R.bad(rm.fi, lnode, "the stage loop must cover every row of A and entry of C from 1 (found upper bounds %s)" % [repr(h) for h in his])
    pos, names = _controller(model, X, L, rm)
    _adaptive_driver(model, Z, I, L, V, pos, names)
    _tuple_states(model, P)
    rules.extra_coverage = dict(order_conditions_checked=n_cond, exhaustive=True,
                                exhaustive_note="every rooted tree up to the declared order of every scheme is enumerated; every statement of the four steppers/controllers is interpreted")
    from ..rules import autograd as _ac
    _R11 = RuleResult(PROP, "AC11", "every exit of the public functional returns the Function's output; forward's solution comes only from the dispatched implementation; operands unchanged", min_instances=2)
    for _cn in ['_SolveIVP']:
        _fc = _ac.get_fncls(model, _cn)
        _ac.ac11_wrapper_returns(model, _fc, _R11)
        _ac.ac11_forward_provenance(model, _fc, _R11)
    return [T, N, D, R, X, L, Z, I, V, P, _R11, Gm]
