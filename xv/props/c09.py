"""C09 -- a function gives the same results however its parameters are supplied (plumbing is uniform)."""
from __future__ import annotations
import ast
from typing import List, Optional, Dict, Set
from ..model import Model, FuncInfo, own_nodes, norm_stmt, AnalysisError, AnchorError, enclosing_stmt, ancestors, parent
from ..report import RuleResult
from ..flow import function_defs, names_loaded, free_names_of_def
from ..rules import autograd as ac

PROP = "C09"
LEVEL = "other"
EXPLANATION = (
    "The plumbing that makes object-held tensors visible to autograd is uniform across the functionals - decided from the "
    "source: (AC6) every public wrapper (rootfinder, equilibrium, minimize, solve_ivp x2, quad x2, mcquad x2) appends the object "
    "parameters of the *same* pure function it passes as callable, after the explicit parameters, with the count slot equal to "
    "len(params); forward splits at that slot; (S) every nested function that calls a pure function of the enclosing functional "
    "and is handed to .apply / make_sibling is itself decorated make_sibling(<that pure function or a sibling of it>); (D) "
    "get_pure_function, evaluated abstractly over 11 kinds of argument (PureFunction / plain or scripted function / bound method or "
    "callable object x EditableModule / nn.Module / both / other / a non-callable), ends in the right wrapper with the right (object, "
    "method) or raises, and make_sibling distinguishes 0 / 1 / several parents; (U) PureFunction derives the current parameters from "
    "the same Uniquifier that set/restore use to re-expand, and an abstract round trip of the MultiSibling getter / setter over siblings "
    "holding 2, 0 and 3 tensors hands each sibling exactly its own slice; "
    "(I) the 'identical parameters' short-cut of set_objparams is a universal statement over all pairs. NOT decided: numerical "
    "equality between representations; stale alias caches after the user re-assigns tensors.")
ASSUMPTIONS = ["name-based call resolution", "torch.nn.Module.named_parameters order is registration order"]

PF = "xitorch/_core/pure_function.py"
FUNCTIONALS = ["_RootFinder", "_SolveIVP", "_Quadrature", "_MCQuad"]


def rules(model: Model, tier: str) -> List[RuleResult]:
    R6 = RuleResult(PROP, "AC6", "layout agreement of every public functional with its Function.forward", min_instances=20)
    S = RuleResult(PROP, "C09-S", "sibling decoration of nested functions handed to .apply / make_sibling", min_instances=7)
    D = RuleResult(PROP, "C09-D", "get_pure_function dispatch is exhaustive and raises otherwise", min_instances=6)
    U = RuleResult(PROP, "C09-U", "uniquifier agreement and multi-sibling split offsets", min_instances=5)
    I = RuleResult(PROP, "C09-I", "identical-parameters short-cut is a universal statement over all pairs", min_instances=1)
    for name in FUNCTIONALS:
        ac.ac6_layout(model, ac.get_fncls(model, name), R6)
        ac.ac6_family_consistency(model, ac.get_fncls(model, name), R6)
    _siblings(model, S)
    _dispatch(model, D)
    _uniq(model, U)
    _identical(model, I)
    G = RuleResult(PROP, "C09-G", "sibling wrappers delegate getter and setter in the same (all-names) space", min_instances=4)
    N = RuleResult(PROP, "C09-N", "nn.Module parameters are installed through the dotted-path helpers for every captured name", min_instances=3)
    _delegation(model, G)
    from .c10 import _order, setparams_structure
    _order(model, N)
    setparams_structure(model, N)
    from ..rules import substitution as _subst
    K = RuleResult(PROP, "SUB-K", "parameter de-duplication is keyed on object identity", min_instances=1)
    M = RuleResult(PROP, "SUB-M", "every alias of a unique parameter receives the new tensor; nothing is skipped", min_instances=3)
    _subst.unique_key_identity(model, K)
    _subst.unique_fill(model, M)
    SA = RuleResult(PROP, "SUB-A", "the pure function's record of the installed tensors never escapes (accessors return copies)", min_instances=3)
    _subst.no_escape_of_current_params(model, SA)
    F9 = RuleResult(PROP, "C09-F", "every backward makes one fresh, graph-connected copy per parameter slot (list, not an identity-keyed mapping)", min_instances=7)
    for name in FUNCTIONALS:
        ac.ac9_connected_copies(ac.get_fncls(model, name), F9)
    from .c16 import _one_context
    X = RuleResult(PROP, "C09-X", "at most one pure function's useobjparams context is open at a time (methods of one object would overwrite each other's installed tensors)", min_instances=7)
    _one_context(model, X, whole_package=True)
    # the Jacobian / Hessian operator re-evaluates the user's function: always under enable_grad and useobjparams(self.objparams) - in both
    # products, whatever private helper the re-evaluation lives in (the implicit backward of the root finder applies J^H through _rmv)
    from .c17 import _connect
    J9 = RuleResult(PROP, "C09-J", "the jac / hess operator re-evaluates the function under useobjparams(self.objparams) in both products", min_instances=4)
    _connect(model, J9)
    return [R6, S, D, U, I, G, N, K, M, X, F9, SA, J9]


# ------------------------------------------------------------------------------------------------- S
def _roots_of(f: FuncInfo) -> Dict[str, str]:
    """names that denote pure functions inside f: results of get_pure_function (and the raw callable they wrap),
    make_sibling-decorated closures, and parameters used as pure functions (p.useobjparams / p.disable_state_change /
    make_sibling(p))"""
    roots = dict(ac._pure_function_names(f))
    for s in own_nodes(f.node):
        if isinstance(s, ast.Assign) and len(s.targets) == 1 and isinstance(s.targets[0], ast.Name) and isinstance(s.value, ast.Call) \
                and ast.unparse(s.value.func).split(".")[-1] == "get_pure_function" and s.value.args and isinstance(s.value.args[0], ast.Name):
            roots.setdefault(s.value.args[0].id, roots.get(s.targets[0].id, s.targets[0].id))
    params = set(f.all_params())
    for n in ast.walk(f.node):
        if isinstance(n, ast.Attribute) and n.attr in ("useobjparams", "disable_state_change", "objparams") and isinstance(n.value, ast.Name) \
                and n.value.id in params:
            roots.setdefault(n.value.id, n.value.id)
        if isinstance(n, ast.Call) and ast.unparse(n.func).split(".")[-1] == "make_sibling":
            for a in n.args:
                if isinstance(a, ast.Name) and a.id in params:
                    roots.setdefault(a.id, a.id)
    return roots


def _siblings(model: Model, S: RuleResult):
    for g in model.all_functions():
        if g.parent is None or g.module.relpath.startswith("xitorch/_core/"):
            continue
        f = g.parent
        roots: Dict[str, str] = {}
        anc = f
        while anc is not None:
            for k, v in _roots_of(anc).items():
                roots.setdefault(k, v)
            anc = anc.parent
        if not roots:
            continue
        nm, d = g.name, g.node
        own_params = set(g.all_params()) | ({g.vararg()} if g.vararg() else set())
        called = {c.func.id for c in ast.walk(d) if isinstance(c, ast.Call) and isinstance(c.func, ast.Name)}
        uses_pf = {r for r in called if r in roots and r != nm and r not in own_params}
        if not uses_pf:
            continue
        # is it used where a PureFunction is expected?
        used = False
        for c in own_nodes(f.node):
            if isinstance(c, ast.Call):
                fn_txt = ast.unparse(c.func)
                if fn_txt.endswith(".apply") or fn_txt.split(".")[-1] in ("make_sibling", "_Jac"):
                    if any(isinstance(a, ast.Name) and (a.id == nm or _aliases(f, a.id, nm)) for a in c.args):
                        used = True
            if isinstance(c, ast.Return) and isinstance(c.value, ast.Name) and c.value.id == nm:
                used = True
        for s2 in own_nodes(f.node):
            if isinstance(s2, ast.FunctionDef):
                for dd in s2.decorator_list:
                    if isinstance(dd, ast.Call) and ast.unparse(dd.func).split(".")[-1] == "make_sibling" and any(isinstance(a, ast.Name) and a.id == nm for a in dd.args):
                        used = True
        if not used:
            continue
        decos = [dd for dd in d.decorator_list if isinstance(dd, ast.Call) and ast.unparse(dd.func).split(".")[-1] == "make_sibling"]
        what = "%s calls pure function(s) %s and is handed on as a pure function" % (g.qualname, sorted(uses_pf))
        if not decos:
            S.bad(g, d, "nested function `%s` wraps the pure function %s and is used as a pure function but is not decorated with make_sibling: "
                  "tensors held by the user's object are then invisible to autograd for this representation" % (nm, sorted(uses_pf)), what=what)
            continue
        args = {a.id for dd in decos for a in dd.args if isinstance(a, ast.Name)}
        want_roots = {roots[u] for u in uses_pf}
        got_roots = {roots.get(a) for a in args}
        if want_roots <= got_roots:
            S.ok(g.fq, what + " - decorated make_sibling(%s)" % ", ".join(sorted(args)))
        else:
            S.bad(g, d, "nested function `%s` is a sibling of %s but calls the pure function(s) %s" % (nm, sorted(args), sorted(uses_pf)), what=what)


def _aliases(f: FuncInfo, name: str, target: str) -> bool:
    ds = function_defs(f.node).get(name, [])
    for d in ds:
        if isinstance(d, ast.Name) and d.id == target:
            return True
        if isinstance(d, ast.IfExp) and any(isinstance(x, ast.Name) and x.id == target for x in (d.body, d.orelse)):
            return True
    return False


# ------------------------------------------------------------------------------------------------- D
def _dispatch(model: Model, D: RuleResult):
    """get_pure_function / make_sibling are evaluated abstractly over the kinds of argument the contract distinguishes
    (domains/kinds.py): however the chain of tests is written, each kind must end in its wrapper (with the right object and method)
    or be rejected."""
    from ..domains.kinds import AObj, outcome, KindInterp, Closure, module_consts
    from ..domains.dictsem import Unsupported, Raised
    f = model.func(PF, "get_pure_function")
    consts = module_consts(model.modules[PF].tree)
    p = f.params()[0]

    def obj(name, *classes):
        return AObj(name, classes)

    def method_of(o):
        return AObj("method of %s" % o.name, ismethod=True, attrs={"__self__": o, "__call__": AObj("method-wrapper")})

    def callable_obj(name, *classes):
        o = AObj(name, classes)
        o.attrs["__call__"] = AObj("%s.__call__" % name, ismethod=True, attrs={"__self__": o, "__call__": AObj("method-wrapper")})
        return o
    em, nn_, both, other = obj("EM object", "EditableModule"), obj("nn.Module object", "torch.nn.Module"), \
        obj("EM+nn.Module object", "EditableModule", "torch.nn.Module"), obj("other object")
    pf = AObj("PureFunction instance", ("PureFunction",), attrs={"__call__": AObj("pf.__call__", ismethod=True)})
    fn = AObj("plain function", isfunction=True, attrs={"__call__": AObj("method-wrapper")})
    sf = AObj("scripted function", ("torch.jit.ScriptFunction",), attrs={"__call__": AObj("method-wrapper")})
    cem, cnn, cother = callable_obj("callable EM object", "EditableModule"), callable_obj("callable nn.Module", "torch.nn.Module"), callable_obj("callable other object")
    m_em, m_nn, m_both, m_other = method_of(em), method_of(nn_), method_of(both), method_of(other)
    cases = [
        (pf, ("same",), "an existing PureFunction is returned unchanged"),
        (fn, ("made", "FunctionPureFunction", (fn,)), "plain function -> FunctionPureFunction"),
        (sf, ("made", "FunctionPureFunction", (sf,)), "torch.jit.ScriptFunction -> FunctionPureFunction"),
        (m_em, ("made", "EditableModulePureFunction", (em, m_em)), "bound method of an EditableModule -> EditableModulePureFunction(its __self__, method)"),
        (m_nn, ("made", "TorchNNPureFunction", (nn_, m_nn)), "bound method of a torch.nn.Module -> TorchNNPureFunction(its __self__, method)"),
        (m_both, ("made", "EditableModulePureFunction", (both, m_both)), "an object that is both is treated as EditableModule (its getparamnames decides)"),
        (m_other, ("raise",), "a bound method of any other object raises"),
        (cem, ("made", "EditableModulePureFunction", (cem, cem.attrs["__call__"])), "callable EditableModule object -> (object, object.__call__)"),
        (cnn, ("made", "TorchNNPureFunction", (cnn, cnn.attrs["__call__"])), "callable nn.Module -> (object, object.__call__)"),
        (cother, ("raise",), "any other callable object raises"),
        (AObj("non-callable value"), ("raise",), "any other argument raises"),
    ]
    for arg, want, text in cases:
        try:
            kind, val = outcome(f.node, {p: arg}, consts)
        except Unsupported as e:
            D.undecided(f, f.node, "cannot interpret get_pure_function for a %s: %s" % (arg.name, e))
            return
        if want[0] == "same":
            ok = kind == "returned" and val is arg
        elif want[0] == "raise":
            ok = kind == "raised"
        else:
            ok = kind == "returned" and isinstance(val, tuple) and val[:2] == ("made", want[1]) and len(val[2]) == len(want[2]) \
                and all(x is y for x, y in zip(val[2], want[2])) and not val[3]
        if ok:
            D.ok(f.fq, text)
        else:
            D.bad(f, f.node, "get_pure_function(<%s>): %s -- but it %s %s" % (arg.name, text, kind, val if kind == "raised" else _show_made(val)))
    # make_sibling
    ms = model.func(PF, "make_sibling")
    vp = ms.vararg()
    if vp is None:
        raise AnchorError("make_sibling no longer takes *pfuncs")
    fcn = AObj("decorated function", isfunction=True)
    p0, p1 = AObj("parent 0", ("PureFunction",)), AObj("parent 1", ("PureFunction",))
    for parents, want, text in (((), None, "0 functions -> TypeError"), ((p0,), "SingleSiblingPureFunction", "1 -> SingleSiblingPureFunction(parent, fcntocall=fcn)"),
                                ((p0, p1), "MultiSiblingPureFunction", ">1 -> MultiSiblingPureFunction(parents, fcntocall=fcn)")):
        try:
            kind, val = outcome(ms.node, {vp: parents}, consts)
            if kind == "returned" and isinstance(val, Closure):
                try:
                    val = KindInterp({}).apply(val, [fcn])
                except Raised as e:
                    kind, val = "raised", str(e)
        except Unsupported as e:
            D.undecided(ms, ms.node, "cannot interpret make_sibling for %d parent function(s): %s" % (len(parents), e))
            return
        if want is None:
            ok = kind == "raised"
        else:
            first = val[2][0] if kind == "returned" and isinstance(val, tuple) and len(val) == 4 and val[2] else None
            ok = kind == "returned" and isinstance(val, tuple) and val[:2] == ("made", want) and dict(val[3]).get("fcntocall") is fcn and len(val[2]) == 1 and \
                (first is p0 if len(parents) == 1 else (isinstance(first, (tuple, list)) and len(first) == 2 and first[0] is p0 and first[1] is p1))
        if ok:
            D.ok(ms.fq, "make_sibling: " + text)
        else:
            D.bad(ms, ms.node, "make_sibling no longer distinguishes zero / one / many parent functions: %s -- but it %s %s" % (text, kind, _show_made(val)))


def _show_made(v):
    if isinstance(v, tuple) and len(v) == 4 and v[0] == "made":
        return "%s(%s)" % (v[1], ", ".join([repr(x) for x in v[2]] + ["%s=%r" % kv for kv in v[3]]))
    return repr(v)


# ------------------------------------------------------------------------------------------------- U
def _uniq(model: Model, U: RuleResult):
    init = model.func(PF, "PureFunction.__init__")
    src = ast.unparse(init.node)
    from ..model import has_form
    if has_form(init.node, "self._uniq = Uniquifier(self._allobjparams)", "self._cur_objparams = self._uniq.get_unique_objs()",
                "self._allobjparams = self._get_all_obj_params_init()"):
        U.ok(init.fq, "current parameters = unique objects of the Uniquifier built from all object parameters")
    else:
        U.bad(init, init.node, "PureFunction.__init__ must derive _cur_objparams from the Uniquifier of _get_all_obj_params_init()")
    for q in ("PureFunction.set_objparams", "PureFunction.restore_objparams"):
        f = model.func(PF, q)
        calls = [c for c in own_nodes(f.node) if isinstance(c, ast.Call) and isinstance(c.func, ast.Attribute) and c.func.attr == "_set_all_obj_params"]
        defs = function_defs(f.node)
        ok = bool(calls)
        for c in calls:
            a = c.args[0] if c.args else None
            e = defs.get(a.id, [None])[0] if isinstance(a, ast.Name) else a
            if not (isinstance(e, ast.Call) and ast.unparse(e.func) == "self._uniq.map_unique_objs"):
                ok = False
        if ok:
            U.ok(f.fq, "%s re-expands the unique list with self._uniq.map_unique_objs before installing" % q.split(".")[-1])
        else:
            U.bad(f, f.node, "%s must re-expand with the same Uniquifier (map_unique_objs)" % q)
    # MultiSibling: abstract round trip of the getter / setter pair over three collaborating functions holding 2, 0 and 3 parameters
    from ..domains.kinds import AObj, KindInterp
    from ..domains.dictsem import Unsupported, Raised, _Return, Tok
    ms = model.func(PF, "MultiSiblingPureFunction._get_all_obj_params_init")
    st = model.func(PF, "MultiSiblingPureFunction._set_all_obj_params")
    init_ms = model.func(PF, "MultiSiblingPureFunction.__init__")
    me = ms.params()[0]
    held = [[Tok("p0a"), Tok("p0b")], [], [Tok("p2a"), Tok("p2b"), Tok("p2c")]]
    received: Dict[int, list] = {}
    pfs = []
    for k, hs in enumerate(held):
        o = AObj("sibling %d" % k, ("PureFunction",))
        o.methods["_get_all_obj_params_init"] = (lambda hs=hs: list(hs))
        o.methods["_set_all_obj_params"] = (lambda lst, k=k: received.__setitem__(k, list(lst)))
        pfs.append(o)
    # the attributes __init__ derives from its list of functions (get_pure_function returns a PureFunction unchanged: C09-D)
    boot = KindInterp({init_ms.params()[1]: list(pfs), "get_pure_function": (lambda x: x)})
    try:
        boot.run([s_ for s_ in init_ms.node.body if isinstance(s_, (ast.Assign, ast.AnnAssign))])
    except (Unsupported, Raised) as e:
        U.undecided(init_ms, init_ms.node, "cannot interpret MultiSiblingPureFunction.__init__: %s" % e)
        return
    pre = "%s." % init_ms.params()[0]
    env = {"%s.%s" % (me, k[len(pre):]): v for k, v in boot.env.items() if k.startswith(pre)}
    it = KindInterp(env)
    try:
        try:
            it.run(ms.node.body)
            allp = None
        except _Return as r:
            allp = r.v
        flat = [t for hs in held for t in hs]
        if not (isinstance(allp, list) and len(allp) == len(flat) and all(x is y for x, y in zip(allp, flat))):
            U.bad(ms, ms.node, "MultiSibling._get_all_obj_params_init must return the concatenation of the siblings' parameter lists in sibling order "
                  "(siblings holding 2, 0, 3 parameters gave %r)" % (allp,))
        else:
            U.ok(ms.fq, "the getter concatenates the siblings' lists in order (2 + 0 + 3 parameters)")
        new = [Tok("n%d" % i) for i in range(len(flat))]
        it2 = KindInterp(dict(it.env, **{st.params()[0]: it.env.get(me), st.params()[1]: list(new)}))
        it2.env.pop(st.params()[0], None)
        try:
            it2.run(st.node.body)
        except _Return:
            pass
        want = {0: new[0:2], 1: [], 2: new[2:5]}
        okr = all(k in received and len(received[k]) == len(want[k]) and all(x is y for x, y in zip(received[k], want[k])) for k in want)
        if okr:
            U.ok(st.fq, "each sibling receives exactly its own slice of the new list (offsets accumulate the per-function lengths)")
        else:
            U.bad(st, st.node, "MultiSibling must hand each function the slice delimited by consecutive offsets cumsum_idx[i + 1] = cumsum_idx[i] + len(<object parameters of the "
                  "i-th function>): siblings holding 2, 0, 3 parameters received %s of the new list n0..n4" % {k: received.get(k) for k in want})
    except Unsupported as e:
        U.undecided(ms, ms.node, "cannot interpret the MultiSibling getter / setter pair: %s" % e)
    except Raised as e:
        U.bad(st, st.node, "the MultiSibling getter / setter pair raises for siblings holding 2, 0, 3 parameters: %s" % e)


def _delegation(model: Model, G: RuleResult):
    """A wrapper that forwards `_set_all_obj_params(<list>)` to the wrapped function(s) must build that list with the wrapped
    function's `_get_all_obj_params_init()` - the name-aligned list of ALL object parameters.  Taking the wrapped function's
    de-duplicated `objparams()` instead yields a shorter list whenever one tensor is registered under two names, and the setter
    then leaves the trailing names untouched."""
    for cname in ("SingleSiblingPureFunction", "MultiSiblingPureFunction"):
        cls = model.cls(PF, cname)
        g, st = cls.methods.get("_get_all_obj_params_init"), cls.methods.get("_set_all_obj_params")
        if g is None or st is None:
            raise AnalysisError("C09-G: %s lacks the getter/setter pair" % cname)

        def inner_calls(fi):
            out = []
            for c in ast.walk(fi.node):
                if isinstance(c, ast.Call) and isinstance(c.func, ast.Attribute):
                    recv = ast.unparse(c.func.value)
                    if recv in ("self.pfunc", "pfunc") or recv.startswith("self.pfuncs"):
                        out.append(c.func.attr)
                elif isinstance(c, ast.Attribute) and c.attr in ("_cur_objparams", "_allobjparams") and ast.unparse(c.value) in ("self.pfunc", "pfunc"):
                    out.append(c.attr)
            return out
        gc, sc = inner_calls(g), inner_calls(st)
        if gc and set(gc) == {"_get_all_obj_params_init"}:
            G.ok(g.fq, "%s collects with the wrapped function's _get_all_obj_params_init() (all names, duplicates kept)" % cname)
        else:
            G.bad(g, g.node, "%s builds its parameter list from %s of the wrapped function; the list handed to _set_all_obj_params must be the "
                  "name-aligned one from _get_all_obj_params_init() (aliased tensors are otherwise left un-substituted)" % (cname, sorted(set(gc)) or "nothing"))
        if sc and set(sc) == {"_set_all_obj_params"}:
            G.ok(st.fq, "%s installs with the wrapped function's _set_all_obj_params" % cname)
        else:
            G.bad(st, st.node, "%s must forward to the wrapped function's _set_all_obj_params (found %s)" % (cname, sorted(set(sc))))


# ------------------------------------------------------------------------------------------------- I
def _quantifier(e: ast.AST) -> Optional[str]:
    """normalise a boolean expression over pairs to 'forall-same' / 'exists-same' / 'forall-diff' / 'exists-diff'"""
    if isinstance(e, ast.BoolOp) and isinstance(e.op, ast.And):
        # `len(a) == len(b) and <quantified part>`: the length conjunct does not change the quantifier
        rest = [v for v in e.values if not (isinstance(v, ast.Compare) and isinstance(v.ops[0], ast.Eq) and ast.unparse(v.left).startswith("len(")
                                            and ast.unparse(v.comparators[0]).startswith("len("))]
        if len(rest) == 1:
            return _quantifier(rest[0])
        return None
    neg = False
    while isinstance(e, ast.UnaryOp) and isinstance(e.op, ast.Not):
        neg = not neg
        e = e.operand
    if isinstance(e, ast.Call) and isinstance(e.func, ast.Name) and e.func.id in ("all", "any") and e.args and isinstance(e.args[0], (ast.GeneratorExp, ast.ListComp)):
        q = e.func.id
        elt = e.args[0].elt
        rel = _pair_relation(elt)
        if rel is None:
            return None
        if neg:
            q = "any" if q == "all" else "all"
            rel = "diff" if rel == "same" else "same"
        return ("forall-" if q == "all" else "exists-") + rel
    return None


def _pair_relation(e: ast.AST) -> Optional[str]:
    neg = False
    while isinstance(e, ast.UnaryOp) and isinstance(e.op, ast.Not):
        neg = not neg
        e = e.operand
    if isinstance(e, ast.Compare) and len(e.ops) == 1:
        op = e.ops[0]
        l, r = e.left, e.comparators[0]
        ids = isinstance(l, ast.Call) and ast.unparse(l.func) == "id" and isinstance(r, ast.Call) and ast.unparse(r.func) == "id"
        if isinstance(op, ast.Is) or (isinstance(op, ast.Eq) and ids):
            rel = "same"
        elif isinstance(op, ast.IsNot) or (isinstance(op, ast.NotEq) and ids):
            rel = "diff"
        else:
            return None
        if neg:
            rel = "diff" if rel == "same" else "same"
        return rel
    return None


class _Unsupported(Exception):
    pass


class _Ret(Exception):
    def __init__(self, v):
        self.v = v


class _Brk(Exception):
    pass


class _Cont(Exception):
    pass


def _ident_table(fnode: ast.FunctionDef, maxn: int = 3):
    """Truth table of a two-list identity predicate over the finite abstraction `pair k is the same object / is not`:
    the body is evaluated abstractly on lists of identity tokens for every length <= maxn and every same/different
    pattern.  Only loops over the two lists, identity tests, boolean structure and constant returns are interpreted;
    anything else is unsupported (undecided).  Returns {pattern: bool}."""
    import itertools
    a = fnode.args
    ps = [x.arg for x in a.posonlyargs + a.args]
    if len(ps) != 2:
        raise _Unsupported("not a two-list predicate")

    def ev(e, env):
        if isinstance(e, ast.Constant):
            return e.value
        if isinstance(e, ast.Name):
            if e.id in env:
                return env[e.id]
            raise _Unsupported("name %s" % e.id)
        if isinstance(e, ast.Tuple):
            return tuple(ev(x, env) for x in e.elts)
        if isinstance(e, ast.UnaryOp) and isinstance(e.op, ast.Not):
            return not ev(e.operand, env)
        if isinstance(e, ast.BoolOp):
            if isinstance(e.op, ast.And):
                r = True
                for v in e.values:
                    r = ev(v, env)
                    if not r:
                        return r
                return r
            r = False
            for v in e.values:
                r = ev(v, env)
                if r:
                    return r
            return r
        if isinstance(e, ast.Compare) and len(e.ops) == 1:
            l, r = ev(e.left, env), ev(e.comparators[0], env)
            op = e.ops[0]
            if isinstance(op, (ast.Is, ast.Eq)):
                return l == r
            if isinstance(op, (ast.IsNot, ast.NotEq)):
                return l != r
            if isinstance(l, int) and isinstance(r, int):
                return {ast.Lt: l < r, ast.LtE: l <= r, ast.Gt: l > r, ast.GtE: l >= r}.get(type(op))
            raise _Unsupported(ast.unparse(e))
        if isinstance(e, ast.Subscript):
            v, i = ev(e.value, env), ev(e.slice, env)
            if isinstance(v, (list, tuple)) and isinstance(i, int):
                return v[i]
            raise _Unsupported(ast.unparse(e))
        if isinstance(e, ast.BinOp) and isinstance(e.op, (ast.Add, ast.Sub)):
            l, r = ev(e.left, env), ev(e.right, env)
            if isinstance(l, int) and isinstance(r, int):
                return l + r if isinstance(e.op, ast.Add) else l - r
            raise _Unsupported(ast.unparse(e))
        if isinstance(e, (ast.GeneratorExp, ast.ListComp)) and len(e.generators) == 1:
            g = e.generators[0]
            out = []
            for item in ev(g.iter, env):
                env2 = dict(env)
                bind(g.target, item, env2)
                if all(ev(c, env2) for c in g.ifs):
                    out.append(ev(e.elt, env2))
            return out
        if isinstance(e, ast.Call) and isinstance(e.func, ast.Name) and not e.keywords:
            fn = e.func.id
            args = [ev(x, env) for x in e.args]
            if fn == "id" and len(args) == 1:
                return ("id",) + tuple(args[0]) if isinstance(args[0], tuple) else args[0]
            if fn == "len" and len(args) == 1:
                return len(args[0])
            if fn == "zip":
                return list(zip(*args))
            if fn == "range":
                return list(range(*args))
            if fn == "enumerate" and len(args) == 1:
                return list(enumerate(args[0]))
            if fn in ("all", "any") and len(args) == 1:
                return all(args[0]) if fn == "all" else any(args[0])
            if fn in ("list", "tuple") and len(args) == 1:
                return list(args[0])
            if fn == "bool" and len(args) == 1:
                return bool(args[0])
        raise _Unsupported(ast.unparse(e)[:60])

    def bind(t, v, env):
        if isinstance(t, ast.Name):
            env[t.id] = v
        elif isinstance(t, (ast.Tuple, ast.List)) and isinstance(v, (tuple, list)) and len(t.elts) == len(v):
            for tt, vv in zip(t.elts, v):
                bind(tt, vv, env)
        else:
            raise _Unsupported("target %s" % ast.unparse(t))

    def run(stmts, env):
        for s_ in stmts:
            if isinstance(s_, ast.Expr) and isinstance(s_.value, ast.Constant):
                continue
            if isinstance(s_, ast.Pass):
                continue
            if isinstance(s_, ast.Return):
                raise _Ret(ev(s_.value, env) if s_.value is not None else None)
            if isinstance(s_, ast.Assign) and len(s_.targets) == 1:
                bind(s_.targets[0], ev(s_.value, env), env)
                continue
            if isinstance(s_, ast.If):
                run(s_.body if ev(s_.test, env) else s_.orelse, env)
                continue
            if isinstance(s_, ast.For):
                broke = False
                for item in ev(s_.iter, env):
                    bind(s_.target, item, env)
                    try:
                        run(s_.body, env)
                    except _Brk:
                        broke = True
                        break
                    except _Cont:
                        continue
                if not broke:
                    run(s_.orelse, env)
                continue
            if isinstance(s_, ast.Break):
                raise _Brk()
            if isinstance(s_, ast.Continue):
                raise _Cont()
            raise _Unsupported("statement %s" % type(s_).__name__)

    table = {}
    for n in range(maxn + 1):
        for pat in itertools.product((True, False), repeat=n):
            l1 = [("o", k, "a") for k in range(n)]
            l2 = [("o", k, "a") if pat[k] else ("o", k, "b") for k in range(n)]
            try:
                run(fnode.body, {ps[0]: l1, ps[1]: l2})
                table[pat] = None
            except _Ret as r:
                table[pat] = r.v
    return table


def identity_predicate(model: Model):
    """The predicate that lets PureFunction.set_objparams skip the installation, found by role: the call in set_objparams that compares
    the new list with the record of the installed tensors - a module-level function f(new, self.<record>) or a method self.m(new) that
    reads self.<record> itself.  Returns (FuncInfo of the predicate, a two-parameter FunctionDef equivalent to it, record attribute,
    the call) or raises AnchorError."""
    import copy as _copy
    so = model.func(PF, "PureFunction.set_objparams")
    me, pnew = so.params()[0], so.params()[1]
    mod = so.module
    for c in own_nodes(so.node):
        if not isinstance(c, ast.Call):
            continue
        args = [ast.unparse(a) for a in c.args]
        if isinstance(c.func, ast.Name) and c.func.id in mod.functions and len(args) == 2 and pnew in args:
            other = [a for a in c.args if ast.unparse(a) != pnew]
            if len(other) == 1 and isinstance(other[0], ast.Attribute) and ast.unparse(other[0].value) == me:
                f = mod.functions[c.func.id]
                return f, f.node, other[0].attr, c
        if isinstance(c.func, ast.Attribute) and ast.unparse(c.func.value) == me and args == [pnew] and so.cls is not None:
            m = so.cls.find_method(c.func.attr)
            if m is None or len(m.params()) != 2:
                continue
            recs = {n.attr for n in ast.walk(m.node) if isinstance(n, ast.Attribute) and isinstance(n.value, ast.Name) and n.value.id == m.params()[0]
                    and isinstance(n.ctx, ast.Load) and n.attr.startswith("_cur")}
            if len(recs) != 1:
                continue
            rec = next(iter(recs))
            node = _copy.deepcopy(m.node)

            class T(ast.NodeTransformer):
                def visit_Attribute(self, n):
                    if isinstance(n.value, ast.Name) and n.value.id == m.params()[0] and n.attr == rec:
                        return ast.copy_location(ast.Name(id="__record", ctx=ast.Load()), n)
                    return self.generic_visit(n)
            node = T().visit(node)
            node.args = ast.arguments(posonlyargs=[], args=[ast.arg(arg=m.params()[1]), ast.arg(arg="__record")], kwonlyargs=[], kw_defaults=[], defaults=[])
            ast.fix_missing_locations(node)
            return m, node, rec, c
    raise AnchorError("the comparison of the new object parameters with the installed ones was not found in PureFunction.set_objparams")


def _identical(model: Model, I: RuleResult):
    f, fnode, _rec, _call = identity_predicate(model)
    try:
        table = _ident_table(fnode)
    except _Unsupported as e:
        I.undecided(f, f.node, "cannot interpret the identical-parameters predicate %s (%s)" % (f.qualname, e))
        return
    wrong = [pat for pat, v in sorted(table.items(), key=lambda kv: (len(kv[0]), kv[0])) if bool(v) != all(pat) or not isinstance(v, bool)]
    if not wrong:
        verdict = "forall-same"
    else:
        w = wrong[0]
        verdict = "returns %r for the pattern %s" % (table[w], ["same" if x else "different" for x in w])
    what = "%s computes `%s`" % (f.qualname, verdict)
    if verdict == "forall-same":
        I.ok(f.fq, what + " (skip the installation only if every tensor is already the installed object)")
    else:
        I.bad(f, f.node, "the identical-parameters short-cut must hold for ALL pairs; it computes `%s`, so set_objparams skips installing new "
              "tensors although some differ (their gradients silently vanish)" % verdict, what=what)
    # zip truncation: lengths are equal by construction (both unique lists); the caller passes (new, current)
    so = model.func(PF, "PureFunction.set_objparams")
    I.ok(so.fq, "set_objparams compares the new parameters with the currently installed ones (self.%s)" % _rec)
