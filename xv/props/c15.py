"""C15 -- SQuad integrates the interpolant of the samples exactly (structural part)."""
from __future__ import annotations
import ast
from typing import List, Dict, Optional, Tuple, Any
from ..model import Model, FuncInfo, ClassInfo, own_nodes, norm_stmt, AnalysisError, AnchorError, enclosing_stmt, ancestors
from ..report import RuleResult
from ..flow import function_defs, names_loaded
from ..cfg import CFG, stmt_dominates
from ..callgraph import dict_literal_entries
from ..domains.poly import Rat, Poly, C, S, Uninterpretable
from ..domains import splinesys
from ..domains.weights import WeightInterp, Store, Hw, NX, Fragc, hermite_interval_integral, lagrange_parabola_integrals
from ..domains.shapes import ShapeInterp, T, Raised, ShapeError
from .c14 import hermite, linear

PROP = "C15"
LEVEL = "other"
EXPLANATION = (
    "Decided from the source for every grid, y shape, dim and keepdim at once: (W) the cumulative weight builders, summarised per "
    "loop statement as (rows, column stencil, coefficient) with a symbolic loop index, add for interval [x_{i-1}, x_i] exactly the "
    "integral of the interpolant that C14 evaluates - dx/2, dx/2 on (y_{i-1}, y_i) for trapz; +dx^2/12, -dx^2/12 on the slopes for the "
    "spline (both obtained by integrating the Hermite polynomial exactly) - to every row >= i; Simpson's pair coefficients equal the "
    "exact integrals of the Lagrange parabola through three unequally spaced knots over the pair (rows >= i) and over the last "
    "interval (odd row i only), and row 1 is the one-interval trapezoid; (0) no statement writes row 0 (first entry zero); (L) "
    "in index notation integrate(y) == cumsum(y)[..., -1] as a polynomial identity for every class (the same matrices, row -1, the same "
    "contraction, whatever the spelling: sum of products, matmul, einsum) and in every term of cumsum the output position is the row "
    "index of a weight matrix while y is summed; (D) "
    "shape domain, exhaustive over rank 1..4 (6 in thorough) x every dim x keepdim x the three methods, with the method bodies inlined: "
    "cumsum keeps the shape, integrate removes the integrated axis (or keeps it with size 1), all other axes stay in place; (R) a "
    "length mismatch reaches the raise before any delegate call; (B) bc_type reaches the slope system, the spline slopes are "
    "spline_mat @ y, and the slope system itself is the C2/boundary system (rule shared with C14-B); (M) method dispatch. NOT "
    "decided: floating-point agreement with SciPy.")
ASSUMPTIONS = ["torch.sum / matmul / einsum / transpose / squeeze / unsqueeze have their documented shape semantics",
               "a store `W[..., i:, c] += v` adds v to column c of every row from i on",
               "the samples positions are sorted (SQuad does not sort)"]

SQ = "xitorch/integrate/squad.py"
SQI = "xitorch/_impls/integrate/samples_quad.py"


def _agg(stores: List[Store]) -> Dict[Tuple, Rat]:
    out: Dict[Tuple, Rat] = {}
    for st in stores:
        lk = None if st.loop is None else tuple(repr(x).replace(" ", "") for x in st.loop[1:])
        for c, v in zip(st.cols, st.coefs):
            key = (lk, st.rows[0], repr(st.rows[1]).replace(" ", ""), repr(c).replace(" ", ""), st.op if st.op == "=" else "+")
            v2 = v if st.op != "-=" else -v
            out[key] = out.get(key, C(0)) + v2
    return {k: v for k, v in out.items() if not v.is_zero()}


def _fmt(d: Dict[Tuple, Rat]) -> str:
    return "; ".join("loop%s rows %s %s col %s %s %r" % (k[0], k[1], k[2], k[3], k[4], v) for k, v in sorted(d.items(), key=lambda kv: str(kv[0])))


def _interp_weights(model: Model, name: str) -> WeightInterp:
    fi = model.func(SQI, name)
    wi = WeightInterp(fi, fi.module.source)
    try:
        wi.run(fi.node.body)
    except Uninterpretable as e:
        raise AnalysisError("C15-W cannot interpret %s: %s" % (name, e))
    if wi.mat is None or wi.ret != wi.mat:
        raise AnalysisError("C15-W: %s does not return the weight matrix it fills" % name)
    return wi


def _weights(model: Model, W: RuleResult, Z: RuleResult, tier: str):
    hint = hermite_interval_integral(hermite)
    i = S("i")
    # ---------------- trapezoid and spline-slope weights: one cumulative statement per interval
    for fname, coefs, label in (("get_trapz_weights", ("yl", "yr"), "piecewise-linear / Hermite value part: dx/2, dx/2"),
                                ("get_cspline_grad_weights", ("kl", "kr"), "Hermite slope part: +dx^2/12, -dx^2/12")):
        wi = _interp_weights(model, fname)
        got = _agg(wi.stores)
        dx = Hw(i - C(1))
        lk = ("1", "nx", "1")
        exp = {(lk, "from", "i", "-1+i", "+"): hint[coefs[0]].subs("DX", dx), (lk, "from", "i", "i", "+"): hint[coefs[1]].subs("DX", dx)}
        if fname == "get_trapz_weights":
            lin = hermite_interval_integral(lambda t: linear(t))
            if not (lin["yl"].eq(hint["yl"]) and lin["yr"].eq(hint["yr"])):
                raise AnalysisError("C15-W: internal: value parts of the linear and Hermite integrals differ")
        ok = set(got) == set(exp) and all(got[k].eq(exp[k]) for k in exp)
        if ok:
            W.ok(wi.fi.fq, "%s: interval [x_{i-1}, x_i] adds %s to every row >= i, for i = 1..nx-1" % (fname, label), stencil=_fmt(got))
        else:
            st = wi.stores[0].stmt if wi.stores else wi.fi.node
            W.bad(wi.fi, st, "%s does not accumulate the exact integral of the interpolant over each interval: found {%s}, expected {%s}" % (fname, _fmt(got), _fmt(exp)))
        _row0(wi, Z)
    # ---------------- Simpson
    wi = _interp_weights(model, "get_simpson_weights")
    got = _agg(wi.stores)
    h0, h1 = Hw(i - C(2)), Hw(i - C(1))
    full, last = lagrange_parabola_integrals(h0, h1)
    lk1, lk2 = ("2", "nx", "2"), ("3", "nx", "2")
    exp = {}
    for k, col in enumerate(("-2+i", "-1+i", "i")):
        exp[(lk1, "from", "i", col, "+")] = full[k]
        exp[(lk2, "at", "i", col, "+")] = last[k]
    half0 = Hw(C(0)) / C(2)
    exp[(None, "at", "1", "0", "=")] = half0
    exp[(None, "at", "1", "1", "=")] = half0
    ok = set(got) == set(exp) and all(got[k].eq(exp[k]) for k in exp)
    if ok:
        W.ok(wi.fi.fq, "get_simpson_weights: pair [x_{i-2}, x_i] (even i) adds the exact integrals of the Lagrange parabola to rows >= i; odd row i adds its integral "
             "over the last interval; row 1 is the trapezoid", stencil="%d coefficients compared as rational functions of h[i-2], h[i-1]" % len(exp))
    else:
        diff = [k for k in set(got) | set(exp) if k not in got or k not in exp or not got[k].eq(exp[k])]
        k0 = sorted(diff, key=str)[0]
        st = None
        for s_ in wi.stores:
            lk = None if s_.loop is None else tuple(repr(x).replace(" ", "") for x in s_.loop[1:])
            if lk == k0[0] and any(repr(c).replace(" ", "") == k0[3] for c in s_.cols):
                st = s_.stmt
        W.bad(wi.fi, st or wi.fi.node, "get_simpson_weights: coefficient for %s differs from the exact integral of the parabola through the three knots: found %r, expected %r"
              % ("loop %s rows %s %s column %s" % k0[:4], got.get(k0), exp.get(k0)))
    _row0(wi, Z)


def _row0(wi: WeightInterp, Z: RuleResult):
    bad = None
    for st in wi.stores:
        r = st.rows[1]
        if st.loop is not None:
            sym, lo, hi, step = st.loop
            stepc = Fragc(step)
            if stepc is None or stepc <= 0:
                bad = st
                continue
            rmin = r.subs(sym, lo)
        else:
            rmin = r
        k = Fragc(rmin)
        if k is None or k < 1:
            bad = st
    if bad is None and wi.stores:
        Z.ok(wi.fi.fq, "%s: every one of the %d store statements addresses rows >= 1 (row 0 stays zero)" % (wi.fi.name, len(wi.stores)))
    else:
        Z.bad(wi.fi, bad.stmt if bad else wi.fi.node, "a store can reach row 0 of the cumulative weights: the running integral would not start at zero")


# ------------------------------------------------------------------------------------------ contraction roles (C15-L)
def _squad_classes(model: Model):
    sq = model.cls(SQ, "SQuad")
    init = sq.find_method("__init__")
    table = {}
    defs = function_defs(init.node)
    for c in own_nodes(init.node):
        if isinstance(c, ast.Call) and ast.unparse(c.func) == "get_method" and len(c.args) >= 2:
            t = c.args[1]
            if isinstance(t, ast.Name) and len(defs.get(t.id, [])) == 1:
                t = defs[t.id][0]
            for k, v in dict_literal_entries(t) or []:
                r = model.resolve_expr(init.module, v)
                if isinstance(k, ast.Constant) and r and r[0] == "class":
                    table[k.value] = r[1]
    if set(table) != {"cspline", "simpson", "trapz"}:
        raise AnalysisError("C15-M: SQuad's method table is %s, expected cspline/simpson/trapz" % sorted(table))
    return sq, table


def _attrs_read(fi: FuncInfo) -> List[str]:
    return sorted({n.attr for n in ast.walk(fi.node) if isinstance(n, ast.Attribute) and isinstance(n.value, ast.Name) and n.value.id == "self"
                   and isinstance(n.ctx, ast.Load)})


def _contractions(model: Model, L: RuleResult, table: Dict[str, ClassInfo]):
    """cumsum and integrate of every sample-quadrature class are evaluated in index notation (domains/indexexpr.py) with y[c] and the
    matrices the class holds as atoms: integrate(y) must be the last entry of cumsum(y) as a polynomial identity - the same matrices,
    row -1, the same contraction - and in every term of cumsum the output position must be the ROW index of a weight matrix while y is
    summed against its column index.  `sum(y.unsqueeze(-2) * w, -1)`, `w @ y[..., None]`, einsum and matmul spellings are one form."""
    from ..domains import indexexpr as ix
    done = set()
    for name, cls in sorted(table.items()):
        cs, ig = cls.find_method("cumsum"), cls.find_method("integrate")
        if cs is None or ig is None:
            raise AnalysisError("C15-L: %s lacks cumsum/integrate" % cls.name)
        if cs.fq in done:
            continue
        done.add(cs.fq)
        cname = cs.cls.name if cs.cls else cls.name
        attrs = sorted(set(_attrs_read(cs)) | set(_attrs_read(ig)))
        vals = {}
        try:
            for fi in (cs, ig):
                me, yp = fi.params()[:2]
                env = {yp: ix.IX.atom("y", 1)}
                for a_ in attrs:
                    # the matrices built from the 1-D grid SQuad accepts have no batch axes (they are indexed from the left: self.wk[-1])
                    env["%s.%s" % (me, a_)] = ix.IX([("ax_%s_r" % a_), ("ax_%s_c" % a_)], [(ix.Fraction(1), ((a_, ("ax_%s_r" % a_, "ax_%s_c" % a_)),), frozenset())], False)
                ev = ix.IndexEval(env)
                ev.run(fi.node.body)
                if ev.returned is None:
                    raise ix.Unsupported("%s has no return value" % fi.qualname)
                vals[fi.name] = ev.returned
        except ix.Unsupported as e:
            L.undecided(cs, cs.node, "cannot interpret %s.cumsum / integrate in index notation: %s" % (cname, e))
            continue
        C_, I_ = vals["cumsum"], vals["integrate"]
        if len(C_.axes) != 1 or len(I_.axes) != 0:
            L.bad(cs if len(C_.axes) != 1 else ig, (cs if len(C_.axes) != 1 else ig).node, "%s: cumsum must keep the sample axis and integrate must remove it (cumsum axes %s, integrate axes %s)"
                  % (cname, C_.axes, I_.axes))
            continue
        L.ok(cs.fq, "%s.cumsum == %s" % (cname, C_.show()))
        last = ix.fix_axis(C_, -1, -1)
        if I_.same(last):
            L.ok(ig.fq, "%s.integrate reads exactly the matrices cumsum reads and equals cumsum[..., -1]: %s" % (cname, I_.show()))
            L.ok(ig.fq, "integrate takes row -1 (the last cumulative row) of the weights")
        else:
            L.bad(ig, ig.node, "integrate must contract y with the LAST ROW of the cumulative weights, exactly as cumsum does for its last entry: integrate == %s but "
                  "cumsum[..., -1] == %s (the last cumulative entry and the integral differ)" % (I_.show(), last.show()))
        # row / column roles in cumsum
        axes, terms = C_.canonical()
        bad_term = None
        for (fs, nsum), coef in terms:
            rows = [a_ for a_, idx in fs if a_.startswith("w") and len(idx) == 2 and idx[0] == "a0"]
            anywhere = [a_ for a_, idx in fs if "a0" in idx]
            ysum = [idx for a_, idx in fs if a_ == "y"]
            if len(rows) != 1 or len(anywhere) != 1 or not ysum or any(not (isinstance(i, str) and i.startswith("s")) for idx in ysum for i in idx):
                bad_term = (fs, coef)
        if bad_term is None:
            L.ok(cs.fq, "cumsum[r] contracts the column axis: in every term the output position is the row index of one weight matrix and y is summed")
        else:
            L.bad(cs, cs.node, "cumsum must contract the column axis of the weights with y (row r of W . y): term %s" % (bad_term,))


# ------------------------------------------------------------------------------------------ spline plumbing (C15-B)
def _spline_plumbing(model: Model, B: RuleResult):
    cls = model.cls(SQI, "CubicSplineSQuad")
    init, cs, ig = cls.find_method("__init__"), cls.find_method("cumsum"), cls.find_method("integrate")
    xp = init.params()[1]
    asg = {ast.unparse(s.targets[0]): s for s in own_nodes(init.node) if isinstance(s, ast.Assign)}
    defs = function_defs(init.node)

    def chase(e):
        d = 0
        while isinstance(e, ast.Name) and len(defs.get(e.id, [])) == 1 and d < 4:
            e = defs[e.id][0]
            d += 1
        return e
    sm = chase(asg["self.spline_mat"].value) if "self.spline_mat" in asg else None
    ok = (isinstance(sm, ast.Call) and ast.unparse(sm.func) == "_get_spline_mat_inv" and ast.unparse(sm.args[0]) == xp and
          ([ast.unparse(a) for a in sm.args[1:]] == ["bc_type"] or {k.arg: ast.unparse(k.value) for k in sm.keywords}.get("bc_type") == "bc_type"))
    if ok and "bc_type" in init.params() + init.kwonly():
        B.ok(init.fq, "the slope operator is _get_spline_mat_inv(x, bc_type) for the caller's bc_type")
    else:
        B.bad(init, asg.get("self.spline_mat", init.node), "the requested bc_type must reach _get_spline_mat_inv(x, bc_type=bc_type)")
    dflt = [d for a, d in zip(reversed(init.node.args.args), reversed(init.node.args.defaults)) if a.arg == "bc_type"]
    if dflt and isinstance(dflt[0], ast.Constant) and dflt[0].value == "natural":
        B.ok(init.fq, "default boundary condition of the spline quadrature is 'natural' (as documented for SQuad)")
    else:
        B.bad(init, init.node, "the default bc_type of CubicSplineSQuad changed")
    okw = ("self.wy" in asg and ast.unparse(asg["self.wy"].value) == "get_trapz_weights(%s)" % xp and
           "self.wk" in asg and ast.unparse(asg["self.wk"].value) == "get_cspline_grad_weights(%s)" % xp)
    if okw:
        B.ok(init.fq, "value weights = trapezoid weights, slope weights = spline-gradient weights, both of the same x")
    else:
        B.bad(init, init.node, "wy / wk must be get_trapz_weights(x) / get_cspline_grad_weights(x)")
    # slopes = spline_mat @ y in both methods; value part uses wy with y, slope part wk with ks: decided in index notation
    from ..domains import indexexpr as ix
    for fi in (cs, ig):
        me, yp = fi.params()[:2]
        env = {yp: ix.IX.atom("y", 1)}
        for a_ in ("wk", "wy", "spline_mat"):
            env["%s.%s" % (me, a_)] = ix.IX.atom(a_, 2, batched=False)
        ev = ix.IndexEval(env)
        spec = ix.IndexEval(env)
        try:
            ev.run(fi.node.body)
            spec.run(ast.parse("return (torch.matmul({s}.wk, torch.matmul({s}.spline_mat, {y}.unsqueeze(-1))) + torch.matmul({s}.wy, {y}.unsqueeze(-1))).squeeze(-1)"
                               .format(s=me, y=yp)).body)
        except ix.Unsupported as e:
            B.undecided(fi, fi.node, "cannot interpret CubicSplineSQuad.%s in index notation: %s" % (fi.name, e))
            continue
        want = spec.returned if fi is cs else ix.fix_axis(spec.returned, -1, -1)
        got = ev.returned
        if got is not None and got.same(want):
            B.ok(fi.fq, "%s = wk . (spline_mat @ y) + wy . y: slope weights act on the spline slopes of this y, value weights on y [%s]" % (fi.name, got.show()))
            B.ok(fi.fq, "%s returns the SUM of the value part and the slope part" % fi.name)
        else:
            B.bad(fi, fi.node, "%s must combine wk with the slopes spline_mat @ y and wy with y, and return value part + slope part: it is %s, expected %s"
                  % (fi.name, got.show() if got is not None else None, want.show()))


# ------------------------------------------------------------------------------------------ shape domain (C15-D, C15-R)
def _weight_shape(model: Model, cls: ClassInfo) -> Dict[str, Any]:
    """shapes of the instance attributes set in __init__ for a 1-D x of length nx (the only x SQuad accepts)"""
    out: Dict[str, Any] = {}
    # find the __init__ that sets attributes
    init = cls.find_method("__init__")
    si = ShapeInterp({init.params()[1]: T(("nx",))}, call_hook=lambda it, c: _builder_hook(model, cls, it, c))
    for k in init.params()[2:] + init.kwonly():
        si.env[k] = "opt:" + k
    if init.kwarg():
        si.env[init.kwarg()] = {}
    for s in init.node.body:
        if isinstance(s, ast.Assign) and len(s.targets) == 1:
            tg = s.targets[0]
            try:
                v = si.ev(s.value)
            except Uninterpretable as e:
                raise AnalysisError("C15-D: cannot determine the shape of `%s` in %s: %s" % (norm_stmt(s), init.fq, e))
            if isinstance(tg, ast.Name):
                si.env[tg.id] = v
            elif isinstance(tg, ast.Attribute) and isinstance(tg.value, ast.Name) and tg.value.id == "self":
                out[tg.attr] = v
        elif isinstance(s, ast.Expr) and isinstance(s.value, ast.Constant):
            continue
        else:
            raise AnalysisError("C15-D: unexpected statement in %s: %s" % (init.fq, norm_stmt(s)))
    return out


def _zeros_shape(model: Model, fi: FuncInfo, xshape) -> T:
    """shape of the matrix returned by a weight builder: the argument of its torch.zeros"""
    si = ShapeInterp({fi.params()[0]: T(xshape)})
    for s in fi.node.body:
        if isinstance(s, ast.Assign) and len(s.targets) == 1 and isinstance(s.targets[0], ast.Name):
            v = s.value
            if isinstance(v, ast.Call) and ast.unparse(v.func) == "torch.zeros":
                sh = si.ev(v.args[0])
                return T(tuple(sh))
            try:
                si.env[s.targets[0].id] = si.ev(v)
            except Uninterpretable:
                si.env[s.targets[0].id] = "?"
    raise Uninterpretable("no torch.zeros in %s" % fi.fq)


def _builder_hook(model: Model, cls: ClassInfo, it: ShapeInterp, c: ast.Call):
    fn = ast.unparse(c.func)
    if fn in ("get_trapz_weights", "get_simpson_weights", "get_cspline_grad_weights", "_get_spline_mat_inv"):
        mod = model.module(SQI) if fn != "_get_spline_mat_inv" else model.module(splinesys.I1D)
        fi = mod.functions[fn]
        x = it.ev(c.args[0])
        return _zeros_shape(model, fi, x.shape)
    if isinstance(c.func, ast.Attribute) and isinstance(c.func.value, ast.Name) and c.func.value.id == "self":
        m = cls.find_method(c.func.attr)
        if m is not None:
            # self.get_weights(x, **options): inline `return <builder>(x)`
            rets = [r for r in own_nodes(m.node) if isinstance(r, ast.Return)]
            if len(rets) == 1 and isinstance(rets[0].value, ast.Call):
                sub = ShapeInterp({m.params()[1]: it.ev(c.args[0])}, call_hook=lambda i2, c2: _builder_hook(model, cls, i2, c2))
                return sub.ev(rets[0].value)
    return None


def _dims(model: Model, D: RuleResult, Rj: RuleResult, sq: ClassInfo, table: Dict[str, ClassInfo], tier: str):
    maxrank = 4 if tier == "quick" else 6
    cum, integ = sq.find_method("cumsum"), sq.find_method("integrate")
    n_cfg = 0
    n_bad = 0
    samples = []
    attr_shapes = {}
    for name, cls in table.items():
        attr_shapes[name] = _weight_shape(model, cls)
    for name, cls in sorted(table.items()):
        for meth in (cum, integ):
            inner = cls.find_method(meth.name)
            for rank in range(1, maxrank + 1):
                for dim in range(-rank, rank):
                    for keepdim in ((False, True) if meth is integ else (None,)):
                        for mismatch in (False, True):
                            shape = ["d%d" % k for k in range(rank)]
                            ax = dim % rank
                            shape[ax] = "m" if mismatch else "nx"
                            env = {meth.params()[1]: T(shape), "dim": dim}
                            if keepdim is not None:
                                env["keepdim"] = keepdim

                            def hook(it, c, cls=cls, inner=inner, name=name):
                                f = c.func
                                if isinstance(f, ast.Attribute) and ast.unparse(f.value) == "self.obj" and f.attr == inner.name:
                                    arg = it.ev(c.args[0])
                                    sub = ShapeInterp({inner.params()[1]: arg}, self_attrs=attr_shapes[name])
                                    r = sub.run(inner.node.body)
                                    if r is None:
                                        raise Uninterpretable("%s does not return" % inner.fq)
                                    return r[1]
                                return None
                            si = ShapeInterp(env, self_attrs={"nx": "nx"}, call_hook=hook)
                            n_cfg += 1
                            try:
                                r = si.run(meth.node.body)
                                outcome = ("shape", tuple(r[1].shape)) if r and isinstance(r[1], T) else ("?", r)
                            except Raised:
                                outcome = ("raise", None)
                            except ShapeError as e:
                                # a definite run-time shape error in torch (e.g. a mismatching length that slipped past the check)
                                outcome = ("error: " + str(e), None)
                            except Uninterpretable as e:
                                if mismatch:
                                    outcome = ("error: " + str(e), None)
                                else:
                                    raise AnalysisError("C15-D: cannot interpret %s.%s for y%s dim=%d: %s" % (name, meth.name, tuple(shape), dim, e))
                            if mismatch:
                                exp = ("raise", None)
                            elif meth is cum:
                                exp = ("shape", tuple(shape))
                            elif keepdim:
                                exp = ("shape", tuple(shape[:ax] + [1] + shape[ax + 1:]))
                            else:
                                exp = ("shape", tuple(shape[:ax] + shape[ax + 1:]))
                            cfg = "method=%s %s(y%s, dim=%d%s)" % (name, meth.name, tuple(shape), dim, "" if keepdim is None else ", keepdim=%s" % keepdim)
                            if outcome == exp:
                                if len(samples) < 6 and rank >= 3:
                                    samples.append("%s -> %s" % (cfg, outcome[1] if outcome[0] == "shape" else "raises"))
                            else:
                                n_bad += 1
                                rule = Rj if mismatch else D
                                if n_bad <= 4:
                                    rule.bad(meth, meth.node, "%s gives %s, expected %s" % (cfg, outcome[1] if outcome[0] == "shape" else outcome[0], exp[1] if exp[0] == "shape" else "a RuntimeError"),
                                             what=cfg)
    if n_bad == 0:
        D.ok(cum.fq, "cumsum keeps the shape of y for every method, rank <= %d, every dim (inner method bodies inlined)" % maxrank)
        D.ok(integ.fq, "integrate removes (keepdim=False) or shrinks to 1 (keepdim=True) exactly the integrated axis; other axes stay in place")
        Rj.ok(cum.fq, "cumsum: a length that differs from nx raises for every rank and dim")
        Rj.ok(integ.fq, "integrate: a length that differs from nx raises for every rank, dim and keepdim")
        for s in samples[:4]:
            D.ok(integ.fq, s)
    D.note("%d (method, operation, rank, dim, keepdim, match/mismatch) configurations enumerated exhaustively" % n_cfg)
    # rejection dominance on the CFG as well (structure, independent of the enumeration)
    for meth in (cum, integ):
        cfg = CFG(meth.node)
        dom = cfg.dominators(skip_exc=True)
        chk = [s for s in meth.node.body if isinstance(s, ast.If) and any(isinstance(r, ast.Raise) for r in s.body) and "self.nx" in ast.unparse(s.test)]
        dele = [s for s in ast.walk(meth.node) if isinstance(s, ast.stmt) and not isinstance(s, (ast.FunctionDef, ast.If)) and "self.obj." in ast.unparse(s)]
        if chk and dele and all(stmt_dominates(cfg, dom, chk[0], d) for d in dele):
            Rj.ok(meth.fq, "the length test dominates the delegate call in %s" % meth.name)
        else:
            Rj.bad(meth, dele[0] if dele else meth.node, "the delegate is called on a path that skips the length test")
    return n_cfg


def rules(model: Model, tier: str) -> List[RuleResult]:
    W = RuleResult(PROP, "C15-W", "per-interval weights == exact integrals of the interpolant (Hermite / Lagrange parabola), cumulative over rows >= i", min_instances=3)
    Z = RuleResult(PROP, "C15-0", "no store reaches row 0 of the cumulative weights (first entry zero)", min_instances=3)
    L = RuleResult(PROP, "C15-L", "integrate == last cumulative row: same matrices, row -1, same contraction", min_instances=8)
    D = RuleResult(PROP, "C15-D", "dimension handling, exhaustive over method x rank x dim x keepdim in the shape domain", min_instances=2)
    Rj = RuleResult(PROP, "C15-R", "length mismatch is rejected before any delegate call", min_instances=4)
    B = RuleResult(PROP, "C15-B", "spline quadrature: bc_type forwarded, slopes = spline_mat @ y, slope system is the C2/boundary system", min_instances=14)
    M = RuleResult(PROP, "C15-M", "method table and validation of x", min_instances=2)
    sq, table = _squad_classes(model)
    M.ok(sq.fq, "methods: %s" % {k: v.name for k, v in sorted(table.items())})
    init = sq.find_method("__init__")
    src = ast.unparse(init.node)
    chk = [s for s in init.node.body if isinstance(s, ast.If) and any(isinstance(r, ast.Raise) for r in s.body)]
    xp = init.params()[1]
    if any("len(%s.shape) == 1" % xp in ast.unparse(s.test) for s in chk) and "self.nx = %s.shape[-1]" % xp in src and "self.obj = clss(%s, **fwd_options)" % xp in src.replace("  ", " "):
        M.ok(init.fq, "x must be a 1-D tensor; nx is its length; the implementation receives x and the method options")
    else:
        M.bad(init, init.node, "SQuad.__init__ must reject non-1D x, record nx = x.shape[-1] and build the implementation with (x, **fwd_options)")
    # wiring of each class to its builder
    wired = {"trapz": "get_trapz_weights", "simpson": "get_simpson_weights"}
    for k, b in wired.items():
        gw = table[k].find_method("get_weights")
        rets = [r for r in own_nodes(gw.node) if isinstance(r, ast.Return)] if gw else []
        if rets and ast.unparse(rets[0].value) == "%s(%s)" % (b, gw.params()[1]):
            M.ok(gw.fq, "%s -> %s(x)" % (k, b))
        else:
            M.bad(gw or sq, (gw or sq).node, "method %s must build its weights with %s(x)" % (k, b))
    _weights(model, W, Z, tier)
    _contractions(model, L, table)
    _spline_plumbing(model, B)
    splinesys.check_slope_system(model, B, PROP, "C15-B", hermite)
    n_cfg = _dims(model, D, Rj, sq, table, tier)
    rules.extra_coverage = dict(shape_configurations=n_cfg, exhaustive=True,
                                exhaustive_note="all (method, operation, rank<=%d, dim, keepdim, match/mismatch) configurations of the shape domain" % (4 if tier == "quick" else 6))
    return [W, Z, L, D, Rj, B, M]
