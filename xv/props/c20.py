"""C20 -- Packer round-trips any nested structure, preserving aliasing and its input (structural part)."""
from __future__ import annotations
import ast
from typing import List, Tuple, Optional
from ..model import Model, FuncInfo, own_nodes, norm_stmt, AnalysisError, AnchorError, enclosing_stmt
from ..report import RuleResult
from ..cfg import CFG
from ..flow import function_defs, names_loaded, reaching_definitions

PROP = "C20"
LEVEL = "other"
EXPLANATION = (
    "Decided from xitorch/_core/packer.py: (T) traversal agreement - an abstract run (no code is executed; the statements are "
    "interpreted over abstract lists / dicts / objects / tensor tokens, recursion followed) of _extract_tensors and _put_tensors over a "
    "nested list / dict / object / tuple: every tensor is extracted once and the position that held the j-th extracted tensor is "
    "refilled with the j-th new one, non-tensor leaves are untouched, the list is consumed (fall-back when a body is outside the "
    "interpreter's vocabulary: the two ordered case lists and iteration sources are compared); (F) fresh-copy effects - the mutating _put_tensors is only applied to a value whose every reaching definition "
    "is deepcopy(self._obj, <fresh copy of the tensor memo>), its list argument is a fresh list on every path, __init__ deep-copies "
    "the caller's object, and construct_* contain no store into self; (R) rejection dominance - wrong lengths / shapes / element "
    "counts raise before any refill; (I) identity de-duplication - abstract run of _get_unique_idxs over "
    "[T0, T1, T0, T2, T1] gives ([0, 1, 3], [0, 1, 0, 2, 1]) and the inverse map is applied before refilling (aliased positions "
    "stay aliased). (T2) containers that are both a list / dict and an object with an instance dictionary are traversed through the same view by both functions; NOT decided: exhaustive structure / aliasing enumeration, tuple handling.")
ASSUMPTIONS = ["copy.deepcopy with a memo that maps id(t)->t shares exactly those tensors and copies everything else"]

PACK = "xitorch/_core/packer.py"


def rules(model: Model, tier: str) -> List[RuleResult]:
    T = RuleResult(PROP, "C20-T", "traversal agreement of _extract_tensors and _put_tensors", min_instances=4)
    F = RuleResult(PROP, "C20-F", "fresh-copy effects: refill only on fresh deep copies, fresh tensor list, no store into self", min_instances=6)
    Rj = RuleResult(PROP, "C20-R", "rejection dominance: length / shape / numel checks raise before any refill", min_instances=3)
    I = RuleResult(PROP, "C20-I", "identity-based de-duplication and inverse map", min_instances=3)
    _traversal(model, T)
    _cache_separation(model, F)
    _fresh(model, F)
    _reject(model, Rj)
    _identity(model, I)
    return [T, F, Rj, I]


def _cases(f: FuncInfo) -> List[Tuple[str, str]]:
    """[(case kind, iteration source)] of the top-level if/elif chain over the first parameter"""
    p = f.params()[0]
    chains = [s for s in f.node.body if isinstance(s, ast.If)]
    if not chains:
        raise AnalysisError("%s: no type-case chain" % f.fq)
    out = []
    for node in chains:
        t0 = node.test
        is_case = isinstance(t0, ast.Call) and isinstance(t0.func, ast.Name) and t0.func.id in ("isinstance", "hasattr") and ast.unparse(t0.args[0]) == p
        if not is_case:
            # a guard that is not a type case of the traversed value (e.g. a visited-set test with an early return): recorded as a skip condition
            if any(isinstance(x, (ast.Return, ast.Continue)) for x in node.body):
                out.append(("skip:" + ast.unparse(t0), ""))
            continue
        out += _chain_cases(node, p)
    return out


def _chain_cases(node, p):
    out = []
    while True:
        t = node.test
        kind = None
        if isinstance(t, ast.Call) and isinstance(t.func, ast.Name) and t.func.id == "isinstance" and ast.unparse(t.args[0]) == p:
            kind = ast.unparse(t.args[1])
        elif isinstance(t, ast.Call) and isinstance(t.func, ast.Name) and t.func.id == "hasattr" and ast.unparse(t.args[0]) == p:
            kind = "hasattr:" + ast.unparse(t.args[1])
        else:
            kind = "?" + ast.unparse(t)
        loops = [x for x in node.body if isinstance(x, ast.For)]
        it = ""
        if loops:
            src = loops[0].iter
            # normalise: enumerate(b) -> b ; b.items()/b.values() -> b(values) ; b.__dict__.items()/values() -> b.__dict__(values)
            if isinstance(src, ast.Call) and isinstance(src.func, ast.Name) and src.func.id == "enumerate":
                it = ast.unparse(src.args[0])
            elif isinstance(src, ast.Call) and isinstance(src.func, ast.Attribute) and src.func.attr in ("items", "values"):
                it = ast.unparse(src.func.value) + ".values"
            elif isinstance(src, ast.Call) and isinstance(src.func, ast.Name) and src.func.id in ("reversed", "sorted"):
                it = src.func.id + ":" + ast.unparse(src.args[0])
            else:
                it = ast.unparse(src)
        out.append((kind, it))
        if len(node.orelse) == 1 and isinstance(node.orelse[0], ast.If):
            node = node.orelse[0]
        else:
            if node.orelse:
                out.append(("else", ""))
            break
    return out


def _roundtrip_semantic(model: Model, ex: FuncInfo, pu: FuncInfo):
    """abstract run (domains/kinds.py, recursion followed) of extraction and refill over one nested object -
    [T0, {a: T1, b: [T2, <object x=T3, n=3>]}, 7, (T9,)] - : extraction must list the tensors depth first in container order and the
    refill of N0..N3 must put N_i exactly where T_i was, consuming the whole list.  Returns True, a message, or None when the bodies
    are outside the interpreter's vocabulary (the structural comparison of the two case chains decides then)."""
    from ..domains.kinds import AObj, KindInterp
    from ..domains.dictsem import Unsupported, Raised, _Return, Tok, ADict
    mod = model.module(PACK)
    functions = {n_: f_.node for n_, f_ in mod.functions.items() if f_.parent is None and f_.cls is None}

    def build(prefix):
        # insertion orders differ from the sorted orders of the keys / attribute names on purpose
        t = [Tok("%s%d" % (prefix, i), is_tensor=True) for i in range(6)]
        outside = Tok("%s9" % prefix, is_tensor=True)
        o = AObj("object", ("SomeClass",))
        o.attrs["__dict__"] = ADict({"z": t[3], "n": 3, "a": t[4]}, "object.__dict__")
        root = [t[0], ADict({"b": t[1], "a": [t[2], o]}, "dict"), 7, (outside,), t[5]]
        return root, t, o, outside

    def run(fi, args):
        it = KindInterp(dict(zip(fi.params(), args)))
        it.functions = functions
        try:
            it.run(fi.node.body)
        except _Return as r:
            return r.v
        return None
    try:
        root, t, o, outside = build("T")
        got = run(ex, [root])
        if not (isinstance(got, list) and len(got) == 6 and all(any(x is y for y in t) for x in got) and len({id(x) for x in got}) == 6):
            return "extraction of [T0, {b: T1, a: [T2, <object z=T3, n=3, a=T4>]}, 7, (T9,), T5] gives %r instead of T0 .. T5 once each" % (got,)
        new = [Tok("N%d" % i, is_tensor=True) for i in range(6)]
        feed = list(new)
        out = run(pu, [root, feed])
        if out is None:
            out = root
        try:
            after = [out[0], out[1].data["b"], out[1].data["a"][0], o.attrs["__dict__"].data["z"], o.attrs["__dict__"].data["a"], out[4]]
            intact = out[1].data["a"][1] is o and o.attrs["__dict__"].data.get("n") == 3 and out[2] == 7 and isinstance(out[3], tuple) and out[3][0] is outside
        except (KeyError, IndexError, AttributeError, TypeError):
            return "refilling N0..N5 destroys the structure of the object: %r" % (out,)
        # whatever order the extraction uses, the tensor extracted as number j must be replaced by the j-th new tensor
        wrong = [k for k in range(6) if after[k] is not new[[j for j in range(6) if got[j] is t[k]][0]]]
        if wrong or not intact:
            return "refilling N0..N5 gives %r (object.__dict__ = %r): the position that held the j-th extracted tensor does not receive the j-th new one" \
                % (out, o.attrs["__dict__"].data)
        if feed:
            return "the refill leaves %r unconsumed" % (feed,)
        # second probe: instances of subclasses of list / dict (an OrderedDict, `class Bag(list)`) are containers AND objects with an
        # instance dictionary; whichever view the traversals take, they must take the same one
        from ..domains.kinds import HeapList, HeapDict
        s0, s1, s2, s3 = (Tok("S%d" % i, is_tensor=True) for i in range(4))
        bag = HeapList([s0, 5])
        bag.xv_dict = ADict({"tag": 1, "w": s1}, "Bag.__dict__")
        od = HeapDict({"q": s2}, "OrderedDict")
        od.xv_dict = ADict({"name": "cfg", "v": s3}, "OrderedDict.__dict__")
        root2 = [bag, od]
        got2 = run(ex, [root2])
        if not isinstance(got2, list) or len({id(x) for x in got2}) != len(got2) or not all(any(x is y for y in (s0, s1, s2, s3)) for x in got2):
            return "extraction of [<list subclass [S0, 5] with __dict__ {tag: 1, w: S1}>, <dict subclass {q: S2} with __dict__ {name: .., v: S3}>] gives %r" % (got2,)
        new2 = [Tok("M%d" % i, is_tensor=True) for i in range(len(got2))]
        feed2 = list(new2)
        out2 = run(pu, [root2, feed2])
        if out2 is None:
            out2 = root2
        slots = {id(s0): lambda: bag[0], id(s1): lambda: bag.xv_dict.data["w"], id(s2): lambda: od.data["q"], id(s3): lambda: od.xv_dict.data["v"]}
        try:
            for tok_ in (s0, s1, s2, s3):
                now = slots[id(tok_)]()
                js = [j for j, g in enumerate(got2) if g is tok_]
                want = new2[js[0]] if js else tok_
                if now is not want:
                    return "containers that are both a list / dict and an object with an instance dictionary (subclasses of list / dict, OrderedDict): " \
                           "extraction lists %r, the refill leaves %r where %r was (expected %r): the two traversals test the kinds in a different order" % (got2, now, tok_, want)
        except (KeyError, IndexError, AttributeError, TypeError):
            return "refilling destroys a subclass-of-list / subclass-of-dict container: %r" % (out2,)
        if feed2:
            return "the refill of a structure with subclass containers leaves %r unconsumed (extraction listed %r)" % (feed2, got2)
    except Unsupported:
        return None
    except Raised as e:
        return "the extraction / refill pair raises on a nested object: %s" % e
    return True


def _traversal(model: Model, T: RuleResult):
    ex = model.func(PACK, "_extract_tensors")
    pu = model.func(PACK, "_put_tensors")
    sem = _roundtrip_semantic(model, ex, pu)
    if sem is True:
        for k in range(5):
            T.ok(PACK, ["abstract round trip over a nested list / dict / object / tuple: extraction lists the tensors depth first in container order",
                        "refill puts the i-th new tensor where the i-th extracted tensor was (list, dict, object attribute)",
                        "non-tensor leaves and containers the traversal does not enter (tuple) are left alone by both",
                        "the refill consumes the list from the front and completely",
                        "extraction and refill agree on every case of the traversal (semantic comparison)"][k])
        return
    if isinstance(sem, str):
        T.bad(pu, pu.node, "extraction and refill disagree: %s" % sem)
        return
    ce, cp = _cases(ex), _cases(pu)
    # rename the parameter to a common symbol
    pe, pp = ex.params()[0], pu.params()[0]
    ce = [(k, it.replace(pe, "$")) for k, it in ce]
    cp = [(k, it.replace(pp, "$")) for k, it in cp]
    n = max(len(ce), len(cp))
    for i in range(n):
        a = ce[i] if i < len(ce) else None
        b = cp[i] if i < len(cp) else None
        what = "case %d: extract %s / refill %s" % (i, a, b)
        if a == b:
            T.ok(PACK, what)
        else:
            T.bad(pu if b else ex, (pu if b else ex).node, "extraction and refill disagree on case %d (%s vs %s): position i would no longer "
                  "receive the i-th tensor" % (i, a, b), what=what)
    # refill consumes from the front, extraction appends at the back
    pops = [c for c in own_nodes(pu.node) if isinstance(c, ast.Call) and isinstance(c.func, ast.Attribute) and c.func.attr == "pop"]
    if len(pops) == 1 and [ast.unparse(a) for a in pops[0].args] == ["0"]:
        T.ok(pu.fq, "refill consumes the list from the front (pop(0)) - same order as extraction appends")
    else:
        T.bad(pu, pu.node, "refill must consume the tensors from the front of the list (pop(0))")


def _cache_separation(model: Model, F: RuleResult):
    """The Packer keeps two sets of cached shapes / sizes - for the unique listing (`self._unique_*`) and for the full one - and the
    construct_* methods pick one by their `unique` argument.  Every store into a cache of one flavour must happen only on the path of
    that flavour (under `unique` resp. `not unique`): a store on the common path lets one listing overwrite the other's record, after
    which a legal list of the other flavour is rejected (or an illegal one accepted) depending on the history of calls."""
    from ..model import effective_conditions
    cls = model.cls(PACK, "Packer")
    n = 0
    for m in cls.methods.values():
        if "unique" not in m.all_params() or m.name.startswith("construct"):
            continue
        me = m.params()[0]
        for st in own_nodes(m.node):
            if not isinstance(st, ast.Assign):
                continue
            for t in st.targets:
                for e in (t.elts if isinstance(t, ast.Tuple) else [t]):
                    if isinstance(e, ast.Attribute) and isinstance(e.value, ast.Name) and e.value.id == me and ("tensor_shapes" in e.attr or "tensor_numel" in e.attr):
                        want = e.attr.startswith("_unique")
                        conds = effective_conditions(st)
                        n += 1
                        if ("unique", want) in conds:
                            F.ok(m.fq, "self.%s is recorded only on the %s path" % (e.attr, "unique" if want else "non-unique"))
                        else:
                            F.bad(m, st, "self.%s (the record of the %s listing) is written on a path that the %s listing also takes: one listing overwrites the "
                                  "other's cached shapes, and construct_*(unique=%s) then judges its input against the wrong record" %
                                  (e.attr, "unique" if want else "full", "full" if want else "unique", want))
    if n == 0:
        F.undecided(cls.fq, cls.node, "cannot find the stores of the cached shapes / sizes of the Packer")


def _fresh(model: Model, F: RuleResult):
    init = model.func(PACK, "Packer.__init__")
    src = ast.unparse(init.node)
    objp = init.params()[1]
    ok_obj = any(isinstance(s, ast.Assign) and isinstance(s.targets[0], ast.Attribute) and s.targets[0].attr == "_obj"
                 and isinstance(s.value, ast.Call) and ast.unparse(s.value.func).split(".")[-1] == "deepcopy"
                 and s.value.args and ast.unparse(s.value.args[0]) == objp for s in own_nodes(init.node))
    if ok_obj:
        F.ok(init.fq, "__init__ keeps a deep copy of the caller's object (self._obj = deepcopy(%s, memo))" % objp)
    else:
        F.bad(init, init.node, "__init__ must keep a deep copy of the caller's object, not the object itself")
    # deepcopy writes every container it copies into its memo: the dict kept as self._tensor_memo must never be the dict handed to deepcopy
    from ..flow import origins
    defs_i = function_defs(init.node)
    memo_asg = [s for s in own_nodes(init.node) if isinstance(s, ast.Assign) and isinstance(s.targets[0], ast.Attribute) and s.targets[0].attr == "_tensor_memo"]
    dcs = [c for c in own_nodes(init.node) if isinstance(c, ast.Call) and ast.unparse(c.func).split(".")[-1] == "deepcopy" and len(c.args) >= 2]
    kept = [o for s in memo_asg for o in origins(s.value, defs_i)]
    shared = [c for c in dcs if ast.unparse(c.args[1]).endswith("._tensor_memo") or any(x is y for x in kept for y in origins(c.args[1], defs_i))]
    if memo_asg and kept and not shared:
        F.ok(init.fq, "the tensor memo kept on the Packer is not the dict deepcopy fills (kept: %s)" % sorted({ast.unparse(o)[:40] for o in kept}))
    else:
        F.bad(init, enclosing_stmt(shared[0]) if shared else init.node, "self._tensor_memo must be a copy of the memo taken before deepcopy adds the copied containers to it")

    cl = model.func(PACK, "Packer.construct_from_tensor_list")
    cfg = CFG(cl.node)
    IN = reaching_definitions(cfg, cl.all_params())
    calls = [c for c in own_nodes(cl.node) if isinstance(c, ast.Call) and isinstance(c.func, ast.Name) and c.func.id == "_put_tensors"]
    if not calls:
        raise AnchorError("construct_from_tensor_list no longer calls _put_tensors")
    for c in calls:
        st = enclosing_stmt(c)
        nodes = cfg.nodes_of(st)
        a0, a1 = c.args[0], c.args[1]
        d0 = set()
        d1 = set()
        for nd in nodes:
            if isinstance(a0, ast.Name):
                d0 |= set(IN[nd.id].get(a0.id, ()))
            if isinstance(a1, ast.Name):
                d1 |= set(IN[nd.id].get(a1.id, ()))

        def is_deepcopy_of_obj(e) -> bool:
            if not (isinstance(e, ast.Call) and ast.unparse(e.func).split(".")[-1] == "deepcopy" and len(e.args) == 2):
                return False
            if ast.unparse(e.args[0]) != "self._obj":
                return False
            m = e.args[1]
            # memo must be a fresh copy of self._tensor_memo
            if isinstance(m, ast.Name):
                md = set()
                for nd in nodes:
                    md |= set(IN[nd.id].get(m.id, ()))
                return bool(md) and all(isinstance(x, ast.Call) and ast.unparse(x.func).split(".")[-1] in ("copy", "dict")
                                        and x.args and ast.unparse(x.args[0]) == "self._tensor_memo" for x in md)
            return isinstance(m, ast.Call) and ast.unparse(m.func).split(".")[-1] in ("copy", "dict") and m.args and ast.unparse(m.args[0]) == "self._tensor_memo"
        what = "_put_tensors(%s, %s): reaching definitions %s" % (ast.unparse(a0), ast.unparse(a1), sorted(norm_stmt(d, 50) if d != "param" else "param" for d in d0))
        if d0 and all(d != "param" and is_deepcopy_of_obj(d) for d in d0):
            F.ok(cl.fq, "the structure that is refilled is a fresh deepcopy(self._obj, copy(self._tensor_memo))")
        else:
            F.bad(cl, st, "the mutating refill must only be applied to a fresh deep copy of self._obj made with a fresh copy of the tensor memo "
                  "(otherwise the Packer or an earlier result is modified)", what=what)

        def fresh_list(e) -> bool:
            return isinstance(e, ast.ListComp) or (isinstance(e, ast.Call) and ast.unparse(e.func).split(".")[-1] in ("copy", "list"))
        what = "tensor list reaching definitions %s" % sorted(norm_stmt(d, 50) if d != "param" else "param" for d in d1)
        if d1 and all(d != "param" and fresh_list(d) for d in d1):
            F.ok(cl.fq, "the list consumed by the refill is a fresh list on every path (the caller's list is preserved)")
        else:
            F.bad(cl, st, "the refill pops from its list argument: it must be a fresh list on every path, not the caller's list", what=what)
    for q in ("Packer.construct_from_tensor_list", "Packer.construct_from_tensor"):
        f = model.func(PACK, q)
        stores = []
        for s in own_nodes(f.node):
            tg = []
            if isinstance(s, ast.Assign):
                tg = s.targets
            elif isinstance(s, (ast.AugAssign, ast.AnnAssign)):
                tg = [s.target]
            for t in tg:
                base = t
                while isinstance(base, (ast.Attribute, ast.Subscript)):
                    base = base.value
                if isinstance(base, ast.Name) and base.id == "self" and not isinstance(t, ast.Name):
                    stores.append(s)
            if isinstance(s, ast.Call) and isinstance(s.func, ast.Attribute) and s.func.attr in ("append", "pop", "update", "clear", "extend", "insert", "remove", "setdefault"):
                base = s.func.value
                while isinstance(base, (ast.Attribute, ast.Subscript)):
                    base = base.value
                if isinstance(base, ast.Name) and base.id == "self":
                    stores.append(enclosing_stmt(s))
        if stores:
            F.bad(f, stores[0], "%s modifies the Packer (store into self)" % q)
        else:
            F.ok(f.fq, "%s contains no store into self" % q)


def _reject(model: Model, Rj: RuleResult):
    cl = model.func(PACK, "Packer.construct_from_tensor_list")
    cfg = CFG(cl.node)
    dom = cfg.dominators(skip_exc=True)
    puts = [n for n in cfg.nodes if n.stmt is not None and n.kind in ("stmt", "return") and isinstance(n.stmt, (ast.Assign, ast.Return, ast.Expr))
            and any(isinstance(c, ast.Call) and ast.unparse(c.func).split(".")[-1] == "_put_tensors" for c in ast.walk(n.stmt))]
    if not puts:
        raise AnchorError("no refill statement")

    def raising_ifs(pred):
        return [i for i in own_nodes(cl.node) if isinstance(i, ast.If) and i.body and isinstance(i.body[-1], ast.Raise) and pred(ast.unparse(i.test))]
    len_chk = raising_ifs(lambda t: "len(" in t and "!=" in t and "tensors" in t)
    shp_chk = raising_ifs(lambda t: ".shape !=" in t or "!= shape" in t)
    for name, chk in (("length", len_chk), ("shape", shp_chk)):
        if not chk:
            Rj.bad(cl, cl.node, "the %s check raising RuntimeError vanished" % name)
            continue
        ids = {n.id for c in chk for n in cfg.nodes_of(c)}
        # for the shape check inside a loop: the loop header must dominate the refill
        from ..model import ancestors
        for c in chk:
            for a in ancestors(c):
                if isinstance(a, ast.For):
                    ids |= {n.id for n in cfg.nodes_of(a)}
        if all(dom.get(p.id, set()) & ids for p in puts):
            Rj.ok(cl.fq, "%s check dominates the refill" % name)
        else:
            Rj.bad(cl, puts[0].stmt, "the refill is reachable without the %s check" % name)
    ct = model.func(PACK, "Packer.construct_from_tensor")
    cfg2 = CFG(ct.node)
    dom2 = cfg2.dominators(skip_exc=True)
    chk = [i for i in own_nodes(ct.node) if isinstance(i, ast.If) and i.body and isinstance(i.body[-1], ast.Raise) and "numel(" in ast.unparse(i.test) and "!=" in ast.unparse(i.test)]
    uses = [n for n in cfg2.nodes if n.stmt is not None and n.kind in ("stmt", "return") and "construct_from_tensor_list(" in ast.unparse(n.stmt)]
    if chk and uses and all(dom2.get(u.id, set()) & {n.id for c in chk for n in cfg2.nodes_of(c)} for u in uses):
        Rj.ok(ct.fq, "element-count check dominates the split and reconstruction")
    else:
        Rj.bad(ct, ct.node, "the flat tensor is split without checking its number of elements first")


def _identity(model: Model, I: RuleResult):
    f = model.func(PACK, "_get_unique_idxs")
    p = f.params()[0]
    defs = function_defs(f.node)
    # abstract run over [T0, T1, T0, T2, T1] (T0 and T1 each listed twice: the same object): unique positions [0, 1, 3] and the
    # inverse map [0, 1, 0, 2, 1]; two *different* tensors are never merged because every Tok is its own object
    from ..domains.kinds import KindInterp
    from ..domains.dictsem import Unsupported as _DU, Raised as _DR, _Return as _DRet, Tok
    sem = None
    tk = [Tok("T0", is_tensor=True), Tok("T1", is_tensor=True), Tok("T2", is_tensor=True)]
    it = KindInterp({p: [tk[0], tk[1], tk[0], tk[2], tk[1]]})
    try:
        try:
            it.run(f.node.body)
            ret = None
        except _DRet as r_:
            ret = r_.v
        if isinstance(ret, (tuple, list)) and len(ret) == 2 and list(ret[0]) == [0, 1, 3] and list(ret[1]) == [0, 1, 0, 2, 1]:
            sem = True
        else:
            sem = "tensors [T0, T1, T0, T2, T1] give %r instead of ([0, 1, 3], [0, 1, 0, 2, 1])" % (ret,)
    except _DU:
        sem = None
    except _DR as e_:
        sem = "raises %s" % e_
    if sem is True:
        I.ok(f.fq, "uniqueness is keyed on id(<tensor>) (object identity) [abstract run: ([0, 1, 3], [0, 1, 0, 2, 1])]")
        I.ok(f.fq, "a new identity is numbered by its position in the unique list")
    elif isinstance(sem, str):
        I.bad(f, f.node, "uniqueness must be keyed on object identity id(): any other key merges distinct tensors or separates aliased ones [%s]" % sem)
    loops = [n for n in own_nodes(f.node) if isinstance(n, ast.For)] if sem is None else []
    ok = False
    if loops:
        lp = loops[0]
        tests = [i for i in lp.body if isinstance(i, ast.If) and isinstance(i.test, ast.Compare) and isinstance(i.test.ops[0], ast.In)]
        if tests and isinstance(tests[0].test.left, ast.Name):
            key = tests[0].test.left.id
            # key comes from iterating a list of id(..) or is id(elmt)
            srcs = []
            if isinstance(lp.iter, ast.Call) and ast.unparse(lp.iter.func) == "enumerate" and isinstance(lp.iter.args[0], ast.Name):
                for d in defs.get(lp.iter.args[0].id, []):
                    if isinstance(d, ast.ListComp):
                        srcs.append(d.elt)
            for d in defs.get(key, []):
                srcs.append(d)
            ok = any(isinstance(s, ast.Call) and isinstance(s.func, ast.Name) and s.func.id == "id" for s in srcs)
    if sem is None:
        if ok:
            I.ok(f.fq, "uniqueness is keyed on id(<tensor>) (object identity)")
        else:
            I.bad(f, f.node, "uniqueness must be keyed on object identity id(): any other key merges distinct tensors or separates aliased ones")
        # first occurrence wins and the inverse refers to the position in the unique list
        src = ast.unparse(f.node)
        if "len(unique_idxs)" in src or "len(%s)" % "unique_idxs" in src:
            I.ok(f.fq, "a new identity is numbered by its position in the unique list")
        else:
            I.bad(f, f.node, "the inverse map must number identities by their position in the unique list")
    cl = model.func(PACK, "Packer.construct_from_tensor_list")
    # abstract run of the re-expansion: unique tensors [T0, T1, T2] with inverse map [0, 1, 0, 2, 1] must become [T0, T1, T0, T2, T1]
    from ..domains.dictsem import DictInterp, Unsupported as _DU, Raised as _DR, Tok
    from ..model import parent as _parent
    tp = cl.params()[1]
    exp = [s_ for s_ in own_nodes(cl.node) if isinstance(s_, ast.Assign) and "_unique_inverse_idxs" in ast.unparse(s_.value)
           and any(isinstance(t, ast.Name) for t in s_.targets)]
    if not exp:
        I.bad(cl, cl.node, "the unique tensor list must be re-expanded with the inverse index map before refilling")
    else:
        st = exp[-1]
        blk = None
        par = _parent(st)
        for fld in ("body", "orelse", "finalbody"):
            bl = getattr(par, fld, None)
            if isinstance(bl, list) and any(x is st for x in bl):
                blk = bl[:[i for i, x in enumerate(bl) if x is st][0] + 1]
        toks = [Tok("T0", is_tensor=True), Tok("T1", is_tensor=True), Tok("T2", is_tensor=True)]
        inv = [0, 1, 0, 2, 1]
        it = DictInterp({tp: list(toks), "%s._unique_inverse_idxs" % cl.params()[0]: list(inv)})
        try:
            it.run([x for x in (blk or [st]) if not isinstance(x, ast.Assert)])
            got = it.env.get(st.targets[0].id if isinstance(st.targets[0], ast.Name) else tp)
            want = [toks[i] for i in inv]
            if isinstance(got, (list, tuple)) and len(got) == len(want) and all(x is y for x, y in zip(got, want)):
                I.ok(cl.fq, "unique tensors are re-expanded through the inverse map before refilling: %s [abstract run: inverse map %s]" % (norm_stmt(st, 90), inv))
            else:
                I.bad(cl, st, "the unique tensor list must be re-expanded with the inverse index map before refilling: unique [T0, T1, T2] with inverse map %s gives %r" % (inv, got))
        except _DU as e:
            I.undecided(cl, st, "cannot interpret the re-expansion of the unique tensor list: %s" % e)
        except _DR as e:
            I.bad(cl, st, "the re-expansion of the unique tensor list raises (%s)" % e)
