"""C08 -- solve_ivp sensitivities: structural necessary conditions of _SolveIVP.backward."""
from __future__ import annotations
import ast
from typing import List
from ..model import Model, own_nodes, norm_stmt, AnalysisError, AnchorError, enclosing_stmt
from ..report import RuleResult
from ..flow import function_defs, names_loaded, def_use_closure
from ..rules import autograd as ac

PROP = "C08"
LEVEL = "other"
EXPLANATION = (
    "Autograd-Function contract of _SolveIVP decided from the source: (AC1) arity; (AC2) only ts and y0 fixed slots may "
    "carry a gradient; (AC3) the pull-back in the augmented dynamics records the graph iff the caller does; (AC4) it "
    "passes allow_unused=True and converts None gradients to zeros before the augmented state is flattened (only tensors "
    "that enter the dynamics get a non-zero gradient, and none raises); (AC5) the recursive integration runs with the "
    "saved backward options; (AC6) both wrappers pass len(params), y0 and the object parameters of the same pure function; "
    "(AC7) no in-place update of values aliasing the output of the recursive _SolveIVP.apply (needed for a "
    "graph-recording backward); (T) the ts gradient is None unless ts.requires_grad was recorded in forward, and both "
    "evaluation modes of the user function return the same 4-tuple layout. (AC16) the values of the incoming cotangents never steer control flow or index ranges of the backward sweep; NOT decided: correctness of the adjoint dynamics.")
ASSUMPTIONS = ["torch.autograd semantics for custom Functions and views"]

IVP = "xitorch/integrate/solve_ivp.py"


def rules(model: Model, tier: str) -> List[RuleResult]:
    fc = ac.get_fncls(model, "_SolveIVP")
    R1 = RuleResult(PROP, "AC1", "arity of _SolveIVP.backward and of the apply sites", min_instances=2)
    R2 = RuleResult(PROP, "AC2", "only ts and y0 fixed slots may carry a gradient", min_instances=6)
    R3 = RuleResult(PROP, "AC3", "create_graph=torch.is_grad_enabled() in solve_ivp.py", min_instances=1)
    R4 = RuleResult(PROP, "AC4", "augmented-dynamics pull-back: allow_unused=True and None -> zeros before flattening", min_instances=2)
    R5 = RuleResult(PROP, "AC5", "recursive integration uses the saved backward options", min_instances=1)
    R6 = RuleResult(PROP, "AC6", "layout agreement of solve_ivp's apply calls with forward's split", min_instances=3)
    R7 = RuleResult(PROP, "AC7", "no in-place update of values aliasing .apply outputs in backward", min_instances=1)
    T = RuleResult(PROP, "C08-T", "ts-gradient gating and identical layout of the two evaluation modes", min_instances=3)

    ac.ac1_arity(model, fc, R1)
    ac.ac2_frozen_none(fc, R2)
    ac.ac3_create_graph(model, R3, files={IVP})
    ac.ac4_allow_unused(fc, R4)
    n = ac.ac4_none_conversion(fc, R4)
    if n == 0:
        R4.bad(fc.backward, fc.backward.node, "the gradients of the augmented dynamics are no longer recognised as flattened "
               "(packer.flatten of the closure's result): None -> zeros conversion cannot be checked")
    ac.ac5_options_forwarding(model, fc, R5, set())
    ac.ac6_layout(model, fc, R6)
    ac.ac7_no_inplace_on_apply_outputs(model, fc.backward, R7)
    _ts_gating(fc, T)
    _modes_layout(model, fc, T)
    Yr = RuleResult(PROP, "C08-Y", "backward sweep re-anchors y to the stored forward values and adds the incoming gradient at the same index; no segment is skipped", min_instances=5)
    _reanchoring(fc, Yr)

    _hy = ac.hygiene_rules(model, ac.get_fncls(model, '_SolveIVP'), PROP, min_copies=5, min_opt=2, min_conv=1, min_idx=6)
    from ..rules import substitution as _subst
    _sub = _subst.rules(model, PROP, tier)
    from .c07 import direction_rule, _tensor_packer
    Vd = RuleResult(PROP, "C08-V", "the adjoint sweep integrates on decreasing grids: the adaptive solver negates grid and dynamics together, the user function sees the true time", min_instances=4)
    direction_rule(model, Vd)
    return [R1, R2, R3, R4, R5, R6, R7, T, *_hy, Yr, Vd, *_sub]


def _reanchoring(fc, Y: RuleResult):
    """backward sweep: at every requested time the y-slot of the augmented state is re-anchored to the STORED forward value yt[k]
    and the incoming gradient grad_yt[k] is added to the adjoint slot, with one and the same running index k that moves by one per
    segment.  (Integrating y backwards instead of re-anchoring is unstable for dynamics with decaying modes.)"""
    bw = fc.backward
    loops = [l for l in bw.node.body if isinstance(l, ast.For)]
    if len(loops) != 1:
        raise AnalysisError("C08-Y: _SolveIVP.backward no longer has a single sweep loop")
    loop = loops[0]
    defs = function_defs(bw.node)
    # names of the saved forward output and the incoming gradient
    gname = bw.params()[1]
    yt_names = [k for k, ds in defs.items() if any(ast.unparse(d).startswith("saved_tensors[2]") or ast.unparse(d).endswith("saved_tensors[2]") for d in ds)]
    if not yt_names:
        raise AnalysisError("C08-Y: the saved forward trajectory (saved_tensors[2]) is not bound to a name in backward")
    yt = yt_names[0]

    def slot_key(e):
        # a slot named by a local constant (`y_index = 0`) is the slot of that constant
        if isinstance(e, ast.Name):
            stores = [s_ for s_ in own_nodes(bw.node) if isinstance(s_, ast.Assign) and any(isinstance(t_, ast.Name) and t_.id == e.id for t_ in s_.targets)]
            others = [n_ for n_ in own_nodes(bw.node) if isinstance(n_, ast.Name) and n_.id == e.id and isinstance(n_.ctx, (ast.Store, ast.Del))]
            if len(stores) == 1 and len(others) == 1 and isinstance(stores[0].value, ast.Constant) and isinstance(stores[0].value.value, int):
                return str(stores[0].value.value)
        return ast.unparse(e)

    def slot_assigns(body, displays=False):
        out = {}
        for s in body:
            if isinstance(s, ast.Assign) and isinstance(s.targets[0], ast.Subscript) and isinstance(s.targets[0].value, ast.Name) and s.targets[0].value.id == "states":
                out[slot_key(s.targets[0].slice)] = s
            elif displays and isinstance(s, ast.Assign) and isinstance(s.targets[0], ast.Name) and s.targets[0].id == "states" and isinstance(s.value, (ast.List, ast.Tuple)):
                # the initial state written as a list display: element i initialises slot i (up to the first starred element)
                for i_, el in enumerate(s.value.elts):
                    if isinstance(el, ast.Starred):
                        break
                    shim = ast.copy_location(ast.Assign(targets=[ast.Subscript(value=ast.Name(id="states", ctx=ast.Load()), slice=ast.Constant(value=i_), ctx=ast.Store())], value=el), s)
                    out[str(i_)] = shim
        return out
    pre = slot_assigns(bw.node.body, displays=True)
    inl = slot_assigns(loop.body)
    rebinding = [i for i, s in enumerate(loop.body) if isinstance(s, ast.Assign) and isinstance(s.targets[0], ast.Name) and s.targets[0].id == "states"]
    # the slot holding y: the one initialised from yt before the loop
    yslot = [k for k, s in pre.items() if isinstance(s.value, ast.Subscript) and ast.unparse(s.value.value) == yt]
    gslot = [k for k, s in pre.items() if isinstance(s.value, ast.Subscript) and ast.unparse(s.value.value) == gname]
    if len(yslot) != 1 or len(gslot) != 1:
        raise AnalysisError("C08-Y: initialisation of the y / adjoint slots from %s / %s not found" % (yt, gname))
    yslot, gslot = yslot[0], gslot[0]
    idx0 = ast.unparse(pre[yslot].value.slice)
    if ast.unparse(pre[gslot].value.slice) == idx0:
        Y.ok(bw.fq, "sweep starts from states[%s] = %s[%s], states[%s] = %s[%s] (same index)" % (yslot, yt, idx0, gslot, gname, idx0))
    else:
        Y.bad(bw, pre[gslot], "the sweep must start from the forward value and the incoming gradient at the same (last) time index")
    ys, gs = inl.get(yslot), inl.get(gslot)
    ok_y = (ys is not None and isinstance(ys.value, ast.Subscript) and ast.unparse(ys.value.value) == yt and rebinding and loop.body.index(ys) > rebinding[-1])
    if ok_y:
        Y.ok(bw.fq, "after every segment the y slot is re-anchored to the stored forward value: `%s`" % norm_stmt(ys))
    else:
        Y.bad(bw, ys or loop, "after each backward segment the y slot must be reset to the stored forward value %s[k] (it is otherwise integrated backwards, "
              "which amplifies every decaying mode of the dynamics)" % yt)
    ok_g = False
    if gs is not None and isinstance(gs.value, ast.BinOp) and isinstance(gs.value.op, ast.Add) and rebinding and loop.body.index(gs) > rebinding[-1]:
        idx = ast.unparse(ys.value.slice) if ok_y else idx0

        def is_prop(e):
            return isinstance(e, ast.Subscript) and isinstance(e.value, ast.Name) and e.value.id == "states" and slot_key(e.slice) == gslot
        sides = [gs.value.left, gs.value.right]
        ok_g = any(ast.unparse(a) == "%s[%s]" % (gname, idx) and is_prop(b) for a, b in (sides, sides[::-1]))
    if ok_g:
        Y.ok(bw.fq, "the incoming gradient at the same index is added to the propagated adjoint: `%s`" % norm_stmt(gs))
    else:
        Y.bad(bw, gs or loop, "the adjoint slot must become grad_yt[k] + (propagated adjoint) with the same index k used for the forward value")
    # every segment goes through the recursive integration: no skip, no early exit
    applies = [i for i, s_ in enumerate(loop.body) if isinstance(s_, ast.Assign) and isinstance(s_.value, ast.Call) and ast.unparse(s_.value.func).endswith(".apply")]
    jumps = [n for n in ast.walk(loop) if isinstance(n, (ast.Continue, ast.Break))]
    if len(applies) == 1 and not jumps:
        Y.ok(bw.fq, "every segment is integrated by the recursive apply (unconditional, at loop-body level; the loop has no continue/break)")
    else:
        Y.bad(bw, jumps[0] if jumps else loop, "a segment of the backward sweep can skip the recursive integration (continue/break or a conditional apply): those segments drop "
              "out of a recorded backward pass, so second-order gradients through them are lost even when the first-order value is unchanged")
    # the running index moves by exactly one per iteration, before the re-anchoring
    idxname = idx0
    steps = [i for i, s in enumerate(loop.body) if isinstance(s, ast.AugAssign) and isinstance(s.target, ast.Name) and s.target.id == idxname]
    if len(steps) == 1 and isinstance(loop.body[steps[0]].op, ast.Sub) and ast.unparse(loop.body[steps[0]].value) == "1" and (not ok_y or steps[0] < loop.body.index(ys)):
        Y.ok(bw.fq, "the running index %s moves back by one per segment, before the re-anchoring" % idxname)
    else:
        Y.bad(bw, loop, "the running time index must be decremented exactly once per segment before the state is re-anchored")


def _ts_gating(fc, T: RuleResult):
    fw, bw = fc.forward, fc.backward
    # forward records ts.requires_grad on ctx
    attr = None
    for s in own_nodes(fw.node):
        if isinstance(s, ast.Assign) and isinstance(s.targets[0], ast.Attribute) and ast.unparse(s.value) == "ts.requires_grad":
            attr = s.targets[0].attr
    if attr is None:
        T.bad(fw, fw.node, "forward does not record ts.requires_grad")
        return
    T.ok(fw.fq, "forward records ts.requires_grad as ctx.%s" % attr)
    defs = function_defs(bw.node)
    flag_names = {n for n, ds in defs.items() if any(ast.unparse(d) == "%s.%s" % (fc.bctx, attr) for d in ds)}
    i = fc.fixed.index("ts")
    for r in ac.own_returns(bw):
        if not isinstance(r.value, ast.Tuple):
            continue
        e = r.value.elts[i]
        if not isinstance(e, ast.Name):
            T.bad(bw, r, "ts gradient slot is not a plain name")
            continue
        ok = True
        ds = defs.get(e.id, [])
        # every definition of grad_ts is either `X if <flag> else None` or lies under `if <flag>:`
        from ..rules.solverloop import enclosing_ifs
        for s in own_nodes(bw.node):
            if isinstance(s, (ast.Assign,)) and any(isinstance(t, ast.Name) and t.id == e.id for t in s.targets):
                v = s.value
                if isinstance(v, ast.IfExp) and isinstance(v.test, ast.Name) and v.test.id in flag_names and isinstance(v.orelse, ast.Constant) and v.orelse.value is None:
                    continue
                ifs = enclosing_ifs(s, bw.node)
                if any(inbody and isinstance(i_.test, ast.Name) and i_.test.id in flag_names for i_, inbody in ifs):
                    continue
                ok = False
        what = "ts gradient `%s` is None unless ctx.%s" % (e.id, attr)
        if ok and ds:
            T.ok(bw.fq, what)
        else:
            T.bad(bw, r, "the gradient w.r.t. ts must be None unless ts required grad in forward", what=what)


def _modes_layout(model: Model, fc, T: RuleResult):
    bw = fc.backward
    # the evaluator is found by role: the function(s) of backward's family that evaluate the dynamics under `useobjparams`
    family = [f for f in bw.module.functions.values() if f is bw or f.qualname.startswith(bw.qualname + ".")]
    evals = [f for f in family if any(isinstance(w, ast.With) and any("useobjparams" in ast.unparse(it.context_expr) for it in w.items) for w in own_nodes(f.node))]
    if not evals:
        raise AnchorError("no function of _SolveIVP.backward evaluates the dynamics under useobjparams (pfunc2 vanished)")
    for pf in evals:
        calls_grad = any(isinstance(c, ast.Call) and ast.unparse(c.func).endswith("autograd.grad") for c in own_nodes(pf.node))
        if not calls_grad and pf is not bw:
            # a dedicated evaluator: both modes hand back the same record
            rets = [r for r in own_nodes(pf.node) if isinstance(r, ast.Return) and r.value is not None]
            lens = [len(r.value.elts) if isinstance(r.value, ast.Tuple) else 1 for r in rets]
            if len(rets) >= 1 and len(set(lens)) == 1 and lens[0] == 4:
                T.ok(pf.fq, "every exit of %s returns a 4-tuple (f, t, y, tensor_params)" % pf.name)
            else:
                T.bad(pf, pf.node, "the two evaluation modes of %s must return the same 4-tuple layout (got %s)" % (pf.name, lens))
        else:
            T.ok(pf.fq, "the evaluation under useobjparams is part of %s (no separate record to agree on)" % pf.name)
        # graph-recording mode: evaluates inside useobjparams(<copies>) with fresh clones
        src = ast.unparse(pf.node)
        # (how the copies are made - clone when the graph is recorded, detach otherwise - is AC9 / AC13's question, decided there by
        #  provenance; this rule used to look for the text `clone().requires_grad_()` and fired on a copy helper chosen at entry)
        if "useobjparams" in src:
            T.ok(pf.fq, "the dynamics are evaluated under useobjparams(<copies>) (the kind of copy is decided by AC9 / AC13)")
        else:
            T.bad(pf, pf.node, "graph-recording mode must evaluate the function under useobjparams(<fresh clones>)")
