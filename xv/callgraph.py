"""Call resolution over the source model (names, self/cls methods, unique method names)."""
from __future__ import annotations
import ast
from typing import Optional, Set, List, Dict, Tuple
from .model import Model, FuncInfo, ClassInfo, own_nodes, enclosing_function, ancestors


def owner_class(fi: FuncInfo) -> Optional[ClassInfo]:
    f = fi
    while f is not None:
        if f.cls is not None:
            return f.cls
        f = f.parent
    return None


def lookup_local_function(fi: FuncInfo, name: str) -> Optional[FuncInfo]:
    """a function `name` defined lexically in fi or an enclosing function"""
    f = fi
    while f is not None:
        qn = f.qualname + "." + name
        if qn in f.module.functions:
            return f.module.functions[qn]
        f = f.parent
    return None


_method_index_cache: Dict[int, Dict[str, List[FuncInfo]]] = {}


def method_index(model: Model) -> Dict[str, List[FuncInfo]]:
    k = id(model)
    if k not in _method_index_cache:
        idx: Dict[str, List[FuncInfo]] = {}
        for f in model.all_functions():
            idx.setdefault(f.name, []).append(f)
        _method_index_cache.clear()
        _method_index_cache[k] = idx
    return _method_index_cache[k]


def resolve_call(model: Model, fi: FuncInfo, call: ast.Call, by_unique_name: bool = True) -> Optional[FuncInfo]:
    f = call.func
    if isinstance(f, ast.Name):
        loc = lookup_local_function(fi, f.id)
        if loc is not None:
            return loc
        r = model.resolve_global(fi.module, f.id)
        if r and r[0] == "func":
            return r[1]
        if r and r[0] == "class":
            init = r[1].find_method("__init__")
            return init
        return None
    if isinstance(f, ast.Attribute):
        if isinstance(f.value, ast.Name) and f.value.id in ("self", "cls"):
            c = owner_class(fi)
            if c is not None:
                m = c.find_method(f.attr)
                if m is not None:
                    return m
        if isinstance(f.value, ast.Call) and isinstance(f.value.func, ast.Name) and f.value.func.id == "super":
            c = owner_class(fi)
            if c is not None:
                for b in c.mro()[1:]:
                    if f.attr in b.methods:
                        return b.methods[f.attr]
        r = model.resolve_expr(fi.module, f)
        if r and r[0] == "func":
            return r[1]
        if by_unique_name:
            cands = [x for x in method_index(model).get(f.attr, []) if x.cls is not None]
            if len(cands) == 1:
                return cands[0]
    return None


def calls_in(fi: FuncInfo, include_nested: bool = False) -> List[ast.Call]:
    it = ast.walk(fi.node) if include_nested else own_nodes(fi.node)
    return [n for n in it if isinstance(n, ast.Call)]


def callees(model: Model, fi: FuncInfo, include_nested: bool = True) -> Set[FuncInfo]:
    out = set()
    for c in calls_in(fi, include_nested):
        owner = fi
        if include_nested:
            ef = enclosing_function(c)
            if ef is not None and hasattr(ef, "_funcinfo"):
                owner = ef._funcinfo
        r = resolve_call(model, owner, c)
        if r is not None:
            out.add(r)
    return out


def reachable_functions(model: Model, roots: List[FuncInfo], depth: int = 6) -> Dict[FuncInfo, List[FuncInfo]]:
    """BFS over resolved calls; returns {function: call path from a root}"""
    paths: Dict[FuncInfo, List[FuncInfo]] = {r: [r] for r in roots}
    frontier = list(roots)
    for _ in range(depth):
        nxt = []
        for f in frontier:
            for g in callees(model, f):
                if g not in paths:
                    paths[g] = paths[f] + [g]
                    nxt.append(g)
        frontier = nxt
        if not frontier:
            break
    return paths


def dict_literal_entries(expr: ast.AST) -> Optional[List[Tuple[ast.AST, ast.AST]]]:
    if isinstance(expr, ast.Dict):
        return list(zip(expr.keys, expr.values))
    return None
