"""Dataflow helpers: def-use closure, flag/path analysis, path-wise value numbering."""
from __future__ import annotations
import ast
from collections import deque
from typing import Dict, Set, List, Optional, Callable, Tuple, Iterable
from .cfg import CFG, Node
from .model import own_nodes, norm_stmt, AnalysisError


# --------------------------------------------------------------------------- names
def names_loaded(node: ast.AST) -> Set[str]:
    return {n.id for n in ast.walk(node) if isinstance(n, ast.Name) and isinstance(n.ctx, ast.Load)}


def target_names(t: ast.AST) -> Set[str]:
    """names (re)bound by an assignment target; for `a[i] = ..`/`a.b = ..` the base name counts as
    modified as well"""
    out = set()
    for n in ast.walk(t):
        if isinstance(n, ast.Name):
            out.add(n.id)
    return out


def stmt_defs(s: ast.AST) -> List[Tuple[Set[str], Optional[ast.AST]]]:
    """[(names defined, value expression)] for one simple statement / header"""
    res = []
    if isinstance(s, ast.Assign):
        for t in s.targets:
            res.append((target_names(t) if not isinstance(t, ast.Name) else {t.id}, s.value))
    elif isinstance(s, ast.AnnAssign) and s.value is not None:
        res.append((target_names(s.target), s.value))
    elif isinstance(s, ast.AugAssign):
        res.append((target_names(s.target), ast.BinOp(left=s.target, op=s.op, right=s.value)))
    elif isinstance(s, ast.For):
        res.append((target_names(s.target), s.iter))
    elif isinstance(s, ast.With):
        for it in s.items:
            if it.optional_vars is not None:
                res.append((target_names(it.optional_vars), it.context_expr))
    elif isinstance(s, (ast.FunctionDef, ast.AsyncFunctionDef)):
        res.append(({s.name}, s))
    for n in ast.walk(s) if not isinstance(s, (ast.FunctionDef, ast.AsyncFunctionDef, ast.ClassDef)) else []:
        if isinstance(n, ast.NamedExpr):
            res.append(({n.target.id}, n.value))
    return res


def function_defs(fn: ast.AST) -> Dict[str, List[ast.AST]]:
    """flow-insensitive map name -> list of defining value expressions inside fn (own nodes only)"""
    defs: Dict[str, List[ast.AST]] = {}
    for n in own_nodes(fn):
        if isinstance(n, (ast.Assign, ast.AnnAssign, ast.AugAssign, ast.For, ast.With, ast.FunctionDef)):
            for names, val in stmt_defs(n):
                for nm in names:
                    if val is not None:
                        defs.setdefault(nm, []).append(val)
    return defs


def origins(expr: ast.AST, defs: Dict[str, List[ast.AST]], depth: int = 6) -> List[ast.AST]:
    """the non-Name expressions a value can come from: a Name is followed through all of its (flow-insensitive)
    definitions and plain aliases; anything else is its own origin.  Used to identify a variable by its *role*
    (what it is bound to) instead of by its spelling."""
    out: List[ast.AST] = []
    seen: Set[str] = set()

    def go(e, d):
        if isinstance(e, ast.Name) and d > 0:
            if e.id in seen:
                return
            seen.add(e.id)
            ds = defs.get(e.id, [])
            if not ds:
                out.append(e)
            for v in ds:
                go(v, d - 1)
        else:
            out.append(e)
    go(expr, depth)
    return out


def origin_texts(expr: ast.AST, defs, depth: int = 6) -> Set[str]:
    return {ast.unparse(o) for o in origins(expr, defs, depth)}


def free_names_of_def(d: ast.AST) -> Set[str]:
    """names a nested def / lambda reads from its environment (approximation: all loaded names minus
    its own parameters and local stores)"""
    if isinstance(d, (ast.FunctionDef, ast.AsyncFunctionDef, ast.Lambda)):
        a = d.args
        params = {x.arg for x in a.posonlyargs + a.args + a.kwonlyargs}
        if a.vararg:
            params.add(a.vararg.arg)
        if a.kwarg:
            params.add(a.kwarg.arg)
        body = d.body if isinstance(d.body, list) else [d.body]
        loaded = set()
        stored = set()
        for b in body:
            for n in ast.walk(b):
                if isinstance(n, ast.Name):
                    (loaded if isinstance(n.ctx, ast.Load) else stored).add(n.id)
        return loaded - params - stored
    return names_loaded(d)


def def_use_closure(fn: ast.AST, seeds: Iterable[str], defs: Optional[Dict[str, List[ast.AST]]] = None) -> Set[str]:
    """Backward slice on names (flow-insensitive): every name that can influence the seeds."""
    defs = defs if defs is not None else function_defs(fn)
    seen: Set[str] = set()
    work = list(seeds)
    while work:
        nm = work.pop()
        if nm in seen:
            continue
        seen.add(nm)
        for val in defs.get(nm, []):
            for u in free_names_of_def(val):
                if u not in seen:
                    work.append(u)
    return seen


def closure_exprs(fn: ast.AST, seeds: Iterable[str], defs=None) -> List[ast.AST]:
    """the defining expressions of every name in the closure"""
    defs = defs if defs is not None else function_defs(fn)
    out = []
    for nm in def_use_closure(fn, seeds, defs):
        out.extend(defs.get(nm, []))
    return out


# --------------------------------------------------------------------------- warn / flag typestate
def call_name(c: ast.Call) -> str:
    try:
        return ast.unparse(c.func)
    except Exception:  # pragma: no cover
        return ""


def is_warn_call(node: ast.AST, category: Optional[str] = "ConvergenceWarning") -> bool:
    """a `warnings.warn(...)`/`warn(...)` call inside node (optionally mentioning the category)"""
    for c in ast.walk(node):
        if isinstance(c, ast.Call):
            nm = call_name(c)
            if nm == "warn" or nm.endswith(".warn"):
                if category is None:
                    return True
                if any(isinstance(x, ast.Name) and x.id == category or
                       isinstance(x, ast.Attribute) and x.attr == category for a in list(c.args) + [k.value for k in c.keywords] for x in ast.walk(a)):
                    return True
    return False


def simple_stmt_has_warn(node: Node, category="ConvergenceWarning") -> bool:
    s = node.stmt
    if s is None or node.kind not in ("stmt",):
        return False
    if isinstance(s, (ast.With, ast.Try, ast.FunctionDef, ast.ClassDef, ast.ExceptHandler)):
        return False
    return is_warn_call(s, category)


def test_on_name(test: ast.AST) -> Optional[Tuple[str, bool]]:
    """`name` -> (name, True); `not name` -> (name, False); `name is True/False`, `name == True/False` likewise."""
    if isinstance(test, ast.Name):
        return (test.id, True)
    if isinstance(test, ast.UnaryOp) and isinstance(test.op, ast.Not):
        r = test_on_name(test.operand)
        if r:
            return (r[0], not r[1])
    if isinstance(test, ast.Compare) and len(test.ops) == 1 and isinstance(test.left, ast.Name) \
            and isinstance(test.comparators[0], ast.Constant) and isinstance(test.comparators[0].value, bool):
        v = test.comparators[0].value
        if isinstance(test.ops[0], (ast.Is, ast.Eq)):
            return (test.left.id, v)
        if isinstance(test.ops[0], (ast.IsNot, ast.NotEq)):
            return (test.left.id, not v)
    return None


def eval_flag_test(test: ast.AST, flag: str, value: bool) -> Optional[bool]:
    """Evaluate a boolean expression that mentions only `flag` (and boolean constants) for a known
    value of the flag; None if the expression involves anything else."""
    if isinstance(test, ast.Name):
        return value if test.id == flag else None
    if isinstance(test, ast.Constant) and isinstance(test.value, bool):
        return test.value
    if isinstance(test, ast.UnaryOp) and isinstance(test.op, ast.Not):
        r = eval_flag_test(test.operand, flag, value)
        return None if r is None else (not r)
    if isinstance(test, ast.BoolOp):
        vals = [eval_flag_test(v, flag, value) for v in test.values]
        if isinstance(test.op, ast.And):
            if any(v is False for v in vals):
                return False
            return None if any(v is None for v in vals) else True
        if any(v is True for v in vals):
            return True
        return None if any(v is None for v in vals) else False
    r = test_on_name(test)
    if r and r[0] == flag:
        return value == r[1]
    return None


def flag_only_test(test: ast.AST) -> Optional[str]:
    """the single name a pure flag expression mentions"""
    names = {n.id for n in ast.walk(test) if isinstance(n, ast.Name)}
    if len(names) != 1:
        return None
    nm = next(iter(names))
    if eval_flag_test(test, nm, True) is None or eval_flag_test(test, nm, False) is None:
        return None
    return nm


def find_warn_flag(fn: ast.AST, category="ConvergenceWarning") -> Optional[Tuple[str, ast.If]]:
    """The boolean local tested by the `if` that guards the warning call (identified by role, not by name)."""
    for n in own_nodes(fn):
        if isinstance(n, ast.If):
            name = flag_only_test(n.test)
            if name is None:
                continue
            for blk in (n.body, n.orelse):
                if any(is_warn_call(s, category) for s in blk if not isinstance(s, (ast.FunctionDef, ast.ClassDef))):
                    return name, n
    # guard-clause form: `if flag: return ..` before the warning - the warning runs exactly when the flag test failed
    from .model import effective_conditions, enclosing_stmt
    for n in own_nodes(fn):
        if isinstance(n, ast.stmt) and not isinstance(n, (ast.FunctionDef, ast.ClassDef, ast.If, ast.For, ast.While, ast.With, ast.Try)) \
                and is_warn_call(n, category):
            for text, _pol in effective_conditions(n):
                t = ast.parse(text, mode="eval").body
                name = flag_only_test(t)
                if name is None:
                    continue
                guard = next((g for g in own_nodes(fn) if isinstance(g, ast.If) and flag_only_test(g.test) == name), None)
                if guard is not None:
                    return name, guard
    return None


def has_warn_anywhere(fn: ast.AST, category="ConvergenceWarning") -> bool:
    return any(isinstance(n, ast.Call) and is_warn_call(n, category) for n in own_nodes(fn))


def bool_const_assign(s: ast.AST, flag: str) -> Optional[bool]:
    if isinstance(s, ast.Assign) and len(s.targets) == 1 and isinstance(s.targets[0], ast.Name) \
            and s.targets[0].id == flag and isinstance(s.value, ast.Constant) and isinstance(s.value.value, bool):
        return s.value.value
    if isinstance(s, ast.AnnAssign) and isinstance(s.target, ast.Name) and s.target.id == flag \
            and isinstance(s.value, ast.Constant) and isinstance(s.value.value, bool):
        return s.value.value
    return None


def assigns_name(s: ast.AST, name: str) -> bool:
    for names, _ in stmt_defs(s) if isinstance(s, (ast.Assign, ast.AnnAssign, ast.AugAssign, ast.For, ast.With)) else []:
        if name in names:
            return True
    return False


class ReturnState:
    __slots__ = ("node", "flag", "warned", "looped", "trace")

    def __init__(self, node, flag, warned, looped, trace):
        self.node, self.flag, self.warned, self.looped, self.trace = node, flag, warned, looped, trace


def flag_typestate(cfg: CFG, flag: Optional[str], category="ConvergenceWarning", warn_pred=None) -> Tuple[List[ReturnState], int]:
    """Abstract interpretation over states (flag in {T,F,?}, warned, looped) with branch pruning on
    tests of the flag. Returns the abstract states reaching each `return` / normal exit and the
    number of (node,state) pairs explored. Exceptional edges are not followed (an exception is not
    a silent return)."""
    warn_pred = warn_pred or (lambda node: simple_stmt_has_warn(node, category))
    seen = set()
    work = deque([(cfg.entry, ("?", False, False), None)])
    out: List[ReturnState] = []
    parent = {}
    while work:
        node, st, prev = work.popleft()
        key = (node.id, st)
        if key in seen:
            continue
        seen.add(key)
        parent[key] = prev
        fv, warned, looped = st
        s = node.stmt
        if node.kind == "stmt" and flag is not None and s is not None:
            v = bool_const_assign(s, flag)
            if v is not None:
                fv = "T" if v else "F"
            elif assigns_name(s, flag):
                fv = "?"
        if warn_pred(node):
            warned = True
        if node.kind in ("loop",) or (node.kind == "test" and isinstance(s, ast.While)):
            looped = True
        if node.kind == "return" or node is cfg.exit:
            if node.kind == "return":
                out.append(ReturnState(node, fv, warned, looped, key))
            continue
        for succ, lab in node.succ:
            if lab == "exc":
                continue
            if node.kind == "test" and flag is not None and isinstance(s, (ast.If, ast.While)) and fv in "TF":
                val = eval_flag_test(s.test, flag, fv == "T")
                if val is not None and lab != val:
                    continue
            if succ is cfg.exit and node.kind != "return":
                # falling off the end: implicit `return None`
                out.append(ReturnState(node, fv, warned, looped, key))
                continue
            work.append((succ, (fv, warned, looped), key))
    return out, len(seen)


# --------------------------------------------------------------------------- value numbering
IDENT_METHODS = {"reshape", "detach", "clone", "contiguous", "view", "to", "type", "squeeze", "unsqueeze",
                 "requires_grad_", "view_as", "reshape_as"}


class VN:
    """Path-wise value numbering. Copies and identity wrappers keep the number; anything else is fresh.
    `ident_funcs`: names of local unary functions that only re-shape their argument."""

    def __init__(self, ident_funcs: Optional[Set[str]] = None, ident_methods: Optional[Set[str]] = None):
        self.env: Dict[str, int] = {}
        self.n = 0
        self.ident_funcs = ident_funcs or set()
        self.ident_methods = ident_methods if ident_methods is not None else IDENT_METHODS

    def fresh(self) -> int:
        self.n += 1
        return self.n

    def of(self, e: ast.AST) -> int:
        if isinstance(e, ast.Name):
            if e.id not in self.env:
                self.env[e.id] = self.fresh()
            return self.env[e.id]
        if isinstance(e, ast.Attribute):
            key = ast.unparse(e)
            if key not in self.env:
                self.env[key] = self.fresh()
            return self.env[key]
        if isinstance(e, ast.Call):
            f = e.func
            if isinstance(f, ast.Attribute) and f.attr in self.ident_methods:
                return self.of(f.value)
            if isinstance(f, ast.Name) and f.id in self.ident_funcs and len(e.args) == 1 and not e.keywords:
                return self.of(e.args[0])
        if isinstance(e, ast.IfExp):
            a, b = self.of(e.body), self.of(e.orelse)
            if a == b:
                return a
        return self.fresh()

    def assign_stmt(self, stmt: ast.AST):
        if isinstance(stmt, ast.Assign) and len(stmt.targets) == 1 and isinstance(stmt.targets[0], (ast.Name, ast.Attribute)):
            t = stmt.targets[0]
            key = t.id if isinstance(t, ast.Name) else ast.unparse(t)
            self.env[key] = self.of(stmt.value)
            if isinstance(t, ast.Name):
                self._kill_attrs(t.id)
        elif isinstance(stmt, ast.Assign) and len(stmt.targets) == 1 and isinstance(stmt.targets[0], ast.Tuple) \
                and isinstance(stmt.value, ast.Tuple) and len(stmt.value.elts) == len(stmt.targets[0].elts):
            vals = [self.of(v) for v in stmt.value.elts]
            for t, v in zip(stmt.targets[0].elts, vals):
                if isinstance(t, ast.Name):
                    self.env[t.id] = v
                    self._kill_attrs(t.id)
        elif isinstance(stmt, (ast.Assign, ast.AugAssign, ast.AnnAssign, ast.For, ast.With)):
            for names, _ in stmt_defs(stmt):
                for nm in names:
                    self.env[nm] = self.fresh()
                    self._kill_attrs(nm)

    def _kill_attrs(self, base: str):
        for k in [k for k in self.env if k.startswith(base + ".")]:
            del self.env[k]

    def copy(self) -> "VN":
        v = VN(self.ident_funcs, self.ident_methods)
        v.env = dict(self.env)
        v.n = self.n
        return v


def local_identity_functions(fn: ast.AST, user_fn_names: Set[str]) -> Set[str]:
    """Local unary functions/lambdas that only reshape/convert their argument: their body does not call
    the user function, and they are conditional aliases of such functions (`a if c else b`)."""
    cand: Dict[str, ast.AST] = {}
    for n in own_nodes(fn):
        if isinstance(n, ast.FunctionDef) and len(n.args.args) == 1 and not n.args.vararg:
            cand[n.name] = n
        if isinstance(n, ast.Assign) and len(n.targets) == 1 and isinstance(n.targets[0], ast.Name):
            v = n.value
            if isinstance(v, ast.Lambda) and len(v.args.args) == 1:
                cand[n.targets[0].id] = v
            elif isinstance(v, ast.IfExp):
                cand[n.targets[0].id] = v
    ident: Set[str] = set()

    def calls_user(d) -> bool:
        for c in ast.walk(d):
            if isinstance(c, ast.Call) and isinstance(c.func, ast.Name) and c.func.id in user_fn_names:
                return True
        return False

    changed = True
    while changed:
        changed = False
        for nm, d in cand.items():
            if nm in ident:
                continue
            if isinstance(d, ast.IfExp):
                parts = [d.body, d.orelse]
                ok = True
                for p in parts:
                    if isinstance(p, ast.Name):
                        ok = ok and p.id in ident
                    elif isinstance(p, ast.Lambda) and len(p.args.args) == 1:
                        ok = ok and not calls_user(p) and _is_reshaping(p)
                    else:
                        ok = False
                if ok:
                    ident.add(nm)
                    changed = True
            elif not calls_user(d) and _is_reshaping(d):
                ident.add(nm)
                changed = True
    return ident


_RESHAPING_CALLS = {"reshape", "view", "cat", "contiguous", "detach", "clone", "to"}


def _is_reshaping(d: ast.AST) -> bool:
    """body consists only of attribute access / slicing / reshape / cat / arithmetic recombination
    of the single argument (no other function is applied)"""
    for c in ast.walk(d):
        if isinstance(c, ast.Call):
            nm = c.func.attr if isinstance(c.func, ast.Attribute) else (c.func.id if isinstance(c.func, ast.Name) else "")
            if nm not in _RESHAPING_CALLS and nm != "len":
                return False
    return True


def walk_paths(cfg: CFG, start: Node, state, transfer: Callable, follow: Callable, on_return: Callable,
               max_depth: int = 400, stop_at_loop_header: bool = True, skip_exc: bool = True) -> int:
    """Enumerate acyclic paths from `start` (exclusive) carrying a state.
    transfer(node, state) -> new state; follow(node, label, state) -> bool; on_return(node, state).
    Returns the number of complete paths."""
    count = 0
    stack = [(succ, lab, state, frozenset([start.id]), 0) for succ, lab in start.succ
             if not (skip_exc and lab == "exc") and follow(start, lab, state)]
    while stack:
        node, lab, st, visited, depth = stack.pop()
        if depth > max_depth or node.id in visited:
            continue
        if node.kind == "loop" and stop_at_loop_header:
            continue
        if node.kind == "test" and isinstance(node.stmt, ast.While) and stop_at_loop_header:
            continue
        st = transfer(node, st)
        if node.kind == "return" or node is cfg.exit:
            on_return(node, st)
            count += 1
            continue
        v2 = visited | {node.id}
        for succ, l2 in node.succ:
            if skip_exc and l2 == "exc":
                continue
            if not follow(node, l2, st):
                continue
            stack.append((succ, l2, st, v2, depth + 1))
    return count


# --------------------------------------------------------------------------- reaching definitions
def reaching_definitions(cfg: CFG, params: Iterable[str]):
    """Classic forward may-analysis on the statement CFG (normal and exceptional edges).
    Returns IN[node.id] : dict name -> frozenset of definition values (ast expr, or the string 'param')."""
    gen: Dict[int, List[Tuple[str, object]]] = {}
    for n in cfg.nodes:
        s = n.stmt
        g = []
        if s is not None and n.kind in ("stmt", "loop", "test"):
            if n.kind == "stmt" and isinstance(s, (ast.Assign, ast.AnnAssign, ast.AugAssign, ast.With, ast.FunctionDef)):
                for names, val in stmt_defs(s):
                    for nm in names:
                        g.append((nm, val if val is not None else s))
            elif n.kind == "loop" and isinstance(s, ast.For):
                for names, val in stmt_defs(s):
                    for nm in names:
                        g.append((nm, val))
        gen[n.id] = g
    IN: Dict[int, Dict[str, frozenset]] = {n.id: {} for n in cfg.nodes}
    OUT: Dict[int, Dict[str, frozenset]] = {n.id: {} for n in cfg.nodes}
    init = {p: frozenset(["param"]) for p in params}
    work = deque([cfg.entry])
    OUT[cfg.entry.id] = dict(init)
    seen_once = set()
    while work:
        n = work.popleft()
        if n is cfg.entry:
            out = dict(init)
        else:
            merged: Dict[str, set] = {}
            for p, _ in n.pred:
                for k, v in OUT[p.id].items():
                    merged.setdefault(k, set()).update(v)
            IN[n.id] = {k: frozenset(v) for k, v in merged.items()}
            out = dict(IN[n.id])
            # subscript/attribute stores do not kill; plain name stores do
            for nm, val in gen[n.id]:
                s = n.stmt
                plain = True
                if isinstance(s, ast.Assign):
                    plain = any(isinstance(t, ast.Name) and t.id == nm for t in s.targets) or \
                        any(isinstance(t, (ast.Tuple, ast.List)) and any(isinstance(e, ast.Name) and e.id == nm for e in t.elts) for t in s.targets)
                elif isinstance(s, ast.AugAssign):
                    plain = isinstance(s.target, ast.Name)
                if plain:
                    out[nm] = frozenset([val])
                else:
                    out[nm] = frozenset(set(out.get(nm, ())) | {val})
        if out != OUT[n.id] or n.id not in seen_once:
            seen_once.add(n.id)
            OUT[n.id] = out
            for s2, _ in n.succ:
                work.append(s2)
    return IN
