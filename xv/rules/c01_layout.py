"""C01 extensions: normal-equation fallback consistency and the batch/column layout of the shifted systems (shape domain)."""
from __future__ import annotations
import ast
import itertools
from typing import List, Dict, Optional, Tuple
from ..model import Model, FuncInfo, own_nodes, norm_stmt, AnalysisError, AnchorError, enclosing_stmt
from ..report import RuleResult
from ..flow import function_defs
from ..domains.poly import Uninterpretable
from ..domains.shapes import ShapeInterp, T, Raised, ShapeError, broadcast

SOLVE_IMPL = "xitorch/_impls/linalg/solve.py"


def check_normal_equations(model: Model, N: RuleResult):
    """_setup_linear_problem: when the operator is not known to be positive definite the system is replaced by
    G(A x) = G(b); the SAME map G must be applied to the operator's output and to the right-hand side, and it must be the
    adjoint action (so that G.A is Hermitian positive semi-definite and cg applies)."""
    f = model.func(SOLVE_IMPL, "_setup_linear_problem")
    rets = [r for r in own_nodes(f.node) if isinstance(r, ast.Return) and isinstance(r.value, ast.Tuple) and len(r.value.elts) == 4]
    helper = None          # (FuncInfo, {helper parameter -> caller's argument text}) when the fallback is built by a module-level helper
    if len(rets) == 1:
        for r in own_nodes(f.node):
            if isinstance(r, ast.Return) and isinstance(r.value, ast.Call) and isinstance(r.value.func, ast.Name) and not r.value.keywords \
                    and not any(isinstance(a, ast.Starred) for a in r.value.args):
                g = model.module(SOLVE_IMPL).functions.get(r.value.func.id)
                if g is not None and g.parent is None and len(r.value.args) == len(g.params()):
                    grets = [x for x in own_nodes(g.node) if isinstance(x, ast.Return)]
                    if len(grets) == 1 and isinstance(grets[0].value, ast.Tuple) and len(grets[0].value.elts) == 4:
                        helper = (g, dict(zip(g.params(), [ast.unparse(a) for a in r.value.args])), r)
                        rets = rets + [grets[0]]
    if len(rets) != 2:
        raise AnalysisError("C01-N: _setup_linear_problem no longer has the (posdef, fallback) pair of 4-tuple returns")
    # the direct return is the one under `if posdef:`
    direct = fallback = None
    for r in rets:
        par = getattr(r, "_parent", None)
        if isinstance(par, ast.If) and r in par.body and ast.unparse(par.test) == "posdef":
            direct = r
        else:
            fallback = r
    if direct is None or fallback is None:
        raise AnalysisError("C01-N: cannot tell the positive-definite return from the fallback return")
    dn = [ast.unparse(e) for e in direct.value.elts]
    # role of the two closures: which uses mm and which rmm
    inner = {fi.name: fi for fi in model.module(SOLVE_IMPL).functions.values() if fi.parent is f}
    defs = function_defs(f.node)

    def products(name) -> set:
        out = set()
        srcs = []
        if name in inner:
            srcs.append(inner[name].node)
        for d in defs.get(name, []):
            srcs.append(d)
        # closures defined twice (E is None / else): FuncInfo names with #2 suffix
        for k, fi in model.module(SOLVE_IMPL).functions.items():
            if fi.parent is f and fi.name == name and fi.node not in srcs:
                srcs.append(fi.node)
        for sn in srcs:
            for c in ast.walk(sn):
                if isinstance(c, ast.Call) and isinstance(c.func, ast.Attribute) and c.func.attr in ("mm", "rmm", "mv", "rmv"):
                    out.add(c.func.attr)
        return out
    a_name, at_name, b_name = dn[0], dn[1], dn[2]
    pa, pat = products(a_name), products(at_name)
    if pa == {"mm"} and pat == {"rmm"}:
        N.ok(f.fq, "positive-definite path returns (A_fcn: x -> A x [- M x E], AT_fcn: x -> A^H x [- M^H x E], B, flag)")
    else:
        N.bad(f, direct, "the operator closure must use mm only and the adjoint closure rmm only (found %s / %s)" % (sorted(pa), sorted(pat)))
    fe = fallback.value.elts
    opn = fe[0].id if isinstance(fe[0], ast.Name) else None
    rhs = fe[2]
    if helper is not None and fallback is not helper[2]:
        # read the fallback inside the helper, in the caller's vocabulary: the helper's parameters are the caller's arguments
        g, amap, site = helper
        import copy as _copy

        class _Ren(ast.NodeTransformer):
            def visit_Name(self, n_):
                if n_.id in amap and isinstance(n_.ctx, ast.Load):
                    return ast.copy_location(ast.parse(amap[n_.id], mode="eval").body, n_)
                return n_
        gdefs = function_defs(g.node)
        if isinstance(rhs, ast.Name) and len(gdefs.get(rhs.id, [])) == 1:
            rhs = gdefs[rhs.id][0]
        rhs = _Ren().visit(_copy.deepcopy(rhs))
        ginner = {fi.name: fi for fi in model.module(SOLVE_IMPL).functions.values() if fi.parent is g}
        opf0 = ginner.get(opn)
        if opf0 is not None:
            clone = _copy.deepcopy(opf0.node)
            own_params = {a.arg for a in clone.args.args}
            amap = {k: v for k, v in amap.items() if k not in own_params}
            clone = _Ren().visit(clone)
            inner = dict(inner)

            class _Shim:
                def __init__(self, node, params):
                    self.node, self._p = node, params

                def params(self):
                    return self._p
            inner[opn] = _Shim(clone, opf0.params())
        fe = list(fe)
        fe[3] = _Ren().visit(_copy.deepcopy(fe[3]))
        fallback = site
    elif isinstance(rhs, ast.Name) and len(defs.get(rhs.id, [])) == 1:
        rhs = defs[rhs.id][0]
    opf = inner.get(opn)
    comp = None
    if opf is not None:
        rr = [r for r in own_nodes(opf.node) if isinstance(r, ast.Return)]
        if len(rr) == 1 and isinstance(rr[0].value, ast.Call) and isinstance(rr[0].value.func, ast.Name) and len(rr[0].value.args) == 1 \
                and isinstance(rr[0].value.args[0], ast.Call) and isinstance(rr[0].value.args[0].func, ast.Name):
            comp = (rr[0].value.func.id, rr[0].value.args[0].func.id, ast.unparse(rr[0].value.args[0].args[0]) if rr[0].value.args[0].args else "")
    if comp is None and opn is not None:
        # the operator is built some other way (a composition helper, a lambda): apply it abstractly to a token and read the word off
        word = _operator_word(model, f, opn, defs, inner, a_name, at_name)
        if word is None:
            N.undecided(f, fallback, "cannot interpret how the fallback operator `%s` is built" % opn)
            return
        if word[0] == "app" and isinstance(word[2], tuple) and word[2][0] == "app" and word[2][2] == "X":
            class _P:
                @staticmethod
                def params():
                    return ["x"]
            comp, opf = (word[1], word[2][1], "x"), _P
        else:
            comp, opf = ("<%s>" % (word,), "", ""), None
    what = "fallback: operator %s, right-hand side %s" % ("%s(%s(x))" % comp[:2] if comp else "?", ast.unparse(rhs))
    ok = (comp is not None and comp[0] == at_name and comp[1] == a_name and comp[2] == opf.params()[0] and isinstance(rhs, ast.Call)
          and isinstance(rhs.func, ast.Name) and rhs.func.id == at_name and len(rhs.args) == 1 and ast.unparse(rhs.args[0]) == b_name)
    if ok:
        N.ok(f.fq, "normal equations: x -> A^H (A x) with right-hand side A^H b: the same adjoint map on both sides", detail=what)
    else:
        N.bad(f, fallback, "the fallback must solve A^H A x = A^H b: operator AT_fcn(A_fcn(x)) and right-hand side AT_fcn(B) - found %s "
              "(a different map on the two sides silently solves another system without any warning)" % what, what=what)
    if ast.unparse(fe[0]) == ast.unparse(fe[1]) and ast.unparse(fe[3]) == dn[3]:
        N.ok(f.fq, "the fallback operator is returned as its own adjoint (Hermitian) and the column-swap flag is passed on")
    else:
        N.bad(f, fallback, "the fallback must return the (Hermitian) composed operator in both operator slots and the same column-swap flag")


def _operator_word(model: Model, f, opn: str, defs, inner, a_name: str, at_name: str):
    """apply the fallback operator to a token X with the two closures as uninterpreted maps: ("app", name, arg) terms, or None"""
    from ..domains.kinds import KindInterp, Closure
    from ..domains.dictsem import Unsupported, Raised, _Return
    mod = model.module(SOLVE_IMPL)
    env = {a_name: (lambda v, n=a_name: ("app", n, v)), at_name: (lambda v, n=at_name: ("app", n, v)), "X": "X"}
    it = KindInterp(env)
    it.functions = {n_: fi.node for n_, fi in mod.functions.items() if fi.parent is None and fi.cls is None}
    try:
        ds = [d for d in defs.get(opn, []) if d is not None]
        if opn in inner:
            nd = inner[opn].node
            clo = Closure([a.arg for a in nd.args.args], nd.body, env, False)
        elif len(ds) == 1:
            clo = it.ev(ds[0])
        else:
            return None
        if not isinstance(clo, Closure):
            return None
        return it.apply(clo, ["X"])
    except (Unsupported, Raised, _Return, Exception):
        return None


def _batch_configs(maxrank: int):
    """batch shapes as tuples of 1 / shared symbols b<k> (k = position from the right)"""
    out = []
    for r in range(0, maxrank + 1):
        for combo in itertools.product((False, True), repeat=r):
            out.append(tuple(("b%d" % (r - i)) if c else 1 for i, c in enumerate(combo)))
    return out


def _nbd_hook(it: ShapeInterp, c: ast.Call):
    if ast.unparse(c.func) == "normalize_bcast_dims":
        shapes = it.args_of(c)
        m = max(len(s) for s in shapes)
        return tuple(tuple([1] * (m - len(s)) + list(s)) for s in shapes)
    return None


def check_shift_layout(model: Model, L: RuleResult, tier: str):
    """_solve_ABE (direct path with shifts): for every combination of batch ranks/broadcast patterns of A, B, E the result has
    shape (*broadcast(BA, BB, BE), na, ncols), i.e. column j of B is paired with shift E[..., j] and nothing else."""
    f = model.func(SOLVE_IMPL, "_solve_ABE")
    pa, pb, pe = f.params()[:3]
    maxrank = 2 if tier == "quick" else 3
    cfgs = _batch_configs(maxrank)
    n = 0
    bad = None
    for ba, bb, be in itertools.product(cfgs, cfgs, cfgs):
        n += 1
        env = {pa: T(ba + ("na", "na")), pb: T(bb + ("na", "nc")), pe: T(be + ("nc",))}
        it = ShapeInterp(env, call_hook=_nbd_hook)
        try:
            exp = broadcast(broadcast(ba, bb), be) + ("na", "nc")
            r = it.run(f.node.body)
            got = tuple(r[1].shape) if r and isinstance(r[1], T) else None
        except ShapeError as e:
            got = "shape error: %s" % e
        except Uninterpretable as e:
            raise AnalysisError("C01-E: cannot interpret _solve_ABE for A%s B%s E%s: %s" % (ba, bb, be, e))
        if got != exp and bad is None:
            bad = (ba, bb, be, got, exp)
    if bad is None:
        L.ok(f.fq, "_solve_ABE returns (*broadcast(BA,BB,BE), na, ncols) for all %d batch patterns (ranks <= %d, each axis 1 or shared)" % (n, maxrank), configurations=n)
    else:
        ba, bb, be, got, exp = bad
        L.bad(f, f.node, "_solve_ABE with A%s, B%s, E%s yields %s, expected %s: the shift axis is not aligned with the column axis for this batch pattern"
              % (ba + ("na", "na"), bb + ("na", "nc"), be + ("nc",), got, exp))
    # _setup_linear_problem: E_new is (ncols, *BEs, 1, 1) and B_new (ncols, *BBs, nr, 1)
    g = model.func(SOLVE_IMPL, "_setup_linear_problem")
    br = [s for s in g.node.body if isinstance(s, ast.If) and ast.unparse(s.test) in ("E is None", "E is not None")]
    if not br:
        raise AnalysisError("C01-E: the `E is None` branch vanished from _setup_linear_problem")
    body = br[0].orelse if ast.unparse(br[0].test) == "E is None" else br[0].body
    # roles, not names: the shifted right-hand side is the third element of the returned tuple; the shift
    # tensor is the branch-local value the nested operator closures read
    params = set(g.params())
    assigned = [t.id for s in body if isinstance(s, ast.Assign) for t in s.targets if isinstance(t, ast.Name)]
    closure_reads = {n.id for s in body if isinstance(s, ast.FunctionDef) for n in ast.walk(s) if isinstance(n, ast.Name)}
    e_names = [a for a in dict.fromkeys(assigned) if a in closure_reads and a not in params]
    rets = [r.value for r in own_nodes(g.node) if isinstance(r, ast.Return) and isinstance(r.value, ast.Tuple) and len(r.value.elts) == 4]
    b_names = {r.elts[2].id for r in rets if isinstance(r.elts[2], ast.Name)} & set(assigned)
    if len(e_names) != 1 or len(b_names) != 1:
        raise AnalysisError("C01-E: cannot identify the shifted set-up's shift tensor / right-hand side (closure reads %s, returned %s)" % (e_names, sorted(b_names)))
    e_name, b_name = e_names[0], b_names.pop()
    n2 = 0
    bad2 = None
    for withM in (False, True):
        for ba, bb, be in itertools.product(cfgs, cfgs, cfgs):
            bms = cfgs if withM else [()]
            for bm in bms[:1 if not withM else 4]:
                n2 += 1
                env = {"A": T(ba + ("nr", "nr")), "B": T(bb + ("nr", "nc")), "E": T(be + ("nc",)), "M": T(bm + ("nr", "nr")) if withM else None}
                it = ShapeInterp(env, call_hook=_nbd_hook)
                # only the straight-line prefix (assignments); the closures are interpreted below
                try:
                    for s in body:
                        if isinstance(s, ast.FunctionDef):
                            continue
                        if isinstance(s, ast.If):
                            t = it.ev(s.test)
                            it.run(s.body if t else s.orelse)
                            continue
                        if isinstance(s, ast.Assign) and isinstance(s.value, ast.Constant):
                            continue
                        it.run([s])
                    m = max(len(ba), len(bb), len(be), len(bm) if withM else 0)
                    pad = lambda sh: tuple([1] * (m - len(sh)) + list(sh))
                    e_new, b_new = it.env.get(e_name), it.env.get(b_name)
                    exp_e = ("nc",) + pad(be) + (1, 1)
                    exp_b = ("nc",) + pad(bb) + ("nr", 1)
                    got = (tuple(e_new.shape) if isinstance(e_new, T) else None, tuple(b_new.shape) if isinstance(b_new, T) else None)
                except ShapeError as e:
                    got = ("shape error: %s" % e, None)
                    exp_e = exp_b = None
                except Uninterpretable as e:
                    raise AnalysisError("C01-E: cannot interpret the shifted set-up for A%s B%s E%s: %s" % (ba, bb, be, e))
                if got != (exp_e, exp_b) and bad2 is None:
                    bad2 = (ba, bb, be, bm, got, (exp_e, exp_b))
    if bad2 is None:
        L.ok(g.fq, "shifted set-up: E_new is (ncols, *BE, 1, 1) and B_new (ncols, *BB, nr, 1) with BE/BB padded to the common batch rank, for all %d patterns" % n2, configurations=n2)
    else:
        ba, bb, be, bm, got, exp = bad2
        L.bad(g, br[0], "for A%s, B%s, E%s the per-column layout is E_new%s / B_new%s, expected %s / %s" % (ba, bb, be, got[0], got[1], exp[0], exp[1]))
    return n + n2
