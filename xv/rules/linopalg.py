"""Operator-algebra rules for the composed LinearOperators of xitorch/_core/linop.py.

* **adjoint structure**: the body of `_mv` is parsed into a non-commutative polynomial over operator symbols
  (word = sequence of (operand, adjoint?) applied right-to-left to x, coefficient = commutative normal form); the formal
  adjoint (reverse the word, flip every adjoint flag, conjugate-free real coefficients) must equal the parsed `_rmv`.
* **constructor shapes** in the symbolic shape domain, exhaustive over batch patterns of the operands.
* **statelessness**: no method other than the constructors writes instance or class state (a cached derived operator
  would survive a parameter substitution and carry a stale graph).
Nothing is executed.
"""
from __future__ import annotations
import ast
import itertools
from typing import Dict, List, Optional, Tuple, Set
from ..model import Model, ClassInfo, FuncInfo, own_nodes, norm_stmt, AnalysisError, enclosing_stmt
from ..report import RuleResult
from ..domains.poly import Rat, C, S, Uninterpretable
from ..domains.shapes import ShapeInterp, T, ShapeError, broadcast

LINOP = "xitorch/_core/linop.py"
Word = Tuple[Tuple[str, bool], ...]


def _parse(e: ast.AST, xname: str, depth=0) -> Dict[Word, Rat]:
    """expression -> {word: coefficient}; the word lists operators outermost first"""
    if isinstance(e, ast.Name) and e.id == xname:
        return {(): C(1)}
    if isinstance(e, ast.BinOp) and isinstance(e.op, (ast.Add, ast.Sub)):
        a, b = _parse(e.left, xname), _parse(e.right, xname)
        out = dict(a)
        for w, c in b.items():
            out[w] = out.get(w, C(0)) + (c if isinstance(e.op, ast.Add) else -c)
        return {w: c for w, c in out.items() if not c.is_zero()}
    if isinstance(e, ast.UnaryOp) and isinstance(e.op, ast.USub):
        return {w: -c for w, c in _parse(e.operand, xname).items()}
    if isinstance(e, ast.BinOp) and isinstance(e.op, ast.Mult):
        for opnd, coef in ((e.left, e.right), (e.right, e.left)):
            try:
                k = _coef(coef)
            except Uninterpretable:
                continue
            try:
                inner = _parse(opnd, xname)
            except Uninterpretable:
                continue
            return {w: c * k for w, c in inner.items()}
        raise Uninterpretable("product %s" % ast.unparse(e))
    if isinstance(e, ast.Call) and ast.unparse(e.func) in ("torch.add", "torch.sub") and len(e.args) == 2:
        # torch.add(a, b, alpha=c) is a + c*b
        a, b = _parse(e.args[0], xname), _parse(e.args[1], xname)
        kw = {k.arg: k.value for k in e.keywords}
        if set(kw) - {"alpha"}:
            raise Uninterpretable("keywords of %s" % ast.unparse(e))
        k = _coef(kw["alpha"]) if "alpha" in kw else C(1)
        if ast.unparse(e.func) == "torch.sub":
            k = -k
        out = dict(a)
        for w, c in b.items():
            out[w] = out.get(w, C(0)) + c * k
        return {w: c for w, c in out.items() if not c.is_zero()}
    if isinstance(e, ast.Call) and isinstance(e.func, ast.Attribute) and e.func.attr in ("mv", "_mv", "rmv", "_rmv") and len(e.args) == 1:
        recv = ast.unparse(e.func.value)
        adj = e.func.attr in ("rmv", "_rmv")
        inner = _parse(e.args[0], xname)
        return {((recv, adj),) + w: c for w, c in inner.items()}
    raise Uninterpretable("expression %s" % ast.unparse(e))


def _coef(e: ast.AST) -> Rat:
    if isinstance(e, ast.Constant) and isinstance(e.value, (int, float)) and not isinstance(e.value, bool):
        from fractions import Fraction
        return C(Fraction(str(e.value)))
    if isinstance(e, ast.Attribute) and isinstance(e.value, ast.Name) and e.value.id == "self":
        return S("self." + e.attr)
    if isinstance(e, ast.UnaryOp) and isinstance(e.op, ast.USub):
        return -_coef(e.operand)
    raise Uninterpretable("coefficient %s" % ast.unparse(e))


def _adjoint(p: Dict[Word, Rat]) -> Dict[Word, Rat]:
    return {tuple((r, not a) for r, a in reversed(w)): c for w, c in p.items()}


def _single_return(fi: FuncInfo) -> ast.AST:
    rets = [r for r in own_nodes(fi.node) if isinstance(r, ast.Return) and r.value is not None]
    if len(rets) != 1:
        raise Uninterpretable("%s has %d returns" % (fi.fq, len(rets)))
    # inline single-definition locals
    from ..flow import function_defs
    defs = function_defs(fi.node)

    class Tm(ast.NodeTransformer):
        def visit_Name(self, n):
            if isinstance(n.ctx, ast.Load) and len(defs.get(n.id, [])) == 1 and n.id not in fi.params():
                import copy
                return self.visit(copy.deepcopy(defs[n.id][0]))
            return n
    import copy
    return Tm().visit(copy.deepcopy(rets[0].value))


def _fmt(p: Dict[Word, Rat]) -> str:
    def w2s(w):
        return " ".join("%s%s" % (r.replace("self.", ""), "^H" if a else "") for r, a in w) or "I"
    return " + ".join("(%r) %s" % (c, w2s(w)) for w, c in sorted(p.items(), key=lambda kv: str(kv[0]))) or "0"


def composed_classes(model: Model) -> List[ClassInfo]:
    out = []
    for c in model.module(LINOP).classes.values():
        if c.derives_from("LinearOperator") and "_mv" in c.methods and "_rmv" in c.methods:
            out.append(c)
    return out


def adjoint_structure(model: Model, R: RuleResult) -> int:
    n = 0
    for c in sorted(composed_classes(model), key=lambda c: c.name):
        mv, rmv = c.methods["_mv"], c.methods["_rmv"]
        try:
            pm = _parse(_strip_guards(mv), mv.params()[1])
            pr = _parse(_strip_guards(rmv), rmv.params()[1])
        except Uninterpretable as e:
            R.note("%s: products are not operator expressions (%s) - not a composed operator, skipped" % (c.name, e))
            continue
        n += 1
        want = _adjoint(pm)
        same = set(want) == set(pr) and all(want[w].eq(pr[w]) for w in want)
        what = "%s: _mv = %s ; _rmv = %s" % (c.name, _fmt(pm), _fmt(pr))
        if same:
            R.ok(c.fq, what + "  (formal adjoint)")
        else:
            R.bad(rmv, rmv.node, "%s._rmv is not the adjoint of its _mv: _mv = %s, so _rmv must be %s, found %s" % (c.name, _fmt(pm), _fmt(want), _fmt(pr)), what=what)
        # a dense form, where the class defines one, is the same operator polynomial as _mv
        fm = c.methods.get("_fullmatrix")
        if fm is not None:
            try:
                pf = _parse_matrix(_single_return(fm))
            except Uninterpretable as e:
                R.note("%s._fullmatrix is not an operator expression (%s) - skipped" % (c.name, e))
                continue
            samef = set(pf) == set(pm) and all(pf[w].eq(pm[w]) for w in pm)
            if samef:
                R.ok(fm.fq, "%s._fullmatrix = %s (the operator of _mv)" % (c.name, _fmt(pf)))
            else:
                R.bad(fm, fm.node, "%s._fullmatrix is the matrix of %s but _mv applies %s: the dense methods (exactsolve / exacteig / fullmatrix()) and the "
                      "matrix-free ones then work on different operators" % (c.name, _fmt(pf), _fmt(pm)))
    return n


def _parse_matrix(e: ast.AST) -> Dict[Word, Rat]:
    """a dense-matrix expression over the operands' full matrices -> {word: coefficient} (words list the factors left to right)"""
    from ..domains.ncalg import is_adjoint_expr
    adj = is_adjoint_expr(e, False)
    if adj is not None:
        return _adjoint(_parse_matrix(adj))
    if isinstance(e, ast.Call) and isinstance(e.func, ast.Attribute) and e.func.attr in ("fullmatrix", "_fullmatrix") and not e.args:
        return {((ast.unparse(e.func.value), False),): C(1)}
    if isinstance(e, ast.Call) and ast.unparse(e.func) == "torch.matmul" and len(e.args) == 2:
        a, b = _parse_matrix(e.args[0]), _parse_matrix(e.args[1])
        out: Dict[Word, Rat] = {}
        for wa, ca in a.items():
            for wb, cb in b.items():
                out[wa + wb] = out.get(wa + wb, C(0)) + ca * cb
        return out
    if isinstance(e, ast.BinOp) and isinstance(e.op, (ast.Add, ast.Sub)):
        a, b = _parse_matrix(e.left), _parse_matrix(e.right)
        out = dict(a)
        for w, c in b.items():
            out[w] = out.get(w, C(0)) + (c if isinstance(e.op, ast.Add) else -c)
        return {w: c for w, c in out.items() if not c.is_zero()}
    if isinstance(e, ast.BinOp) and isinstance(e.op, ast.Mult):
        for opnd, coef in ((e.left, e.right), (e.right, e.left)):
            try:
                k = _coef(coef)
                inner = _parse_matrix(opnd)
            except Uninterpretable:
                continue
            return {w: c * k for w, c in inner.items()}
    if isinstance(e, ast.UnaryOp) and isinstance(e.op, ast.USub):
        return {w: -c for w, c in _parse_matrix(e.operand).items()}
    raise Uninterpretable("matrix expression %s" % ast.unparse(e)[:60])


def _strip_guards(fi: FuncInfo) -> ast.AST:
    """the returned operator expression (capability guards that raise are not part of the algebra)"""
    return _single_return(fi)


# ---------------------------------------------------------------------------------------------- shapes
def _cfgs(maxrank: int):
    out = []
    for r in range(0, maxrank + 1):
        for combo in itertools.product((False, True), repeat=r):
            out.append(tuple(("b%d" % (r - i)) if c else 1 for i, c in enumerate(combo)))
    return out


def _hook(it: ShapeInterp, c: ast.Call):
    if ast.unparse(c.func) == "get_bcasted_dims":
        shapes = it.args_of(c)
        out = ()
        for s in shapes:
            out = broadcast(out, tuple(s))
        return out
    return None


class _Op:
    """abstract operand operator: only `.shape` is interpreted"""
    def __init__(self, shape):
        self.shape = tuple(shape)


def constructor_shapes(model: Model, R: RuleResult, tier: str) -> int:
    """shape handed to LinearOperator.__init__ by each composed operator, for every batch pattern of the operands"""
    maxrank = 2 if tier == "quick" else 3
    cfgs = _cfgs(maxrank)
    specs = {
        "MatmulLinearOperator": (("a", ("p", "q")), ("b", ("q", "r")), lambda ba, bb: broadcast(ba, bb) + ("p", "r")),
        "AddLinearOperator": (("a", ("p", "q")), ("b", ("p", "q")), lambda ba, bb: broadcast(ba, bb) + ("p", "q")),
        "MulLinearOperator": (("a", ("p", "q")), None, lambda ba, bb: ba + ("p", "q")),
        "AdjointLinearOperator": (("obj", ("p", "q")), None, lambda ba, bb: ba + ("q", "p")),
    }
    total = 0
    for cname, (o1, o2, expf) in specs.items():
        cls = model.cls(LINOP, cname)
        init = cls.find_method("__init__")
        sup = [c for c in own_nodes(init.node) if isinstance(c, ast.Call) and "__init__" in ast.unparse(c.func)]
        shp = None
        for c in sup:
            for k in c.keywords:
                if k.arg == "shape":
                    shp = k.value
        if shp is None:
            raise AnalysisError("C11-SH: %s.__init__ does not pass shape= to LinearOperator.__init__" % cname)
        from ..flow import function_defs
        defs = function_defs(init.node)
        while isinstance(shp, ast.Name) and len(defs.get(shp.id, [])) == 1:
            shp = defs[shp.id][0]
        bad = None
        n = 0
        P = init.params()
        for ba in cfgs:
            for bb in (cfgs if o2 else [()]):
                n += 1
                env = {P[1]: _OpT(ba + o1[1])}
                if o2:
                    env[P[2]] = _OpT(bb + o2[1])
                it = ShapeInterp(env, call_hook=_hook)
                try:
                    got = tuple(it.ev(shp))
                    exp = tuple(expf(ba, bb))
                except ShapeError as e:
                    got, exp = "shape error: %s" % e, None
                except Uninterpretable as e:
                    raise AnalysisError("C11-SH: cannot interpret the shape expression of %s: %s" % (cname, e))
                if got != exp and bad is None:
                    bad = (ba, bb, got, exp)
        total += n
        if bad is None:
            R.ok(cls.fq, "%s declares shape %s for all %d batch patterns of its operands" % (cname, {"MatmulLinearOperator": "(*bcast(Ba,Bb), a.rows, b.cols)", "AddLinearOperator": "(*bcast(Ba,Bb), rows, cols)", "MulLinearOperator": "a.shape", "AdjointLinearOperator": "(*B, cols, rows)"}[cname], n))
        else:
            ba, bb, got, exp = bad
            R.bad(init, enclosing_stmt(shp), "%s: operands with batch shapes %s / %s give declared shape %s, but the products have shape %s: the generic mm / rmm / fullmatrix "
                  "fall-backs size their buffers from the declared shape" % (cname, ba, bb, got, exp))
    return total


class _OpT(T):
    """an operator operand is abstracted by its shape; `x.shape` works as for tensors"""
    pass


# ---------------------------------------------------------------------------------------------- statelessness
def stateless(model: Model, R: RuleResult, classes: Optional[List[ClassInfo]] = None, exempt_methods: Set[str] = frozenset({"__init__", "__new__", "__init_subclass__"}),
              only_methods: Optional[Set[str]] = None) -> int:
    if classes is None:
        classes = [c for c in model.module(LINOP).classes.values() if c.derives_from("LinearOperator") or c.name == "LinearOperator"]
    n = 0
    for c in sorted(classes, key=lambda c: c.fq):
        for mn, fi in sorted(c.methods.items()):
            if mn in exempt_methods or (only_methods is not None and mn not in only_methods):
                continue
            n += 1
            w = _state_writes(fi)
            if w:
                R.bad(fi, enclosing_stmt(w[0]) if not isinstance(w[0], ast.stmt) else w[0], "%s.%s writes instance/class state after construction: a derived value cached on the "
                      "operator survives a parameter substitution (uselinopparams) and is reused with a stale graph / stale values" % (c.name, mn))
            else:
                R.ok(fi.fq, "%s.%s writes no instance or class attribute" % (c.name, mn))
    # positive control: the detector fires on a synthetic caching getter
    ctl = ast.parse("class X:\n    def H(self):\n        if getattr(self, '_adj', None) is None:\n            self._adj = make(self)\n        return self._adj\n")
    fired = bool(_state_writes_node(ctl.body[0].body[0]))
    ctl2 = ast.parse("class X:\n    def H(self):\n        adj = make(self)\n        return adj\n")
    quiet = not _state_writes_node(ctl2.body[0].body[0])
    R.controls.append(dict(name="caching-getter", ok=fired and quiet, detail="positive control fired=%s, negative twin quiet=%s" % (fired, quiet)))
    return n


def _state_writes(fi: FuncInfo):
    return _state_writes_node(fi.node)


def _state_writes_node(fn: ast.AST):
    out = []
    first = fn.args.args[0].arg if fn.args.args else "self"
    roots = {first, "self", "cls"}
    for n in ast.walk(fn):
        tg = []
        if isinstance(n, ast.Assign):
            tg = n.targets
        elif isinstance(n, (ast.AugAssign, ast.AnnAssign)):
            tg = [n.target]
        elif isinstance(n, ast.Delete):
            tg = n.targets
        for t in tg:
            for e in (t.elts if isinstance(t, (ast.Tuple, ast.List)) else [t]):
                b = e
                while isinstance(b, ast.Subscript):
                    b = b.value
                if isinstance(b, ast.Attribute) and isinstance(b.value, ast.Name) and b.value.id in roots:
                    out.append(n)
        if isinstance(n, ast.Call) and ast.unparse(n.func) in ("setattr", "object.__setattr__", "delattr") and n.args and ast.unparse(n.args[0]) in roots:
            out.append(n)
    return out


# ---------------------------------------------------------------------------------------------- Hermitian flags
def hermitian_flags(model: Model, R: RuleResult) -> int:
    """Truth table of the `is_hermitian` flag each composed operator hands to LinearOperator.__init__, over all assignments of
    the operands' flags, the caller's flag and every other (uninterpreted) condition.  Specification: Add -> a and b;
    Mul -> a; Adjoint -> obj; Matmul -> the caller's flag only (a product of Hermitian operators is not Hermitian in general).
    A wrong True takes the shortcuts rmv = mv, rmm = mm, .H = self."""
    import itertools
    specs = {
        "AddLinearOperator": lambda v: v["a.is_hermitian"] and v["b.is_hermitian"],
        "MulLinearOperator": lambda v: v["a.is_hermitian"],
        "AdjointLinearOperator": lambda v: v["obj.is_hermitian"],
        "MatmulLinearOperator": lambda v: v["is_hermitian"],
    }
    n = 0
    from ..flow import function_defs
    for cname, spec in specs.items():
        cls = model.cls(LINOP, cname)
        init = cls.find_method("__init__")
        defs = function_defs(init.node)
        sup = [c for c in own_nodes(init.node) if isinstance(c, ast.Call) and "__init__" in ast.unparse(c.func)]
        flag = None
        for c in sup:
            for k in c.keywords:
                if k.arg == "is_hermitian":
                    flag = k.value
        if flag is None:
            raise AnalysisError("C11-HF: %s.__init__ does not pass is_hermitian= to LinearOperator.__init__" % cname)
        P = init.params()
        atoms: List[str] = []

        def collect(e, depth=0, inside=frozenset()):
            if isinstance(e, ast.Name) and len(defs.get(e.id, [])) >= 1 and depth < 6 and e.id not in inside:
                for d in defs[e.id]:
                    collect(d, depth + 1, inside | {e.id})
                return
            if isinstance(e, ast.BoolOp):
                for v in e.values:
                    collect(v, depth, inside)
                return
            if isinstance(e, ast.UnaryOp) and isinstance(e.op, ast.Not):
                collect(e.operand, depth, inside)
                return
            a = ast.unparse(e)
            if a not in atoms:
                atoms.append(a)

        def ev(e, val, depth=0, inside=frozenset()):
            if isinstance(e, ast.Name) and len(defs.get(e.id, [])) >= 1 and depth < 6 and e.id not in inside:
                # last definition wins (straight-line constructor); a parameter re-bound in terms of itself refers to the caller's value inside
                return ev(defs[e.id][-1], val, depth + 1, inside | {e.id})
            if isinstance(e, ast.BoolOp):
                vs = [ev(v, val, depth, inside) for v in e.values]
                return all(vs) if isinstance(e.op, ast.And) else any(vs)
            if isinstance(e, ast.UnaryOp) and isinstance(e.op, ast.Not):
                return not ev(e.operand, val, depth, inside)
            if isinstance(e, ast.Constant) and isinstance(e.value, bool):
                return e.value
            return val[ast.unparse(e)]
        collect(flag)
        base = [a for a in ("a.is_hermitian", "b.is_hermitian", "obj.is_hermitian", "is_hermitian")]
        allatoms = sorted(set(atoms) | {a for a in base if a.split(".")[0] in P or a in P})
        bad = None
        cnt = 0
        for combo in itertools.product((False, True), repeat=len(allatoms)):
            val = dict(zip(allatoms, combo))
            for a in base:
                val.setdefault(a, False)
            cnt += 1
            got = ev(flag, val)
            want = spec(val)
            if bool(got) != bool(want) and bad is None:
                bad = (val, got, want)
        n += 1
        if bad is None:
            R.ok(cls.fq, "%s: declared Hermitian <=> %s, for all %d assignments of %s" % (cname, {"AddLinearOperator": "both operands are", "MulLinearOperator": "the operand is",
                                                                                          "AdjointLinearOperator": "the operand is", "MatmulLinearOperator": "the caller says so"}[cname], cnt, allatoms))
        else:
            val, got, want = bad
            tv = {k: v for k, v in val.items() if k in allatoms}
            R.bad(init, enclosing_stmt(flag), "%s is declared %sHermitian when %s (specification: %s): a wrongly Hermitian operator takes the shortcuts rmv = mv, rmm = mm, .H = self"
                  % (cname, "" if got else "non-", tv, "Hermitian" if want else "not Hermitian"))
    return n


INPLACE_METHODS = {"mul_", "add_", "sub_", "div_", "neg_", "copy_", "zero_", "fill_", "addmm_", "addcmul_", "clamp_", "conj_physical_", "t_", "transpose_", "resize_"}


def no_inplace_in_products(model: Model, R: RuleResult) -> int:
    """A product must not modify in place a tensor it did not allocate itself: the value returned by an operand's product may alias
    the caller's input (restriction / identity operators) or be shared by sub-expressions."""
    n = 0
    prod = {"_mv", "_mm", "_rmv", "_rmm", "mv", "mm", "rmv", "rmm", "_fullmatrix", "fullmatrix"}
    for c in sorted(model.module(LINOP).classes.values(), key=lambda c: c.name):
        for mn, fi in sorted(c.methods.items()):
            if mn not in prod:
                continue
            n += 1
            bad = None
            params = set(fi.params())
            from ..flow import function_defs
            defs = function_defs(fi.node)

            def foreign(name: str) -> bool:
                if name in params:
                    return True
                for d in defs.get(name, []):
                    if isinstance(d, ast.Call) and isinstance(d.func, ast.Attribute) and d.func.attr in prod:
                        return True
                    if isinstance(d, ast.Name) and d.id in params:
                        return True
                return False
            for node in own_nodes(fi.node):
                if isinstance(node, ast.AugAssign):
                    root = node.target
                    while isinstance(root, (ast.Subscript, ast.Attribute)):
                        root = root.value
                    if isinstance(root, ast.Name) and foreign(root.id):
                        bad = node
                if isinstance(node, ast.Call) and isinstance(node.func, ast.Attribute) and node.func.attr in INPLACE_METHODS:
                    root = node.func.value
                    while isinstance(root, (ast.Subscript, ast.Attribute)) or (isinstance(root, ast.Call) and isinstance(root.func, ast.Attribute)
                                                                             and root.func.attr in ("view", "reshape", "squeeze", "unsqueeze", "transpose", "contiguous", "detach")):
                        if isinstance(root, ast.Call):
                            root = root.func.value
                        else:
                            root = root.value
                    if isinstance(root, ast.Name) and foreign(root.id):
                        bad = node
                    # the receiver is itself the result of an operand's product: `self.a._mv(x).add_(..)`
                    if isinstance(root, ast.Call) and isinstance(root.func, ast.Attribute) and root.func.attr in prod:
                        bad = node
                if isinstance(node, ast.Assign) and any(isinstance(t, ast.Subscript) and isinstance(t.value, ast.Name) and foreign(t.value.id) for t in node.targets):
                    bad = node
            if bad is None:
                R.ok(fi.fq, "%s.%s updates nothing in place that it did not allocate" % (c.name, mn))
            else:
                R.bad(fi, enclosing_stmt(bad) if not isinstance(bad, ast.stmt) else bad, "%s.%s modifies in place a tensor obtained from its argument or from an operand's product: "
                      "when that product returns (a view of) its input, the caller's vector and every sub-expression sharing it are overwritten" % (c.name, mn))
    return n


def scalar_validation(model: Model, R: RuleResult) -> int:
    """MulLinearOperator._rmv multiplies by the same factor f as _mv, which is the adjoint only for real f: the scalars admitted by
    __mul__ / __rmul__ must therefore be real (int, float) unless _rmv conjugates the factor."""
    lin = model.cls(LINOP, "LinearOperator")
    mul = lin.find_method("__mul__")
    rm = lin.find_method("__rmul__")
    mulop = model.cls(LINOP, "MulLinearOperator")
    rmv = mulop.methods["_rmv"]
    conj = any(isinstance(c, ast.Call) and (ast.unparse(c.func) in ("torch.conj", "np.conj") or (isinstance(c.func, ast.Attribute) and c.func.attr in ("conj", "conjugate")))
               and "self.f" in ast.unparse(c) for c in ast.walk(rmv.node))
    types = set()
    for c in ast.walk(mul.node):
        if isinstance(c, ast.Call) and ast.unparse(c.func) == "isinstance" and len(c.args) == 2 and ast.unparse(c.args[0]) == mul.params()[1]:
            t = c.args[1]
            for e in (t.elts if isinstance(t, ast.Tuple) else [t]):
                types.add(ast.unparse(e))
    raises = any(isinstance(r, ast.Raise) for r in own_nodes(mul.node))
    n = 1
    if types and types <= {"int", "float"} and raises:
        R.ok(mul.fq, "__mul__ admits only real scalars %s (others raise TypeError): multiplying by the same f in _rmv is the adjoint" % sorted(types))
    elif conj and raises:
        R.ok(mul.fq, "__mul__ admits %s and MulLinearOperator._rmv conjugates the factor" % sorted(types))
    else:
        R.bad(mul, mul.node, "__mul__ admits scalars of type %s but MulLinearOperator._rmv multiplies by f itself (not conj(f)) and keeps the operand's Hermitian flag: "
              "for a complex factor rmv / rmm / .H are not the adjoint" % sorted(types))
    rets = [r for r in own_nodes(rm.node) if isinstance(r, ast.Return)]
    if len(rets) == 1 and ast.unparse(rets[0].value) == "self.__mul__(%s)" % rm.params()[1]:
        R.ok(rm.fq, "__rmul__ delegates to __mul__ (same validation)")
        n += 1
    else:
        R.bad(rm, rm.node, "__rmul__ must delegate to __mul__ so that the same scalar validation applies")
        n += 1
    return n


def matrix_products(model: Model, R: RuleResult):
    """MatrixLinearOperator's products decided in index notation (domains/indexexpr.py): _mv is sum_q mat[p,q] x[q], _rmv is
    sum_p conj(mat[p,q]) x[p], _mm / _rmm the same with a column index, _fullmatrix is mat - whatever the spelling (column- or
    row-vector form, matmul / einsum, .mH / transpose().conj()).  Returns the set of method qualnames it decided (the transpose-without-
    conjugation lint leaves those to this rule)."""
    from ..domains import indexexpr as ix
    LINOP = "xitorch/_core/linop.py"
    cls = model.cls(LINOP, "MatrixLinearOperator")
    decided = set()
    spec = {"_mv": ("pq,q->p", False, 1), "_rmv": ("pq,p->q", True, 1), "_mm": ("pq,qr->pr", False, 2), "_rmm": ("pq,pr->qr", True, 2)}
    for name, (es, cj, xr) in spec.items():
        m = cls.methods.get(name)
        if m is None:
            continue
        me, px = m.params()[:2]
        mat, x = ix.IX.atom("mat", 2), ix.IX.atom("x", xr)
        ev = ix.IndexEval({"%s.mat" % me: mat, px: x})
        try:
            ev.run(m.node.body)
            got = ev.returned
            want = ix.einsum(es, [ix.conj(mat) if cj else mat, x])
        except ix.BatchMix as e:
            decided.add(m.qualname)
            R.bad(m, m.node, "MatrixLinearOperator.%s: %s - the operator and its operand may both be batched ((*B, p, q) and (*B, q)), so the product mixes the batch "
                  "axis with the matrix axes (wrong shape or silently wrong values)" % (name, e))
            continue
        except ix.Unsupported as e:
            R.note("MatrixLinearOperator.%s: not interpretable in index notation (%s)" % (name, e))
            continue
        decided.add(m.qualname)
        if got is not None and got.same(want):
            R.ok(m.fq, "MatrixLinearOperator.%s == %s" % (name, want.show()))
        else:
            R.bad(m, m.node, "MatrixLinearOperator.%s must be %s (%s); it is %s" % (
                name, want.show(), "the product with the conjugate transpose of the matrix" if cj else "the product with the matrix", got.show() if got is not None else None))
    return decided


# ------------------------------------------------------------------------------------------------- VW: .view on the caller's operand
_STRIDE_CHANGING = {"transpose", "permute", "movedim", "moveaxis", "swapaxes", "swapdims", "expand", "expand_as", "narrow", "unbind", "chunk", "split", "diagonal", "t",
                    "flip_view", "unfold", "as_strided", "select", "index_select_view"}
_STRIDE_KEEPING = {"squeeze", "unsqueeze", "detach", "conj", "requires_grad_", "to", "type", "double", "float", "view_as"}


def _view_hits(fnode: ast.FunctionDef, operand_params: Set[str]) -> List[Tuple[ast.Call, str]]:
    """calls `X.view(<shape>)` of the function whose receiver is (a view of) a tensor handed in by the caller, or a transposed /
    permuted / expanded / sliced view of anything, with no `.contiguous()`, copy or arithmetic in between.  `view` never copies: it
    raises RuntimeError when the requested shape is not expressible on the strides - which is what a non-contiguous operand gives."""
    from ..flow import function_defs
    defs = function_defs(fnode)

    def noncontig(e, depth=0, seen=None) -> Optional[str]:
        """a reason why `e` may be non-contiguous, None when it cannot be shown"""
        seen = seen if seen is not None else set()
        if isinstance(e, ast.Name):
            if e.id in operand_params and not defs.get(e.id):
                return "`%s` is the caller's tensor (any strides)" % e.id
            if e.id in seen or depth > 5:
                return None
            seen.add(e.id)
            for d in defs.get(e.id, []):
                if isinstance(d, ast.AST) and not isinstance(d, (ast.FunctionDef, ast.Lambda)):
                    r = noncontig(d, depth + 1, seen)
                    if r:
                        return r
            if e.id in operand_params:
                return None
            return None
        if isinstance(e, ast.Attribute) and e.attr in ("T", "mT", "H", "mH", "real", "imag"):
            return "`%s` is a strided view" % ast.unparse(e)[:40]
        if isinstance(e, ast.Call) and isinstance(e.func, ast.Attribute):
            a = e.func.attr
            if a in _STRIDE_CHANGING:
                return "`%s` is a strided view" % ast.unparse(e)[:50]
            if a in _STRIDE_KEEPING or (a == "view" and _is_shape_view(e)):
                return noncontig(e.func.value, depth, seen)
            return None
        if isinstance(e, ast.Call) and ast.unparse(e.func) in ("torch.transpose", "torch.permute", "torch.movedim", "torch.swapaxes", "torch.narrow"):
            return "`%s` is a strided view" % ast.unparse(e)[:50]
        if isinstance(e, ast.Subscript):
            sl = e.slice.elts if isinstance(e.slice, ast.Tuple) else [e.slice]
            if any(isinstance(x, ast.Slice) and (x.lower is not None or x.upper is not None or x.step is not None) for x in sl[1:]) or \
                    any(isinstance(x, ast.Slice) and x.step is not None for x in sl[:1]):
                return "`%s` is a strided view" % ast.unparse(e)[:50]
            return noncontig(e.value, depth, seen)
        return None
    out = []
    for c in own_nodes(fnode):
        if isinstance(c, ast.Call) and isinstance(c.func, ast.Attribute) and c.func.attr == "view" and _is_shape_view(c):
            why = noncontig(c.func.value)
            if why:
                out.append((c, why))
    return out


def _is_shape_view(c: ast.Call) -> bool:
    if c.keywords and any(k.arg == "dtype" for k in c.keywords):
        return False
    if len(c.args) == 1 and not isinstance(c.args[0], ast.Starred):
        t = ast.unparse(c.args[0])
        if t.startswith("torch.") or "dtype" in t:
            return False
    return bool(c.args)


def view_of_operand(model: Model, R: RuleResult) -> int:
    """every product method (_mv, _rmv, _mm, _rmm and their helpers of the same class) of every LinearOperator subclass of the package:
    the operand is never reshaped with `.view`.  The generic mm / rmm fall-backs (and AdjointLinearOperator) move the column axis of a
    matrix operand to the front with a transpose and pass that NON-CONTIGUOUS tensor to _mv / _rmv; `reshape` copies when it must,
    `view` raises - so mm is no longer mv column by column as soon as the operand has batch dimensions."""
    n = 0
    prod = ("_mv", "_rmv", "_mm", "_rmm")
    for c in sorted(model.all_classes(), key=lambda c: c.fq):
        if not (c.derives_from("LinearOperator") or c.name == "LinearOperator"):
            continue
        for mn in prod:
            fi = c.methods.get(mn)
            if fi is None:
                continue
            n += 1
            try:
                node = model.flat_func(fi.module.relpath, fi.qualname).node
            except Exception:
                node = fi.node
            hits = _view_hits(node, set(fi.params()[1:]))
            if hits:
                for call, why in hits:
                    R.bad(fi, enclosing_stmt(call) if getattr(call, "_parent", None) is not None else fi.node, "%s.%s reshapes with `%s`: %s, and view raises on strides it cannot express "
                          "(the mm / rmm fall-backs hand the transposed operand to this method) - use reshape" % (c.name, mn, ast.unparse(call)[:60], why),
                          what="%s.%s: %s" % (c.name, mn, ast.unparse(call)[:60]))
            else:
                R.ok(fi.fq, "%s.%s never applies .view(<shape>) to (a view of) its operand" % (c.name, mn))
    ctl = ast.parse("def _mv(self, x):\n    x1 = x.unsqueeze(0)\n    return x1.view(-1, 3)\n").body[0]
    ctl2 = ast.parse("def _mv(self, x):\n    y = torch.cat([x, x], dim=0)\n    z = x.reshape(-1, 3)\n    return y.view(-1, 3) + x.view(torch.float32).sum()\n").body[0]
    fired, quiet = bool(_view_hits(ctl, {"x"})), not _view_hits(ctl2, {"x"})
    R.controls.append(dict(name="view-of-operand", ok=fired and quiet, detail="positive control fired=%s, negative twin quiet=%s" % (fired, quiet)))
    return n
