"""Hermitian-adjoint idiom: a transpose over the last two axes in adjoint-role code is accompanied by a
conjugation in the same expression chain."""
from __future__ import annotations
import ast
from typing import Dict, Set, Tuple, Optional
from ..model import Model, own_nodes, parent, enclosing_stmt
from ..report import RuleResult


def _is_last2_transpose(c: ast.AST) -> bool:
    if isinstance(c, ast.Call) and isinstance(c.func, ast.Attribute) and c.func.attr in ("transpose", "swapaxes") and len(c.args) == 2:
        vals = []
        for a in c.args:
            if isinstance(a, ast.UnaryOp) and isinstance(a.op, ast.USub) and isinstance(a.operand, ast.Constant):
                vals.append(-a.operand.value)
            elif isinstance(a, ast.Constant):
                vals.append(a.value)
            else:
                return False
        return sorted(vals) == [-2, -1]
    return False


def _is_conj_call(c: ast.AST) -> bool:
    return isinstance(c, ast.Call) and ((isinstance(c.func, ast.Attribute) and c.func.attr in ("conj", "conj_physical")) or
                                        ast.unparse(c.func) in ("torch.conj", "torch.conj_physical"))


def _conj_in_chain(t: ast.Call) -> bool:
    # receiver chain below:   X.conj().transpose(..)
    recv = t.func.value
    while isinstance(recv, ast.Call) and isinstance(recv.func, ast.Attribute):
        if _is_conj_call(recv):
            return True
        if recv.func.attr in ("contiguous", "clone", "detach"):
            recv = recv.func.value
            continue
        break
    if isinstance(recv, ast.Call) and _is_conj_call(recv):
        return True
    # wrappers above:   X.transpose(..).conj()   /  torch.conj(X.transpose(..))
    node = t
    p = parent(node)
    while p is not None:
        if isinstance(p, ast.Attribute) and p.value is node:
            pp = parent(p)
            if isinstance(pp, ast.Call) and pp.func is p:
                if _is_conj_call(pp):
                    return True
                if p.attr in ("contiguous", "clone", "detach"):
                    node = pp
                    p = parent(node)
                    continue
            return False
        if isinstance(p, ast.Call) and node in p.args and _is_conj_call(p):
            return True
        return False
    return False


def hermitian_idiom(model: Model, R: RuleResult, files: Set[str], exceptions: Dict[Tuple[str, str], str]):
    # the dense operator's four products are decided semantically (index notation) - here, under this rule's id - and then exempt from the lint
    if "xitorch/_core/linop.py" in files:
        from .linopalg import matrix_products
        decided = matrix_products(model, R)
        exceptions = dict(exceptions)
        exceptions.update({("xitorch/_core/linop.py", q): "decided in index notation" for q in decided})
    _hermitian_idiom(model, R, files, exceptions)


def _hermitian_idiom(model: Model, R: RuleResult, files: Set[str], exceptions: Dict[Tuple[str, str], str]):
    """every last-two-axes transpose in `files` is conjugated in the same chain (or listed in exceptions
    keyed by (relpath, function qualname))"""
    n = 0
    for f in model.all_functions():
        if f.module.relpath not in files:
            continue
        for c in own_nodes(f.node):
            if _is_last2_transpose(c):
                n += 1
                key = (f.module.relpath, f.qualname)
                what = "`%s`" % ast.unparse(c)
                if key in exceptions:
                    R.ok(f.fq, what + " exempt: " + exceptions[key])
                elif _conj_in_chain(c):
                    R.ok(f.fq, what + " conjugated in the same chain")
                else:
                    R.bad(f, enclosing_stmt(c), "transpose over the last two axes without conjugation in adjoint-role code: "
                          "for complex operators this is the transpose, not the Hermitian adjoint", what=what)
            elif isinstance(c, ast.Attribute) and c.attr in ("T", "mT") and not (isinstance(parent(c), ast.Attribute)):
                key = (f.module.relpath, f.qualname)
                n += 1
                if key in exceptions:
                    R.ok(f.fq, "`%s` exempt: %s" % (ast.unparse(c), exceptions[key]))
                else:
                    pp = parent(c)
                    ok = isinstance(pp, ast.Attribute) and pp.attr == "conj"
                    if ok:
                        R.ok(f.fq, "`%s` conjugated" % ast.unparse(c))
                    else:
                        R.bad(f, enclosing_stmt(c), "`.T`/`.mT` without conjugation in adjoint-role code", what=ast.unparse(c))
    return n


def expr_sign(e: ast.AST, defs, depth=0) -> int:
    """sign parity of an expression: +1 / -1 (through unary minus, single-definition names, 1-tuples,
    multiplication/division by numeric literals)"""
    if isinstance(e, ast.UnaryOp) and isinstance(e.op, ast.USub):
        return -expr_sign(e.operand, defs, depth)
    if isinstance(e, ast.UnaryOp) and isinstance(e.op, ast.UAdd):
        return expr_sign(e.operand, defs, depth)
    if isinstance(e, (ast.Tuple, ast.List)) and len(e.elts) == 1:
        return expr_sign(e.elts[0], defs, depth)
    if isinstance(e, ast.Name) and depth < 6:
        ds = defs.get(e.id, [])
        if len(ds) == 1:
            return expr_sign(ds[0], defs, depth + 1)
        # `y = f(x); y = -y`: one base definition followed by re-bindings in terms of the name itself
        selfref = [d for d in ds if any(isinstance(n, ast.Name) and n.id == e.id for n in ast.walk(d))]
        base = [d for d in ds if d not in selfref]
        if len(base) == 1 and selfref:
            inner = dict(defs)
            inner[e.id] = []
            sgn = expr_sign(base[0], defs, depth + 1)
            for d in selfref:
                sgn *= expr_sign(d, inner, depth + 1)
            return sgn
        return 1
    if isinstance(e, ast.BinOp) and isinstance(e.op, (ast.Mult, ast.Div)):
        s = 1
        for side in (e.left, e.right):
            if isinstance(side, ast.Constant) and isinstance(side.value, (int, float)) and side.value < 0:
                s = -s
            elif isinstance(side, ast.UnaryOp) and isinstance(side.op, ast.USub) and isinstance(side.operand, ast.Constant):
                s = -s
            else:
                s *= expr_sign(side, defs, depth + 1) if not isinstance(side, ast.Constant) else 1
        return s
    if isinstance(e, ast.Call) and isinstance(e.func, ast.Attribute) and e.func.attr in ("reshape", "view", "conj", "clone", "detach", "contiguous"):
        return expr_sign(e.func.value, defs, depth + 1)
    return 1
