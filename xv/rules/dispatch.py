"""Discovery of method-dispatch tables (`get_method(name, table, method)`)."""
from __future__ import annotations
import ast
from typing import List, Optional, Tuple
from ..model import Model, FuncInfo, own_nodes, AnalysisError
from ..flow import function_defs
from ..callgraph import resolve_call


class Table:
    def __init__(self, owner: FuncInfo, call: ast.Call, label: str, entries, expr):
        self.owner = owner
        self.call = call
        self.label = label
        self.entries: List[Tuple[str, ast.AST]] = entries   # (key, value expr)
        self.key_nodes: List[ast.AST] = []
        self.expr = expr


def _dict_entries(d: ast.Dict, model: Optional[Model] = None, module=None, depth: int = 0):
    out = []
    for k, v in zip(d.keys, d.values):
        if k is None:
            # {**A, **B}: expand the unpacked tables (module-level dict literals)
            sub = _resolve_in_module(model, module, v, depth + 1) if (model is not None and module is not None and depth < 4) else []
            if not sub:
                raise AnalysisError("dict unpacking of `%s` inside a method table cannot be resolved to a dict literal" % ast.unparse(v))
            for _, dd in sub:
                out += _dict_entries(dd, model, module, depth + 1)
            continue
        if isinstance(k, ast.Constant) and isinstance(k.value, str):
            out.append((k.value, v, k))
        else:
            out.append((None, v, k))
    return out


def resolve_table_expr(model: Model, fi: FuncInfo, expr: ast.AST, depth=0) -> List[Tuple[str, ast.Dict]]:
    """-> [(label, Dict literal)] for a table expression (dict literal, local/global name of one,
    or a dict-of-tables subscripted by a selector)."""
    if depth > 5:
        return []
    if isinstance(expr, ast.Dict):
        return [("", expr)]
    if isinstance(expr, ast.Name):
        defs = function_defs(fi.node).get(expr.id, [])
        out = []
        for d in defs:
            out += resolve_table_expr(model, fi, d, depth + 1)
        if out:
            return out
        r = model.resolve_global(fi.module, expr.id)
        if r and r[0] == "assign":
            return _resolve_in_module(model, r[1], r[2], depth + 1)
        return []
    if isinstance(expr, ast.Subscript) and isinstance(expr.value, ast.Name):
        # a dict of tables held in a (module-level or local) name
        base = None
        for d in function_defs(fi.node).get(expr.value.id, []):
            if isinstance(d, ast.Dict):
                base = d
        if base is None:
            r = model.resolve_global(fi.module, expr.value.id)
            hops = 0
            while r and r[0] == "assign" and isinstance(r[2], ast.Name) and hops < 4:
                r = model.resolve_global(r[1], r[2].id)
                hops += 1
            if r and r[0] == "assign" and isinstance(r[2], ast.Dict):
                base = r[2]
        if base is not None:
            return resolve_table_expr(model, fi, ast.Subscript(value=base, slice=expr.slice, ctx=ast.Load()), depth + 1)
        return []
    if isinstance(expr, ast.Subscript) and isinstance(expr.value, ast.Dict):
        out = []
        for k, v in zip(expr.value.keys, expr.value.values):
            lab = k.value if isinstance(k, ast.Constant) else ast.unparse(k)
            for l2, d in resolve_table_expr(model, fi, v, depth + 1):
                out.append((str(lab), d))
        return out
    return []


def _resolve_in_module(model, module, expr, depth):
    if isinstance(expr, ast.Dict):
        return [("", expr)]
    if isinstance(expr, ast.Name):
        r = model.resolve_global(module, expr.id)
        if r and r[0] == "assign":
            return _resolve_in_module(model, r[1], r[2], depth + 1)
    return []


def is_get_method_call(model: Model, fi: FuncInfo, c: ast.Call) -> bool:
    r = resolve_call(model, fi, c, by_unique_name=False)
    return r is not None and r.name == "get_method" and r.module.relpath == "xitorch/_utils/misc.py"


def dispatch_tables_in(model: Model, fi: FuncInfo) -> List[Table]:
    out = []
    for c in own_nodes(fi.node):
        if isinstance(c, ast.Call) and is_get_method_call(model, fi, c):
            if len(c.args) < 3:
                raise AnalysisError("%s: get_method call without (algname, methods, method)" % fi.fq)
            for label, d in resolve_table_expr(model, fi, c.args[1]):
                ents = _dict_entries(d, model, fi.module)
                t = Table(fi, c, label, [(k, v) for k, v, _ in ents], d)
                t.key_nodes = [kn for _, _, kn in ents]
                out.append(t)
    return out


def all_get_method_calls(model: Model):
    res = []
    for f in model.all_functions():
        for c in own_nodes(f.node):
            if isinstance(c, ast.Call) and is_get_method_call(model, f, c):
                res.append((f, c))
    return res
