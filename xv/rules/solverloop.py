"""Rules about iterative solver loops: warn-or-converged typestate, provenance of the convergence
flag, returned-is-checked, zero-residual shortcut.  Shared by C01 and C03."""
from __future__ import annotations
import ast
import re
from typing import Optional, List, Set, Tuple, Dict
from ..model import Model, FuncInfo, own_nodes, norm_stmt, ancestors, parent, AnalysisError
from ..cfg import CFG, Node
from ..flow import (eval_flag_test, find_warn_flag, flag_typestate, bool_const_assign, def_use_closure, function_defs,
                    names_loaded, is_warn_call, VN, local_identity_functions, walk_paths, test_on_name,
                    stmt_defs, free_names_of_def)
from ..report import RuleResult

TOL_PARAM = re.compile(r"(^|_)r?tol$|^[fx]_r?tol$|^min_eps$")


def tolerance_params(fi: FuncInfo) -> Set[str]:
    return {p for p in fi.all_params() if TOL_PARAM.search(p)}


def is_zero_shortcut_test(test: ast.AST) -> bool:
    """`<n> == 0`, `torch.all(B == 0)`, `torch.allclose(B, B * 0, ...)`"""
    for n in ast.walk(test):
        if isinstance(n, ast.Compare) and len(n.ops) == 1 and isinstance(n.ops[0], ast.Eq):
            for side in (n.left, n.comparators[0]):
                if isinstance(side, ast.Constant) and side.value == 0 and not isinstance(side.value, bool):
                    return True
        if isinstance(n, ast.Call) and ast.unparse(n.func).endswith("allclose") and len(n.args) >= 2:
            a, b = n.args[0], n.args[1]
            if isinstance(b, ast.BinOp) and isinstance(b.op, ast.Mult):
                if (ast.dump(b.left) == ast.dump(a) and isinstance(b.right, ast.Constant) and b.right.value == 0) or \
                   (ast.dump(b.right) == ast.dump(a) and isinstance(b.left, ast.Constant) and b.left.value == 0):
                    return True
            if isinstance(b, ast.Call) and ast.unparse(b.func).endswith("zeros_like") and b.args and ast.dump(b.args[0]) == ast.dump(a):
                return True
    return False


def enclosing_ifs(node: ast.AST, stop: ast.AST) -> List[Tuple[ast.If, bool]]:
    """[(if stmt, in_body?)] from inner to outer, up to (not including) `stop`"""
    out = []
    child = node
    for a in ancestors(node):
        if a is stop:
            break
        if isinstance(a, ast.If):
            out.append((a, any(child is s for s in a.body)))
        child = a
    return out


def enclosing_loop(node: ast.AST, stop: ast.AST):
    for a in ancestors(node):
        if a is stop:
            return None
        if isinstance(a, (ast.For, ast.While)):
            return a
    return None


def loop_assigned_names(loop: ast.AST) -> Set[str]:
    out = set()
    for n in ast.walk(loop):
        if isinstance(n, (ast.Assign, ast.AugAssign, ast.AnnAssign, ast.For)):
            for names, _ in stmt_defs(n):
                out |= names
    return out


def check_warn_or_converged(fi: FuncInfo, W: RuleResult, W2: RuleResult, P: RuleResult,
                            category: str = "ConvergenceWarning"):
    """W : every return reachable through the main loop has warned or flag==True;
       W2: no return has both flag==True and warned;
       P : every `flag = True` is control dependent (inside the loop) on a test whose def-use closure
           contains a tolerance parameter of the function and a value recomputed in the loop."""
    fn = fi.node
    found = find_warn_flag(fn, category)
    if found is None:
        from ..flow import has_warn_anywhere
        if not has_warn_anywhere(fn, category):
            W.bad(fi, fn, "the solver loop never issues a %s: a non-converged exit is silent" % category,
                  what="%s has no %s" % (fi.qualname, category))
            return None
        raise AnalysisError("%s: a %s is issued but not under an `if <flag>` test the checker can interpret" % (fi.fq, category))
    flag, guard = found
    cfg = CFG(fn)
    states, explored = flag_typestate(cfg, flag, category)
    W.paths += explored
    rets = {}
    for st in states:
        rets.setdefault(st.node.id, []).append(st)
    if not any(st.looped for st in states):
        raise AnalysisError("%s: no return is reachable through a loop" % fi.fq)
    for nid, sts in sorted(rets.items()):
        node = sts[0].node
        for st in sorted(sts, key=lambda s: (s.flag, s.warned, s.looped)):
            desc = "return@%s flag(%s)=%s warned=%s after_loop=%s" % (node.lineno, flag, st.flag, st.warned, st.looped)
            if st.looped:
                if st.warned or st.flag == "T":
                    W.ok(fi.fq, desc)
                else:
                    W.bad(fi, node.stmt, "a return is reachable through the solver loop with neither the convergence "
                          "flag `%s` set nor a %s issued (flag=%s)" % (flag, category, st.flag), what=desc)
                if st.flag == "T" and st.warned:
                    W2.bad(fi, node.stmt, "a %s is issued on a path on which the convergence flag `%s` is True" % (category, flag), what=desc)
                else:
                    W2.ok(fi.fq, desc)
            else:
                # return before the main loop: only the zero right-hand-side / zero residual shortcut idiom
                ifs = enclosing_ifs(node.stmt, fn)
                if any(inbody and is_zero_shortcut_test(i.test) for i, inbody in ifs):
                    W.ok(fi.fq, desc + " (zero shortcut)")
                else:
                    W.bad(fi, node.stmt, "return before the solver loop that is not the zero-right-hand-side / zero-residual shortcut", what=desc)
    # provenance of flag = True
    defs = function_defs(fn)
    tols = tolerance_params(fi)
    n_true = 0
    for n in own_nodes(fn):
        if bool_const_assign(n, flag) is True:
            n_true += 1
            loop = enclosing_loop(n, fn)
            if loop is None:
                P.bad(fi, n, "convergence flag `%s` set to True outside the solver loop (no stopping test decides it)" % flag)
                continue
            lnames = loop_assigned_names(loop)
            ok = False
            why = []
            for i, inbody in enclosing_ifs(n, loop):
                if not inbody:
                    continue
                clo = def_use_closure(fn, names_loaded(i.test), defs)
                has_tol = bool(clo & tols) or _closure_has_external_terminator(fi, clo, defs)
                has_var = bool((clo & lnames) - {flag})
                why.append("if %s: tol=%s loopvar=%s" % (norm_stmt(i.test, 60), sorted(clo & tols), has_var))
                if has_tol and has_var:
                    ok = True
            if ok:
                P.ok(fi.fq, "`%s = True` guarded by %s" % (flag, "; ".join(why)))
            else:
                P.bad(fi, n, "`%s = True` is not control-dependent on a stopping test that involves a tolerance "
                      "parameter (%s) and a value recomputed in the loop [%s]" % (flag, sorted(tols), "; ".join(why)))
    if n_true == 0:
        P.bad(fi, guard, "the convergence flag `%s` is never set to True: the solver can only ever warn" % flag)
    return flag


def _closure_has_external_terminator(fi, clo, defs) -> bool:
    return False


# --------------------------------------------------------------------------------------------- C03-RC
def user_function_names(fi: FuncInfo) -> Set[str]:
    """The solver's first parameter and local closures that (transitively) call it."""
    fn = fi.node
    params = fi.params()
    if not params:
        return set()
    users = {params[0]}
    changed = True
    cands = {}
    for n in own_nodes(fn):
        if isinstance(n, ast.FunctionDef):
            cands[n.name] = n
        elif isinstance(n, ast.Assign) and len(n.targets) == 1 and isinstance(n.targets[0], ast.Name) and isinstance(n.value, ast.Lambda):
            cands[n.targets[0].id] = n.value
    while changed:
        changed = False
        for nm, d in cands.items():
            if nm in users:
                continue
            for c in ast.walk(d):
                if isinstance(c, ast.Call) and isinstance(c.func, ast.Name) and c.func.id in users:
                    users.add(nm)
                    changed = True
                    break
    return users


def find_check_call(fi: FuncInfo) -> Optional[ast.Assign]:
    """`<res> = <term>.check(x, ...)` : the termination test on the new iterate"""
    for n in own_nodes(fi.node):
        if isinstance(n, ast.Assign) and isinstance(n.value, ast.Call) and isinstance(n.value.func, ast.Attribute) \
                and n.value.func.attr == "check" and len(n.targets) == 1 and isinstance(n.targets[0], ast.Name):
            return n
    return None


def check_returned_is_checked(fi: FuncInfo, RC: RuleResult, flag: Optional[str]):
    fn = fi.node
    chk = find_check_call(fi)
    if chk is None:
        raise AnalysisError("%s: no `<r> = <terminator>.check(<iterate>, ...)` call found" % fi.fq)
    if not chk.value.args:
        raise AnalysisError("%s: terminator.check called without positional iterate" % fi.fq)
    users = user_function_names(fi)
    ident = local_identity_functions(fn, users)
    cfg = CFG(fn)
    starts = cfg.nodes_of(chk)
    if not starts:
        raise AnalysisError("%s: check statement not in CFG" % fi.fq)
    start = starts[0]
    res_name = chk.targets[0].id
    vn0 = VN(ident)
    checked = vn0.of(chk.value.args[0])
    results = []

    def transfer(node: Node, st):
        vn, fv = st
        s = node.stmt
        if node.kind == "stmt" and isinstance(s, (ast.Assign, ast.AugAssign, ast.AnnAssign)):
            if flag is not None:
                v = bool_const_assign(s, flag)
                if v is not None:
                    fv = v
            vn = vn.copy()
            vn.assign_stmt(s)
        return (vn, fv)

    def follow(node: Node, lab, st):
        vn, fv = st
        if node.kind == "test" and isinstance(node.stmt, ast.If):
            t = node.stmt.test
            val = eval_flag_test(t, res_name, True)   # we follow the converged outcome of the termination test
            if val is None and flag is not None and fv is not None:
                val = eval_flag_test(t, flag, fv)
            if val is not None and lab != val:
                return False
        return True

    def on_return(node: Node, st):
        vn, fv = st
        if node.kind != "return" or node.stmt.value is None:
            results.append((node, False, "<implicit None>"))
            return
        results.append((node, vn.of(node.stmt.value) == checked, ast.unparse(node.stmt.value)))

    npaths = walk_paths(cfg, start, (vn0, None), transfer, follow, on_return)
    RC.paths += npaths
    if not results:
        raise AnalysisError("%s: no return reachable from the converged outcome of the termination test" % fi.fq)
    seen = set()
    for node, ok, txt in results:
        k = (node.id, ok)
        if k in seen:
            continue
        seen.add(k)
        what = "converged path: check(%s, ..) -> return %s" % (ast.unparse(chk.value.args[0]), txt)
        if ok:
            RC.ok(fi.fq, what)
        else:
            RC.bad(fi, node.stmt, "on a converged exit path the returned value is not (a reshaping of) the iterate `%s` "
                   "that passed the termination test" % ast.unparse(chk.value.args[0]), what=what)


# --------------------------------------------------------------------------------------------- C03-RZ
def check_zero_shortcut(fi: FuncInfo, RZ: RuleResult):
    """`if <n> == 0: return E` before the loop: <n> is the norm of a residual F(P) or A - B with A = f(B);
    E must be an identity wrapper of P."""
    fn = fi.node
    users = user_function_names(fi)
    ident = local_identity_functions(fn, users)
    vn = VN(ident)
    produced: Dict[str, int] = {}    # var -> VN of the argument of the user call that produced it
    defs: Dict[str, ast.AST] = {}
    found = False
    for s in fn.body:
        if isinstance(s, (ast.For, ast.While)):
            break
        if isinstance(s, ast.If) and s.body and isinstance(s.body[0], ast.Return) and is_zero_shortcut_test(s.test):
            found = True
            t = s.test
            names = [x.id for x in ast.walk(t) if isinstance(x, ast.Name)]
            if not names:
                raise AnalysisError("%s: zero-shortcut test without a name" % fi.fq)
            n = names[0]
            e = defs.get(n)
            if e is None:
                raise AnalysisError("%s: cannot find the definition of `%s` tested by the zero shortcut" % (fi.fq, n))
            while isinstance(e, ast.Call) and isinstance(e.func, ast.Attribute) and e.func.attr in ("norm", "abs", "max"):
                e = e.func.value
            if isinstance(e, ast.Call) and ast.unparse(e.func).endswith("norm") and e.args:
                e = e.args[0]
            if isinstance(e, ast.Name) and e.id in defs and e.id not in produced:
                e = defs[e.id]
            P = None
            form = None
            if isinstance(e, ast.BinOp) and isinstance(e.op, ast.Sub) and isinstance(e.left, ast.Name) and isinstance(e.right, ast.Name):
                if e.left.id in produced and produced[e.left.id] == vn.of(e.right):
                    P = vn.of(e.right)
                    form = "fixed-point residual f(P) - P"
                elif e.right.id in produced and produced[e.right.id] == vn.of(e.left):
                    P = vn.of(e.left)
                    form = "fixed-point residual P - f(P)"
            elif isinstance(e, ast.Name) and e.id in produced:
                P = produced[e.id]
                form = "root residual f(P)"
            ret = s.body[0].value
            what = "zero-residual shortcut (%s): return %s" % (form, ast.unparse(ret) if ret is not None else None)
            if P is None:
                RZ.bad(fi, s.body[0], "the quantity tested against zero is not recognisably the residual of the user "
                       "function at some point (form not root/fixed-point)", what=what)
            elif ret is not None and vn.of(ret) == P:
                RZ.ok(fi.fq, what)
            else:
                RZ.bad(fi, s.body[0], "zero-residual shortcut returns a value that is not the point at which the zero "
                       "residual was measured (%s)" % form, what=what)
            continue
        if isinstance(s, ast.Assign) and len(s.targets) == 1 and isinstance(s.targets[0], ast.Name):
            t = s.targets[0].id
            v = s.value
            p = None
            if isinstance(v, ast.Call) and isinstance(v.func, ast.Name) and v.func.id in users and v.args:
                p = vn.of(v.args[0])
            elif isinstance(v, ast.Name) and v.id in produced:
                p = produced[v.id]
            vn.assign_stmt(s)
            defs[t] = v
            if p is not None:
                produced[t] = p
            else:
                produced.pop(t, None)
        elif isinstance(s, (ast.Assign, ast.AugAssign, ast.AnnAssign)):
            vn.assign_stmt(s)
    return found
