"""Option-splitting discipline between forward and backward passes of the functionals.

Every Function.forward that keeps backward options builds them as
    ctx.<attr> = set_default_option(<forward options>, <bck_options>)
i.e. defaults = the complete forward options, overrides = the caller's bck_options.  Necessary conditions:
  OPT-1  argument order: first argument derives from the forward-options parameter, second is the
         bck_options parameter (swapped, forward options would override the caller's backward options);
  OPT-2  completeness: no entry is removed from the forward-options dictionary (pop / del) on any path
         before it is copied (otherwise e.g. the forward `method` is lost for the backward pass);
  OPT-3  no later item store into the saved dictionary in forward (it would override the caller's bck_options).
"""
from __future__ import annotations
import ast
from typing import Optional, Set
from ..model import Model, own_nodes, norm_stmt, enclosing_stmt, AnalysisError
from ..cfg import CFG
from ..flow import function_defs
from ..report import RuleResult
from . import autograd as ac


def _aliases_of_param(fn, param: str) -> Set[str]:
    defs = function_defs(fn)
    out = {param}
    changed = True
    while changed:
        changed = False
        for nm, ds in defs.items():
            if nm not in out and ds and all(isinstance(d, ast.Name) and d.id in out for d in ds):
                out.add(nm)
                changed = True
    return out


def option_merge(model: Model, fc: ac.FnCls, R: RuleResult) -> int:
    fw = fc.forward
    fn = fw.node
    if "bck_options" not in fc.fixed:
        return 0
    fwd_param = "fwd_options" if "fwd_options" in fc.fixed else ("options" if "options" in fc.fixed else None)
    n = 0
    merges = []
    for s in own_nodes(fn):
        if isinstance(s, ast.Assign) and isinstance(s.targets[0], ast.Attribute) and isinstance(s.targets[0].value, ast.Name) \
                and s.targets[0].value.id == fc.ctx and isinstance(s.value, ast.Call) \
                and ast.unparse(s.value.func).split(".")[-1] == "set_default_option" and len(s.value.args) == 2:
            merges.append(s)
    for s in merges:
        a0, a1 = s.value.args
        n += 1
        what = "%s.forward: %s" % (fc.name, norm_stmt(s, 100))
        bck_alias = _aliases_of_param(fn, "bck_options")
        ok1 = isinstance(a1, ast.Name) and a1.id in bck_alias
        if fwd_param is not None:
            fwd_alias = _aliases_of_param(fn, fwd_param)
            ok0 = (isinstance(a0, ast.Name) and a0.id in fwd_alias) or isinstance(a0, ast.Dict)
        else:
            ok0 = isinstance(a0, ast.Dict)
        if ok0 and ok1:
            R.ok(fw.fq, what + " : defaults = forward options, overrides = bck_options")
        else:
            R.bad(fw, s, "the saved backward options must be set_default_option(<forward options>, bck_options): with the arguments in "
                  "another order the forward options override what the caller asked for in bck_options", what=what)
        # OPT-2: no pop/del on the forward options before this statement
        if fwd_param is not None and isinstance(a0, ast.Name):
            cfg = CFG(fn)
            dom = cfg.dominators(skip_exc=True)
            mnodes = cfg.nodes_of(s)
            fwd_alias = _aliases_of_param(fn, fwd_param)
            for nd in cfg.nodes:
                st = nd.stmt
                if st is None or nd.kind != "stmt" or isinstance(st, (ast.With, ast.Try, ast.FunctionDef)):
                    continue
                removed = None
                for c in ast.walk(st):
                    if isinstance(c, ast.Call) and isinstance(c.func, ast.Attribute) and c.func.attr in ("pop", "popitem", "clear") \
                            and isinstance(c.func.value, ast.Name) and c.func.value.id in fwd_alias:
                        removed = c
                if isinstance(st, ast.Delete):
                    for t in st.targets:
                        if isinstance(t, ast.Subscript) and isinstance(t.value, ast.Name) and t.value.id in fwd_alias:
                            removed = t
                if removed is None:
                    continue
                n += 1
                # the merge must dominate the removal (it happens first on every path)
                if mnodes and all(any(m.id in dom.get(nd.id, ()) for m in mnodes) for _ in [0]):
                    R.ok(fw.fq, "%s.forward: `%s` happens after the backward options were copied" % (fc.name, norm_stmt(st, 60)))
                else:
                    R.bad(fw, st, "an entry is removed from the forward options before they are copied into ctx.%s: the backward pass "
                          "loses it (e.g. the forward `method` no longer applies to the backward integration/quadrature)" % s.targets[0].attr,
                          what=norm_stmt(st, 80))
        # OPT-3: no item store into the saved dict
        attr = s.targets[0].attr
        for st in own_nodes(fn):
            if isinstance(st, ast.Assign):
                for t in st.targets:
                    if isinstance(t, ast.Subscript) and ast.unparse(t.value) == "%s.%s" % (fc.ctx, attr):
                        n += 1
                        R.bad(fw, st, "item store into the saved backward options overrides what the caller passed in bck_options "
                              "(use setdefault)", what=norm_stmt(st, 80))
    return n
