"""Package-wide ownership rules, attributed to a property through the files its anchors name.

**HS hidden state (who-may-hold-state).**  Every property quantified over histories / configurations needs the numerical
code to be free of cross-call state, except the state the design already has (parameter substitution stacks, name
caches of EditableModule, the graph cache of _Jac, the debug flag, per-class capability flags).  The complete table of
state *holders* on the pinned tree - (function, kind, target) triples: instance/class attribute stores outside
constructors, mutating calls on such attributes, setattr/delattr, global/nonlocal, mutation of module-level or
closure-captured containers - is frozen in `state_table.json`, each group with its reason.  A state holder that is not in
the table is reported: a new memo / cache / class-level conversion makes results depend on what was computed before
(stale graph, stale dtype, stale grid).  Like a who-may-call table, the rule is exact about *what* it reports (the new
writer) and does not judge whether a particular cache could be made safe.

**WF warning filters.**  No call of warnings.simplefilter / filterwarnings / resetwarnings in the package: the
"... or a ConvergenceWarning is raised" clauses need the warning to be able to reach the caller.

**DA `.data` assignment.**  `<tensor>.data = ...` bypasses autograd and keeps the old tensor object: never used.
"""
from __future__ import annotations
import ast
import json
import os
from typing import Dict, List, Optional, Set, Tuple
from ..model import Model, FuncInfo, own_nodes, norm_stmt, enclosing_stmt, AnalysisError
from ..report import RuleResult

HERE = os.path.dirname(os.path.abspath(__file__))
VERIF = os.path.dirname(os.path.dirname(HERE))
MUT_METHODS = {"append", "extend", "update", "pop", "clear", "setdefault", "insert", "remove", "add", "discard", "popitem",
               "__setitem__", "__delitem__", "sort", "reverse"}
CTORS = {"__init__", "__new__", "__init_subclass__", "__post_init__"}

_ANCHORS: Optional[Dict[str, Set[str]]] = None


def anchors() -> Dict[str, Set[str]]:
    """property id -> set of anchor files (from the given, fixed properties.jsonl)"""
    global _ANCHORS
    if _ANCHORS is None:
        out: Dict[str, Set[str]] = {}
        with open(os.path.join(VERIF, "properties.jsonl")) as f:
            for line in f:
                p = json.loads(line)
                out[p["id"]] = set(p["anchors"]["files"])
        # files that implement a property's behaviour although the anchor list does not name them
        out.setdefault("C03", set()).update({"xitorch/_impls/optimize/root/_jacobian.py"})
        out.setdefault("C01", set()).update({"xitorch/_impls/optimize/root/_jacobian.py", "xitorch/_impls/optimize/root/rootsolver.py"})
        out.setdefault("C14", set()).update({"xitorch/_impls/interpolate/base_interp.py"})
        import glob
        allfiles = {os.path.relpath(pth, "/repo") for pth in glob.glob("/repo/xitorch/**/*.py", recursive=True) if "/_tests/" not in pth}
        out.setdefault("C19", set()).update(allfiles)          # a leak can hide in any module
        for k in ("C02", "C04", "C06", "C08", "C13", "C16", "C17"):
            out.setdefault(k, set()).update({"xitorch/_core/pure_function.py", "xitorch/_core/editable_module.py", "xitorch/_utils/misc.py"})
        for k in ("C05", "C06"):
            out[k].update({"xitorch/_core/linop.py"})                       # the eigen-solvers act on the operator algebra
        for k in ("C08", "C13", "C16"):
            out[k].update({"xitorch/_utils/tensor.py"})                     # convert_none_grads_to_zeros
        out["C18"].update({"xitorch/interpolate/interp1.py", "xitorch/integrate/squad.py", "xitorch/_impls/integrate/fixed_quad.py",
                           "xitorch/_impls/interpolate/interp_1d.py"})    # every front-end with a `method` argument
        out["C01"].update({"xitorch/_core/editable_module.py"})             # uselinopparams in solve_torchfcn.forward
        out["C20"].update({"xitorch/_core/editable_module.py"})             # deep copies of EditableModule instances
        _ANCHORS = out
    return _ANCHORS


def _root_name(e: ast.AST) -> Optional[ast.AST]:
    while isinstance(e, (ast.Subscript, ast.Attribute)):
        e = e.value
    return e


def _locals_of(fn: ast.AST) -> Set[str]:
    out = set()
    a = fn.args
    for x in a.posonlyargs + a.args + a.kwonlyargs:
        out.add(x.arg)
    if a.vararg:
        out.add(a.vararg.arg)
    if a.kwarg:
        out.add(a.kwarg.arg)
    for n in own_nodes(fn):
        if isinstance(n, ast.Name) and isinstance(n.ctx, ast.Store):
            out.add(n.id)
        elif isinstance(n, (ast.FunctionDef, ast.ClassDef)):
            out.add(n.name)
        elif isinstance(n, (ast.Import, ast.ImportFrom)):
            for al in n.names:
                out.add((al.asname or al.name).split(".")[0])
        elif isinstance(n, ast.ExceptHandler) and n.name:
            out.add(n.name)
    # names declared global / nonlocal are not locals
    for n in own_nodes(fn):
        if isinstance(n, (ast.Global, ast.Nonlocal)):
            for nm in n.names:
                out.discard(nm)
    return out


def state_writes(fi: FuncInfo) -> List[Tuple[str, ast.AST]]:
    """[(key, node)] of every state-holding write in fi's own body"""
    fn = fi.node
    out: List[Tuple[str, ast.AST]] = []
    is_static = any(ast.unparse(d) == "staticmethod" for d in fn.decorator_list)
    is_method = fi.cls is not None and not is_static
    first = fn.args.args[0].arg if (is_method and fn.args.args) else None
    selfish = {first} if first else set()
    in_ctor = fi.name in CTORS
    loc = _locals_of(fn)
    imported = set(fi.module.imports)
    modlevel = set(fi.module.assigns) | set(fi.module.functions) | set(fi.module.classes)
    # a closure container persists across calls only if the nested function escapes its defining call (is returned / stored)
    escapes = True
    if fi.parent is not None:
        escapes = False
        for n in own_nodes(fi.parent.node):
            if isinstance(n, ast.Return) and n.value is not None and any(isinstance(x, ast.Name) and x.id == fi.name for x in ast.walk(n.value)):
                escapes = True
            if isinstance(n, ast.Assign) and any(isinstance(x, ast.Name) and x.id == fi.name for x in ast.walk(n.value)) and \
                    any(isinstance(t, (ast.Attribute, ast.Subscript)) for t in n.targets):
                escapes = True

    # simple aliases of instance attributes / parameter attributes: `buf = self._merged`, `memo = A.__dict__.setdefault(..)`
    fdefs: Dict[str, list] = {}
    for n_ in own_nodes(fn):
        if isinstance(n_, ast.Assign):
            for t_ in n_.targets:
                if isinstance(t_, ast.Name):
                    fdefs.setdefault(t_.id, []).append(n_.value)
        elif isinstance(n_, ast.AnnAssign) and isinstance(n_.target, ast.Name) and n_.value is not None:
            fdefs.setdefault(n_.target.id, []).append(n_.value)
        elif isinstance(n_, (ast.For, ast.With, ast.AugAssign)):
            for x_ in ast.walk(n_.target if isinstance(n_, (ast.For, ast.AugAssign)) else ast.Module(body=[], type_ignores=[])):
                if isinstance(x_, ast.Name) and isinstance(n_, ast.For):
                    fdefs.setdefault(x_.id, []).extend([None, None])       # loop variables are not aliases
    params_all = set()
    a_ = fn.args
    for x_ in a_.posonlyargs + a_.args + a_.kwonlyargs:
        params_all.add(x_.arg)
    # the autograd context of forward/backward is a per-call object, not state (outputs stored on it are AC8's business)
    if is_static and fi.cls is not None and fi.name in ("forward", "backward") and fn.args.args:
        params_all.discard(fn.args.args[0].arg)
    alias: Dict[str, str] = {}
    view_alias: Dict[str, str] = {}
    galias: Dict[str, str] = {}
    clsalias: Set[str] = set()
    for nm, ds in fdefs.items():
        if len(ds) != 1 or nm in params_all or ds[0] is None:
            continue
        d = ds[0]
        while isinstance(d, ast.Call) and isinstance(d.func, ast.Attribute) and d.func.attr in ("setdefault", "get") :
            d = d.func.value
        r0 = _root_name(d)
        # a basic subscript of an attribute is a *view* of the stored tensor / the stored container's element: `w = self.wy[-1]`
        d_view = d
        while isinstance(d_view, ast.Subscript):
            d_view = d_view.value
        if d_view is not d and isinstance(d_view, ast.Attribute) and isinstance(r0, ast.Name) and r0.id in selfish:
            view_alias[nm] = ast.unparse(d_view)
        if isinstance(d, ast.Attribute) and isinstance(r0, ast.Name) and (r0.id in selfish or (r0.id in params_all and r0.id not in selfish)):
            alias[nm] = ast.unparse(d)
        elif isinstance(d, ast.Name) and d.id in modlevel and d.id not in loc and d.id not in imported:
            galias[nm] = d.id               # `options = _DEFAULTS`: the local IS the module-level object
        elif (isinstance(d, ast.Call) and ast.unparse(d.func) == "type" and len(d.args) == 1 and isinstance(d.args[0], ast.Name) and d.args[0].id in selfish) \
                or (isinstance(d, ast.Attribute) and d.attr == "__class__" and isinstance(d.value, ast.Name) and d.value.id in selfish):
            clsalias.add(nm)                # `cls = type(self)`: the local IS the class object

    def classify_target(t: ast.AST, node: ast.AST, mut: str = ""):
        root = _root_name(t)
        if isinstance(root, ast.Call) and ast.unparse(root.func) == "type" and root.args and isinstance(root.args[0], ast.Name) and root.args[0].id in selfish:
            out.append(("clsattr:%s%s" % (ast.unparse(t).replace(" ", ""), mut), node))     # type(self).X = ...: class-level state
            return
        if not isinstance(root, ast.Name):
            return
        if root.id in clsalias and isinstance(t, (ast.Attribute, ast.Subscript)):
            txt = ast.unparse(t).replace(" ", "")
            out.append(("clsattr:type(self)%s%s" % (txt[len(root.id):], mut), node))     # cls = type(self); cls.X = ...: class-level state
            return
        if root.id in galias and (isinstance(t, ast.Subscript) or mut):
            out.append(("global-mut:%s%s (via local alias %s)" % (galias[root.id], mut, root.id), node))
            return
        if root.id in alias and (isinstance(t, ast.Subscript) or mut):
            tgt = alias[root.id]
            r1 = tgt.split(".")[0]
            if r1 in selfish:
                if not (in_ctor and r1 == first):
                    out.append(("attr:self.%s[]%s (via local alias)" % (".".join(tgt.split(".")[1:]), mut), node))
            else:
                out.append(("argattr:%s[]%s (via local alias)" % (tgt, mut), node))
            return
        # attribute of a (non-self) parameter: the caller's object is modified
        if root.id in params_all and root.id not in selfish and isinstance(t, (ast.Attribute, ast.Subscript)):
            e = t
            sub = ""
            while isinstance(e, ast.Subscript):
                e = e.value
                sub = "[]"
            if isinstance(e, ast.Attribute):
                out.append(("argattr:%s%s%s" % (ast.unparse(e), sub, mut), node))
                return
            if isinstance(e, ast.Name) and (sub or mut):
                out.append(("argmut:%s%s%s" % (e.id, sub, mut), node))
                return
        # attribute of self / cls
        if isinstance(t, (ast.Attribute, ast.Subscript)) and root.id in selfish:
            if in_ctor and root.id == first and not mut:
                return
            # the attribute name
            e = t
            sub = ""
            while isinstance(e, ast.Subscript):
                e = e.value
                sub = "[]"
            if isinstance(e, ast.Attribute):
                chain = []
                while isinstance(e, ast.Attribute):
                    chain.append(e.attr)
                    e = e.value
                kind = "clsattr" if chain and chain[-1] == "__class__" else "attr"
                out.append(("%s:%s.%s%s%s" % (kind, "self" if root.id == first else root.id, ".".join(reversed(chain)), sub, mut), node))
            return
        if isinstance(t, (ast.Subscript,)) or mut:
            if root.id in loc or root.id in imported:
                return
            kind = "global-mut" if root.id in modlevel else "closure-mut"
            if kind == "closure-mut" and not escapes:
                return
            out.append(("%s:%s%s" % (kind, root.id, mut), node))

    def _classify_node(n):
        if isinstance(n, ast.Assign):
            for t in n.targets:
                for e in (t.elts if isinstance(t, (ast.Tuple, ast.List)) else [t]):
                    if isinstance(e, ast.Starred):
                        e = e.value
                    if not isinstance(e, ast.Name):
                        classify_target(e, n)
        elif isinstance(n, (ast.AugAssign, ast.AnnAssign)):
            if not isinstance(n.target, ast.Name):
                classify_target(n.target, n)
            elif isinstance(n, ast.AugAssign) and n.target.id not in loc:
                out.append(("global-mut:%s" % n.target.id, n))
            elif isinstance(n, ast.AugAssign) and (n.target.id in view_alias or n.target.id in alias) and \
                    any(isinstance(c_, ast.Call) and (ast.unparse(c_.func).startswith("torch.") or isinstance(c_.func, ast.Attribute)) for c_ in ast.walk(n.value)):
                # `w = self.wy[-1]; w += torch.matmul(..)`: an augmented assignment to a tensor is an in-place update of the storage the view /
                # alias shares with the attribute - the cached attribute is changed for every later call
                tgt_ = view_alias.get(n.target.id) or alias[n.target.id]
                r1_ = tgt_.split(".")[0]
                if r1_ in selfish and not (in_ctor and r1_ == first):
                    out.append(("attr:self.%s[] (in-place through the local view %s)" % (".".join(tgt_.split(".")[1:]), n.target.id), n))
        elif isinstance(n, ast.Delete):
            for t in n.targets:
                if not isinstance(t, ast.Name):
                    classify_target(t, n)
        elif isinstance(n, (ast.Global, ast.Nonlocal)):
            for nm in n.names:
                out.append(("%s:%s" % ("global" if isinstance(n, ast.Global) else "nonlocal", nm), n))
        elif isinstance(n, ast.Call):
            fnm = ast.unparse(n.func)
            if fnm in ("setattr", "delattr", "object.__setattr__", "object.__delattr__") and n.args:
                out.append(("%s:%s" % (fnm.split(".")[-1].strip("_"), ast.unparse(n.args[0])), n))
            elif isinstance(n.func, ast.Attribute) and n.func.attr in ("__setitem__", "__delitem__") and n.args:
                # x.__setitem__(k, v) is the store x[k] = v
                classify_target(ast.Subscript(value=n.func.value, slice=n.args[0], ctx=ast.Store()), n)
            elif fnm in ("operator.setitem", "operator.delitem", "setitem", "delitem") and len(n.args) >= 2:
                classify_target(ast.Subscript(value=n.args[0], slice=n.args[1], ctx=ast.Store()), n)
            elif isinstance(n.func, ast.Attribute) and n.func.attr in MUT_METHODS and isinstance(_root_name(n.func.value), ast.Name) and \
                    (_root_name(n.func.value).id in alias or _root_name(n.func.value).id in galias or (_root_name(n.func.value).id in params_all and _root_name(n.func.value).id not in selfish)):
                classify_target(n.func.value, n, mut=".%s()" % n.func.attr)
            elif isinstance(n.func, ast.Attribute) and n.func.attr in MUT_METHODS:
                recv = n.func.value
                root = _root_name(recv)
                if isinstance(root, ast.Name) and (root.id in selfish or root.id not in loc) and isinstance(recv, (ast.Attribute, ast.Subscript, ast.Name)):
                    if isinstance(recv, ast.Name) and (recv.id in loc or recv.id in imported):
                        return
                    if root.id in imported:
                        return
                    if isinstance(recv, ast.Name) and recv.id not in modlevel and not escapes:
                        return
                    if isinstance(recv, ast.Name) and recv.id not in modlevel and fi.parent is None:
                        return       # an unknown global (builtin/typo): not state of this package
                    if root.id in selfish and in_ctor:
                        return
                    classify_target(recv if not isinstance(recv, ast.Name) else recv, n, mut=".%s()" % n.func.attr) if not isinstance(recv, ast.Name) else \
                        out.append(("%s:%s.%s()" % ("global-mut" if recv.id in modlevel else "closure-mut", recv.id, n.func.attr), n))
    def with_lambdas(root, extra):
        """own nodes of fn plus the bodies of its lambdas (a lambda is part of the function that writes it); for nodes inside a
        lambda the lambda's parameters count as parameters"""
        for x in (own_nodes(root) if not isinstance(root, ast.Lambda) else _walk_lambda(root)):
            yield x, extra
            if isinstance(x, ast.Lambda) and x is not root:
                yield from with_lambdas(x, extra | {a.arg for a in x.args.posonlyargs + x.args.args + x.args.kwonlyargs})

    for n, lam_params in with_lambdas(fn, frozenset()):
        added = set(lam_params) - params_all
        params_all.update(added)
        try:
            _classify_node(n)
        finally:
            params_all.difference_update(added)
    return out


def _walk_lambda(lam: ast.Lambda):
    stack = [lam.body]
    while stack:
        x = stack.pop()
        yield x
        if isinstance(x, ast.Lambda):
            continue
        stack.extend(ast.iter_child_nodes(x))



def _holder(k: str) -> str:
    import re as _re
    k = _re.sub(r" \(via local alias[^)]*\)$", "", k)
    k = _re.sub(r"\.\w+\(\)$", "", k)
    return _re.sub(r"\[\]$", "", k)


def compute_state_table(model: Model) -> Dict[str, List[str]]:
    table: Dict[str, List[str]] = {}
    for fi in model.all_functions():
        ks = sorted({k for k, _ in state_writes(fi)})
        if ks:
            table[fi.fq] = ks
    return table


def load_table() -> Dict[str, List[str]]:
    p = os.path.join(HERE, "state_table.json")
    with open(p) as f:
        d = json.load(f)
    return d["holders"]


def hidden_state(model: Model, R: RuleResult, files: Set[str]) -> int:
    table = load_table()
    n = 0
    for fi in sorted(model.all_functions(), key=lambda f: f.fq):
        if fi.module.relpath not in files:
            continue
        ws = state_writes(fi)
        allowed = set(table.get(fi.fq, []))
        # a write that moves between a function and its nested functions (lambda -> def, helper closure) stays with the same holder
        top = fi
        while top.parent is not None:
            top = top.parent
        if top is not fi or any(g.parent is not None and g.fq.startswith(fi.fq + ".") for g in fi.module.functions.values()):
            for fq_, ks_ in table.items():
                if fq_ == top.fq or fq_.startswith(top.fq + "."):
                    allowed |= set(ks_)
        # a function that moved (renamed nested def etc.) is matched by qualname only
        n += 1
        # an instance attribute that some (non-constructor) method of the same class already re-writes after construction is mutable
        # cross-call state today: moving that write to another method of the class (an inlined helper) adds no new history-dependence
        if fi.cls is not None:
            pre = "%s::%s." % (fi.module.relpath, fi.cls.name)
            for fq_, ks_ in table.items():
                if fq_.startswith(pre):
                    allowed |= {k_ for k_ in ks_ if k_.startswith("attr:self.")}
        # the holder is the attribute / object written; `x[k] = v`, `x.append(v)`, `x.update(..)` are spellings of a write to the same holder
        allowed_holders = {_holder(k) for k in allowed}
        bad = [(k, node) for k, node in ws if k not in allowed and _holder(k) not in allowed_holders]
        if bad:
            k, node = bad[0]
            R.bad(fi, enclosing_stmt(node) if not isinstance(node, ast.stmt) else node,
                  "new cross-call state: %s is written here but is not in the table of state holders (%s): results can now depend on the history of earlier calls "
                  "(stale cache / stale dtype / stale graph)" % (k, "this function holds no state on the pinned tree" if not allowed else "allowed here: %s" % sorted(allowed)),
                  what="%s writes %s" % (fi.qualname, sorted({k for k, _ in bad})))
        else:
            R.ok(fi.fq, "%s: %s" % (fi.qualname, ("state written: %s (frozen table)" % sorted(allowed & {k for k, _ in ws})) if ws else "holds no state"))
    # positive / negative control
    ctl = ast.parse("_memo = {}\n\ndef f(x):\n    if id(x) not in _memo:\n        _memo[id(x)] = g(x)\n    return _memo[id(x)]\n\ndef h(x):\n    y = {}\n    y[1] = x\n    return y\n")
    fired = _control_fires(ctl, "f")
    quiet = not _control_fires(ctl, "h")
    R.controls.append(dict(name="module-level-memo", ok=fired and quiet, detail="positive control fired=%s, negative twin quiet=%s" % (fired, quiet)))
    return n


def _control_fires(tree: ast.Module, name: str) -> bool:
    from ..model import Module
    src = ast.unparse(tree)
    m = Module("<control>", "<control>", "control", src)
    fi = m.functions[name]
    return bool(state_writes(fi))


def warning_filters(model: Model, R: RuleResult) -> int:
    n = 0
    for fi in model.all_functions():
        for c in own_nodes(fi.node):
            if isinstance(c, ast.Call) and ast.unparse(c.func) in ("warnings.simplefilter", "warnings.filterwarnings", "warnings.resetwarnings"):
                n += 1
                from ..model import ancestors
                scoped = any(isinstance(a, ast.With) and any(ast.unparse(i.context_expr) == "warnings.catch_warnings()" for i in a.items) for a in ancestors(c))
                if scoped:
                    # accepted idiom: the filter is changed inside `with warnings.catch_warnings():` and restored on exit
                    R.ok(fi.fq, "filter change scoped by `with warnings.catch_warnings()` (restored on exit): `%s`" % norm_stmt(enclosing_stmt(c)))
                    continue
                R.bad(fi, enclosing_stmt(c), "the process-wide warning filter is changed: a ConvergenceWarning issued later (by this or any other solver) no longer reaches "
                      "the caller, so a non-converged result is returned silently")
    for m in model.modules.values():
        for s in m.tree.body:
            for c in ast.walk(s):
                if isinstance(c, ast.Call) and ast.unparse(c.func) in ("warnings.simplefilter", "warnings.filterwarnings") and not isinstance(s, (ast.FunctionDef, ast.ClassDef)):
                    n += 1
                    R.bad("%s::<module>" % m.relpath, c, "module-level change of the warning filter", file=m.relpath)
    R.ok("package", "no call of warnings.simplefilter / filterwarnings / resetwarnings in %d modules" % len(model.modules))
    ctl = ast.parse("def f():\n    warnings.simplefilter('ignore', category=ConvergenceWarning)\n")
    fired = any(isinstance(c, ast.Call) and ast.unparse(c.func) == "warnings.simplefilter" for c in ast.walk(ctl))
    R.controls.append(dict(name="simplefilter", ok=fired, detail="positive control fired=%s" % fired))
    return n


def data_assignment(model: Model, R: RuleResult, files: Optional[Set[str]] = None) -> int:
    n = 0
    for fi in model.all_functions():
        if files is not None and fi.module.relpath not in files:
            continue
        for s in own_nodes(fi.node):
            tg = s.targets if isinstance(s, ast.Assign) else ([s.target] if isinstance(s, (ast.AugAssign, ast.AnnAssign)) else [])
            for t in tg:
                if isinstance(t, ast.Attribute) and t.attr == "data":
                    n += 1
                    R.bad(fi, s, "`.data` of a tensor is assigned: the caller's tensor object is kept and its content replaced outside autograd - substituted "
                          "(differentiable) tensors never reach the function and the caller's object is silently overwritten")
    R.ok("package", "no `.data = ...` assignment%s" % ("" if files is None else " in the %d anchor files" % len(files)))
    return n


# ------------------------------------------------------------------------------------------------- DR: discarded result
_EFFECT_CALLS = ("warnings.warn", "print", "warn", "setattr", "delattr", "exec")


def _pure_value_function(fi: FuncInfo) -> bool:
    """the function's only observable effect is its return value: every exit returns a value, nothing is raised / warned / printed /
    yielded, no state is written, no parameter (or object reachable from one) is mutated, and it calls nothing but torch / builtins."""
    fn = fi.node
    rets = [r for r in own_nodes(fn) if isinstance(r, ast.Return)]
    if not rets or any(r.value is None or (isinstance(r.value, ast.Constant) and r.value.value is None) for r in rets):
        return False
    params = set(fi.all_params()) | ({fi.vararg()} if fi.vararg() else set()) | ({fi.kwarg()} if fi.kwarg() else set())
    for n in own_nodes(fn):
        if isinstance(n, (ast.Raise, ast.Yield, ast.YieldFrom, ast.Assert, ast.Global, ast.Nonlocal, ast.With, ast.Try, ast.Delete)):
            return False
        if isinstance(n, (ast.Assign, ast.AugAssign, ast.AnnAssign)):
            tg = n.targets if isinstance(n, ast.Assign) else [n.target]
            for t in tg:
                for x in ast.walk(t):
                    if isinstance(x, (ast.Attribute, ast.Subscript)):
                        return False              # a store into an object (possibly the caller's)
        if isinstance(n, ast.Call):
            name = ast.unparse(n.func)
            if name in _EFFECT_CALLS or name.endswith("_") and isinstance(n.func, ast.Attribute):
                return False                      # torch in-place methods end in "_"
            root = n.func
            while isinstance(root, ast.Attribute):
                root = root.value
            if isinstance(root, ast.Name) and root.id not in ("torch", "math", "np", "numpy") and isinstance(n.func, ast.Name) \
                    and n.func.id not in ("len", "range", "float", "int", "isinstance", "list", "tuple", "min", "max", "abs", "sum", "zip", "enumerate", "type"):
                return False                      # calls another non-builtin function: effects unknown
            if isinstance(n.func, ast.Attribute) and n.func.attr in ("append", "extend", "pop", "update", "insert", "remove", "clear", "setdefault", "sort", "reverse", "add"):
                return False
    if state_writes(fi):
        return False
    return True


def discarded_results(model: Model, R: RuleResult, files: Set[str]) -> int:
    """A call statement whose callee's only effect is its return value does nothing: the guard / conversion / clamp it was written for
    is silently not applied.  (Typical origin: a helper that used to work in place is changed to return a copy while a caller
    still relies on the in-place effect.)"""
    n = 0
    for fi in model.all_functions():
        if fi.module.relpath not in files:
            continue
        for s_ in own_nodes(fi.node):
            if isinstance(s_, ast.Expr) and isinstance(s_.value, ast.Call):
                r = model.resolve_expr(fi.module, s_.value.func)
                if r and r[0] == "func" and r[1].cls is None:
                    n += 1
                    if _pure_value_function(r[1]):
                        R.bad(fi, s_, "the result of %s(...) is discarded, and that function has no effect other than its return value (it does not modify its "
                              "arguments): the statement does nothing" % r[1].qualname)
                    else:
                        R.ok(fi.fq, "statement call of %s: the callee acts through effects (raise / in-place / state)" % r[1].qualname)
    from ..model import Module
    ctl = Module("<control>", "<control>", "control", "import torch\ndef _guard(r, eps):\n    return torch.where(r == 0, eps, r)\ndef _guard_inplace(r, eps):\n    r[r == 0] = eps\n    return r\n")
    fired = _pure_value_function(ctl.functions["_guard"])
    quiet = not _pure_value_function(ctl.functions["_guard_inplace"])
    R.controls.append(dict(name="copying-vs-in-place-guard", ok=fired and quiet, detail="pure twin recognised=%s, in-place twin exempt=%s" % (fired, quiet)))
    R.ok("anchor files", "%d statement-calls of package functions examined in %d file(s)" % (n, len(files)))
    return n


# ------------------------------------------------------------------------------------------------- NT: None-defaults by truthiness
def _optional_params(fi: FuncInfo) -> Set[str]:
    a = fi.node.args
    out = set()
    pos = a.posonlyargs + a.args
    defaults = [None] * (len(pos) - len(a.defaults)) + list(a.defaults)
    for p_, d in list(zip(pos, defaults)) + list(zip(a.kwonlyargs, a.kw_defaults)):
        ann = ast.unparse(p_.annotation) if p_.annotation else ""
        if "bool" in ann and not any(t in ann for t in ("str", "int", "float", "Tensor", "Callable", "Sequence", "List", "Mapping", "Dict", "Any")):
            continue                     # Optional[bool]: truthiness IS the value
        if (isinstance(d, ast.Constant) and d.value is None) or "Optional" in ann or ann.endswith("None]"):
            out.add(p_.arg)
    return out


def none_by_truthiness(model: Model, R: RuleResult, files: Set[str]) -> int:
    """An optional parameter (default None) is resolved with an `is None` test.  A truthiness test (`x or default`, `if not x`) also
    replaces every *legal falsy* value - 0, 0.0, "", an empty container, a falsy callable object - by the default, silently."""
    n = 0
    # optional-ness flows to callees: a parameter that receives a caller's optional parameter is optional too
    optmap: Dict[str, Set[str]] = {fi.fq: _optional_params(fi) for fi in model.all_functions()}
    changed = True
    rounds = 0
    while changed and rounds < 4:
        changed = False
        rounds += 1
        for fi in model.all_functions():
            mine = optmap[fi.fq]
            if not mine:
                continue
            for c in own_nodes(fi.node):
                if not isinstance(c, ast.Call):
                    continue
                r = model.resolve_expr(fi.module, c.func)
                callee = None
                skip = 0
                if r and r[0] == "func":
                    callee = r[1]
                    skip = 1 if callee.cls is not None and not any(ast.unparse(d) == "staticmethod" for d in callee.node.decorator_list) else 0
                elif r and r[0] == "class":
                    callee = r[1].find_method("__init__")
                    skip = 1
                if callee is None:
                    continue
                ps = callee.params()[skip:]
                got = optmap.setdefault(callee.fq, set())
                for i, a_ in enumerate(c.args):
                    if isinstance(a_, ast.Name) and a_.id in mine and i < len(ps) and ps[i] not in got:
                        ann = next((x.annotation for x in callee.node.args.args if x.arg == ps[i]), None)
                        if ann is not None and "bool" in ast.unparse(ann):
                            continue
                        got.add(ps[i])
                        changed = True
                for k in c.keywords:
                    if k.arg and isinstance(k.value, ast.Name) and k.value.id in mine and k.arg in callee.all_params() and k.arg not in got:
                        got.add(k.arg)
                        changed = True
    for fi in model.all_functions():
        if fi.module.relpath not in files:
            continue
        op = optmap.get(fi.fq, set())
        if not op:
            continue
        for node in own_nodes(fi.node):
            tests = []
            if isinstance(node, (ast.If, ast.While, ast.IfExp)):
                tests.append(node.test)
            if isinstance(node, ast.BoolOp):
                tests.extend(node.values[:-1] if isinstance(node.op, ast.Or) else node.values)
            for t in tests:
                while isinstance(t, ast.UnaryOp) and isinstance(t.op, ast.Not):
                    t = t.operand
                if isinstance(t, ast.Name) and t.id in op:
                    # re-bound to a bool / non-optional value before this test?  (flow-insensitive: any re-binding exempts)
                    here = enclosing_stmt(node)
                    if any(isinstance(x, ast.Name) and x.id == t.id and isinstance(x.ctx, ast.Store) and enclosing_stmt(x) is not here
                           and x.lineno < here.lineno for x in own_nodes(fi.node)):
                        continue
                    R.bad(fi, enclosing_stmt(node), "optional parameter `%s` is tested by truthiness: a legal falsy value (0, 0.0, \"\", an empty or falsy object) is "
                          "silently replaced by the default / treated as absent; use `is None`" % t.id)
        n += len(op)
    # option values looked up in an options mapping are optional in the same way: `cfg["atol"] or default` replaces a legal 0 / 0.0
    def _is_option_lookup(e) -> bool:
        base = None
        if isinstance(e, ast.Subscript) and isinstance(e.slice, ast.Constant) and isinstance(e.slice.value, str):
            base = e.value
        elif isinstance(e, ast.Call) and isinstance(e.func, ast.Attribute) and e.func.attr in ("get", "pop") and e.args and isinstance(e.args[0], ast.Constant) \
                and isinstance(e.args[0].value, str) and (len(e.args) == 1 or (isinstance(e.args[1], ast.Constant) and e.args[1].value is None)):
            base = e.func.value
        if base is None:
            return False
        t = ast.unparse(base).lower()
        return any(w in t for w in ("option", "config", "cfg", "kwargs", "unused"))
    for fi in model.all_functions():
        if fi.module.relpath not in files:
            continue
        fdefs = {}
        for st in own_nodes(fi.node):
            if isinstance(st, ast.Assign) and len(st.targets) == 1 and isinstance(st.targets[0], ast.Name):
                fdefs.setdefault(st.targets[0].id, []).append(st.value)
        for node in own_nodes(fi.node):
            if isinstance(node, ast.BoolOp) and isinstance(node.op, ast.Or) and len(node.values) == 2:
                first, dflt = node.values
                looked = _is_option_lookup(first) or (isinstance(first, ast.Name) and len(fdefs.get(first.id, [])) == 1 and _is_option_lookup(fdefs[first.id][0]))
                falsy_default = isinstance(dflt, ast.Constant) and dflt.value in (None, False, 0, "")
                if looked and not falsy_default:
                    n += 1
                    R.bad(fi, enclosing_stmt(node), "the option `%s` is resolved with `or`: a legal falsy value the caller asked for (0, 0.0 - e.g. a tolerance switched off) "
                          "is silently replaced by the default `%s`; test `is None`" % (ast.unparse(first)[:50], ast.unparse(dflt)[:30]))
    R.ok("anchor files", "%d optional parameter(s) in %d file(s): none is resolved by a truthiness test" % (n, len(files)))
    ctl = ast.parse("def f(x, extrap=None):\n    return extrap or 'nan'\n\ndef g(x, extrap=None):\n    return 'nan' if extrap is None else extrap\n")
    def fires(fn):
        ops = {"extrap"}
        for node in ast.walk(fn):
            if isinstance(node, ast.BoolOp) and isinstance(node.op, ast.Or) and any(isinstance(v, ast.Name) and v.id in ops for v in node.values[:-1]):
                return True
        return False
    fired, quiet = fires(ctl.body[0]), not fires(ctl.body[1])
    R.controls.append(dict(name="or-default", ok=fired and quiet, detail="positive control fired=%s, `is None` twin quiet=%s" % (fired, quiet)))
    return n


# ------------------------------------------------------------------------------------------------- IU: in-place on the user's output
def inplace_on_user_output(model: Model, R: RuleResult, files: Set[str]) -> int:
    """No in-place operation (`x.add_(..)`, `x *= ..`, `x[..] = ..`) targets the tensor a user-supplied callable returned.  The library
    does not own that tensor: the callable may have returned one of its own parameters or a cached value (a constant integrand, a
    module returning an attribute), which the in-place operation overwrites - the caller's object is modified and every later
    evaluation sees the accumulated value."""
    from ..flow import function_defs, origins
    n = 0
    for fi in model.all_functions():
        if fi.module.relpath not in files:
            continue
        # callables supplied from outside: parameters (of this function or an enclosing one) that are called
        params = set(fi.all_params())
        p_ = fi.parent
        while p_ is not None:
            params |= set(p_.all_params())
            p_ = p_.parent
        called = {c.func.id for c in own_nodes(fi.node) if isinstance(c, ast.Call) and isinstance(c.func, ast.Name) and c.func.id in params}
        if not called:
            continue
        defs = function_defs(fi.node)

        # plain assignments `name = <expr>` only (an element store `buf[i] = f(x)` puts the user's tensor INTO the library's buffer: fine)
        plain: Dict[str, list] = {}
        for st_ in own_nodes(fi.node):
            if isinstance(st_, ast.Assign) and len(st_.targets) == 1 and isinstance(st_.targets[0], ast.Name):
                plain.setdefault(st_.targets[0].id, []).append(st_.value)

        def direct(e) -> bool:
            while isinstance(e, ast.Call) and isinstance(e.func, ast.Attribute) and e.func.attr in ("reshape", "view", "squeeze", "unsqueeze", "contiguous", "detach"):
                e = e.func.value                    # views share the storage of what the callable returned
            return isinstance(e, ast.Call) and isinstance(e.func, ast.Name) and e.func.id in called

        def from_user(e, depth=0) -> bool:
            if direct(e):
                return True
            if isinstance(e, ast.Name) and depth < 3 and e.id in plain and e.id not in params:
                return all(from_user(d, depth + 1) for d in plain[e.id])
            return False
        for node in own_nodes(fi.node):
            tgt = None
            if isinstance(node, ast.Call) and isinstance(node.func, ast.Attribute) and node.func.attr.endswith("_") and not node.func.attr.startswith("_") \
                    and node.func.attr not in ("requires_grad_",):
                tgt = node.func.value
            elif isinstance(node, ast.AugAssign):
                tgt = node.target if isinstance(node.target, ast.Name) else (node.target.value if isinstance(node.target, ast.Subscript) else None)
            elif isinstance(node, ast.Assign) and len(node.targets) == 1 and isinstance(node.targets[0], ast.Subscript):
                tgt = node.targets[0].value
            if tgt is None:
                continue
            n += 1
            if from_user(tgt):
                R.bad(fi, enclosing_stmt(node), "in-place operation on the tensor returned by the user's callable `%s`: the callable may have returned a tensor it "
                      "keeps (a parameter, a constant, a cached value), which is overwritten here" % sorted(called)[0])
    R.ok("anchor files", "%d in-place operation(s) examined in functions that call a user-supplied callable: none targets the callable's own output" % n)
    return n


# ------------------------------------------------------------------------------------------------- TG: tolerance-guarded formulas
TOL_CALLS = ("allclose", "isclose")


def tolerance_guards(model: Model, R: RuleResult, files: Set[str]) -> int:
    """A numerical kernel never switches formula on an approximate comparison.  `if torch.allclose(a, b): <short-cut>` applies the
    short-cut to every input that is merely *close* to the special case (default tolerances 1e-5 / 1e-8 are huge next to float64
    round-off), where the short-cut's result is simply wrong.  Exact tests (`==`, torch.equal) are fine."""
    n = 0
    for fi in model.all_functions():
        if fi.module.relpath not in files:
            continue
        for node in own_nodes(fi.node):
            test = node.test if isinstance(node, (ast.If, ast.IfExp, ast.While)) else None
            if test is None:
                continue
            n += 1
            # validation idiom: the guarded arm ends in a raise (message building aside) and there is no other arm
            if isinstance(node, ast.If) and not node.orelse and node.body and isinstance(node.body[-1], ast.Raise):
                continue
            for c in ast.walk(test):
                if isinstance(c, ast.Call) and ast.unparse(c.func).split(".")[-1] in TOL_CALLS:
                    R.bad(fi, enclosing_stmt(node), "control flow depends on the approximate comparison `%s`: inputs that are only close to the special case take the "
                          "special-case formula and get a wrong result" % ast.unparse(c)[:80])
    R.ok("anchor files", "%d branch condition(s) in %d file(s): none uses allclose / isclose" % (n, len(files)))
    ctl = ast.parse("def f(xl, xu):\n    if torch.allclose(xl, xu):\n        return 0\n    return 1\n")
    fired = any(isinstance(c, ast.Call) and ast.unparse(c.func).split(".")[-1] in TOL_CALLS for x in ast.walk(ctl) if isinstance(x, ast.If) for c in ast.walk(x.test))
    R.controls.append(dict(name="allclose-guard", ok=fired, detail="positive control fired=%s" % fired))
    return n


# ------------------------------------------------------------------------------------------------- MT: import-time tensor constants
_TENSOR_CTORS = ("tensor", "zeros", "ones", "eye", "arange", "linspace", "as_tensor", "full", "empty", "rand", "randn")


def import_time_tensors(model: Model, R: RuleResult, files: Set[str]) -> int:
    """A tensor built when the module (or a class body) is imported freezes whatever default dtype is in force at that moment
    (float32 unless the user changed it *before* importing).  Used later in float64 arithmetic it silently rounds the result to
    single precision.  Such constants must state their dtype (the float64 tableaux of adaptive_rk.py do)."""
    n = 0

    def scan(body, where, relpath):
        nonlocal n
        for s_ in body:
            if isinstance(s_, (ast.Assign, ast.AnnAssign)) and s_.value is not None:
                for c in ast.walk(s_.value):
                    if isinstance(c, ast.Call) and ast.unparse(c.func).startswith("torch.") and ast.unparse(c.func).split(".")[-1] in _TENSOR_CTORS:
                        n += 1
                        if any(k.arg == "dtype" for k in c.keywords):
                            R.ok(where, "import-time constant with explicit dtype: `%s`" % norm_stmt(s_, 60))
                        else:
                            R.bad(where, s_, "tensor constant built at import time without a dtype: it takes the default dtype of that moment (float32) and rounds "
                                  "every float64 computation it enters to single precision", file=relpath)
    for m in model.modules.values():
        if m.relpath not in files:
            continue
        scan(m.tree.body, "%s::<module>" % m.relpath, m.relpath)
        for c in m.classes.values():
            scan(c.node.body, c.fq, m.relpath)
    R.ok("anchor files", "%d import-time tensor constant(s) in %d file(s), all with an explicit dtype" % (n, len(files)))
    ctl = ast.parse("_SIGN = torch.tensor([1.0, -1.0])\n_OK = torch.tensor([1.0, -1.0], dtype=torch.float64)\n")
    flags = [not any(k.arg == "dtype" for k in s_.value.keywords) for s_ in ctl.body]
    R.controls.append(dict(name="module-level-constant", ok=flags == [True, False], detail="positive control fired=%s, dtype twin quiet=%s" % (flags[0], not flags[1])))
    return n


# ------------------------------------------------------------------------------------------------- DT: python numbers -> tensors
def _is_python_float(v: ast.AST, call: ast.AST, fi: FuncInfo) -> Optional[str]:
    """a reason why `v` is certainly a Python number that may be a float with more than single precision, else None"""
    import struct
    from ..model import path_conditions
    if isinstance(v, ast.Constant) and isinstance(v.value, float):
        try:
            exact = struct.unpack("f", struct.pack("f", v.value))[0] == v.value
        except (OverflowError, struct.error):
            exact = False
        return None if exact else "the literal %r is not representable in single precision" % v.value
    if isinstance(v, ast.Call) and isinstance(v.func, ast.Name) and v.func.id == "float" and v.args and not isinstance(v.args[0], ast.Constant):
        return "`%s` is a Python float" % ast.unparse(v)[:40]
    if isinstance(v, ast.Name):
        conds = [c for c, t in path_conditions(call) if t]
        for c in conds:
            if "isinstance(%s, float)" % v.id in c or "isinstance(%s, numbers." % v.id in c or "type(%s) is float" % v.id in c or "type(%s) == float" % v.id in c:
                return "`%s` is a Python number on this path (`%s`)" % (v.id, c[:70])
        for a in fi.node.args.args + fi.node.args.kwonlyargs:
            if a.arg == v.id and a.annotation is not None and ast.unparse(a.annotation) in ("float", "Union[int, float]", "Union[float, int]"):
                stores = [n for n in ast.walk(fi.node) if isinstance(n, ast.Name) and n.id == v.id and isinstance(n.ctx, ast.Store)]
                if not stores:
                    return "`%s` is declared a Python float" % v.id
    if isinstance(v, ast.BinOp):
        return _is_python_float(v.left, call, fi) or _is_python_float(v.right, call, fi)
    if isinstance(v, ast.UnaryOp):
        return _is_python_float(v.operand, call, fi)
    return None


def default_dtype_conversions(model: Model, R: RuleResult, files: Set[str]) -> int:
    """A Python number supplied by the caller that is turned into a tensor (`torch.tensor(v)`, `torch.as_tensor(v)`,
    `torch.full(shape, v)`) must be given the dtype of the data it will be combined with.  Without `dtype=` it becomes a *default-dtype*
    (float32) tensor: the value is rounded to single precision once and for all, and because a 0-dim tensor does not take part in
    type promotion the float64 result silently carries the rounded value (0.1 -> 0.10000000149)."""
    n = 0
    for fi in model.all_functions():
        if fi.module.relpath not in files:
            continue
        for c in own_nodes(fi.node):
            if not (isinstance(c, ast.Call) and ast.unparse(c.func) in ("torch.tensor", "torch.as_tensor", "torch.scalar_tensor", "torch.full")):
                continue
            n += 1
            if any(k.arg == "dtype" for k in c.keywords):
                continue
            fn = ast.unparse(c.func)
            v = (c.args[1] if len(c.args) > 1 else None) if fn == "torch.full" else (c.args[0] if c.args else None)
            if v is None or isinstance(v, ast.Starred):
                continue
            why = _is_python_float(v, c, fi)
            if why:
                R.bad(fi, enclosing_stmt(c), "`%s` builds a default-dtype (float32) tensor from a Python number: %s; the value is rounded to single precision and, being 0-dim, "
                      "does not promote - the float64 result carries the rounded value.  Give it the dtype of the data" % (ast.unparse(c)[:70], why))
    R.ok("anchor files", "%d tensor construction(s) from values examined: no Python float becomes a default-dtype tensor" % n)
    import types
    ctl = ast.parse("def f(x, extrap):\n    if isinstance(extrap, int) or isinstance(extrap, float):\n        extrap = torch.tensor(extrap, device=x.device)\n    return extrap\n")
    ctl2 = ast.parse("def f(x, extrap):\n    if isinstance(extrap, int) or isinstance(extrap, float):\n        extrap = torch.tensor(extrap, dtype=x.dtype, device=x.device)\n    a = torch.tensor(0.5)\n    return extrap\n")
    def hits(tree):
        tree._parent = None
        for n_ in ast.walk(tree):
            for ch in ast.iter_child_nodes(n_):
                ch._parent = n_
        fake = types.SimpleNamespace(node=tree.body[0])
        return [c for c in ast.walk(tree) if isinstance(c, ast.Call) and ast.unparse(c.func) == "torch.tensor" and not any(k.arg == "dtype" for k in c.keywords)
                and _is_python_float(c.args[0], c, fake)]
    fired, quiet = bool(hits(ctl)), not hits(ctl2)
    R.controls.append(dict(name="python-float-to-tensor", ok=fired and quiet, detail="positive control fired=%s, dtype twin quiet=%s" % (fired, quiet)))
    return n


# ------------------------------------------------------------------------------------------------- CP: copy protocol
COPY_HOOKS = ("__deepcopy__", "__copy__", "__getstate__", "__setstate__", "__reduce__", "__reduce_ex__", "__getnewargs__", "__getnewargs_ex__")


def copy_protocol(model: Model, R: RuleResult) -> int:
    """No class of the package customises the copy / pickle protocol.  Packer (and the debug-mode assertions) rely on copy.deepcopy
    producing an independent object with the attributes in the original order; a hook that shares, re-orders or drops state makes
    the rebuilt structure alias or permute the caller's tensors."""
    n = 0
    for c in model.all_classes():
        n += 1
        hooks = [m for m in c.methods if m in COPY_HOOKS]
        if hooks:
            R.bad(c.methods[hooks[0]], c.methods[hooks[0]].node, "class %s overrides %s: deep copies of user structures containing it are no longer plain independent copies "
                  "(Packer's internal copy and every rebuilt structure depend on that)" % (c.name, hooks))
    R.ok("package", "%d classes: none overrides %s" % (n, "/".join(COPY_HOOKS[:4])))
    R.controls.append(dict(name="hook-name-table", ok="__deepcopy__" in COPY_HOOKS and "__getstate__" in COPY_HOOKS, detail="hook table contains the copy and pickle hooks"))
    return n


# which generic rule applies to which property
HS_PROPS = {"C%02d" % i for i in range(1, 21)}
WF_PROPS = {"C01", "C03", "C05", "C16"}
DA_PROPS = {"C02", "C04", "C06", "C08", "C09", "C10", "C13", "C16", "C17"}
CP_PROPS = {"C20", "C10"}
TG_PROPS = {"C03", "C07", "C12", "C14", "C15", "C16"}


def common_rules(model: Model, prop: str, tier: str) -> List[RuleResult]:
    out = []
    files = set(model.modules) if prop == "C19" else anchors().get(prop, set())
    if prop in HS_PROPS and files:
        R = RuleResult(prop, "HS", "who-may-hold-state: no cross-call state outside the frozen table of state holders (anchor files of this property)", min_instances=1)
        hidden_state(model, R, files)
        out.append(R)
    if prop in WF_PROPS:
        R = RuleResult(prop, "WF", "the process-wide warning filter is never changed (a ConvergenceWarning can reach the caller)", min_instances=1)
        warning_filters(model, R)
        out.append(R)
    if files:
        R = RuleResult(prop, "DR", "no discarded result: a statement-call of a function whose only effect is its return value (anchor files)", min_instances=1)
        discarded_results(model, R, files)
        out.append(R)
        R = RuleResult(prop, "NT", "optional parameters are resolved with `is None`, never by truthiness (anchor files)", min_instances=1)
        none_by_truthiness(model, R, files)
        out.append(R)
    if files:
        R = RuleResult(prop, "IU", "no in-place operation on the tensor a user-supplied callable returned (anchor files)", min_instances=1)
        inplace_on_user_output(model, R, files)
        out.append(R)
    if files:
        R = RuleResult(prop, "MT", "tensor constants built at import time state their dtype (anchor files)", min_instances=1)
        import_time_tensors(model, R, files)
        out.append(R)
    if files:
        R = RuleResult(prop, "DT", "a Python number turned into a tensor is given the dtype of the data, never the default dtype (anchor files)", min_instances=1)
        default_dtype_conversions(model, R, files)
        out.append(R)
    if prop in TG_PROPS and files:
        R = RuleResult(prop, "TG", "no formula is selected by an approximate comparison (allclose / isclose) in the numerical kernels (anchor files)", min_instances=1)
        tolerance_guards(model, R, {f for f in files if not f.endswith("_core/linop.py")})
        out.append(R)
    if prop in CP_PROPS:
        R = RuleResult(prop, "CP", "the copy / pickle protocol is not customised by any class of the package", min_instances=1)
        copy_protocol(model, R)
        out.append(R)
    if prop in DA_PROPS:
        R = RuleResult(prop, "DA", "tensor `.data` is never assigned (substitution goes through set_attr; nothing bypasses autograd)", min_instances=1)
        data_assignment(model, R)
        out.append(R)
    return out
