"""Package-wide ownership rules, attributed to a property through the files its anchors name.

**HS hidden state (who-may-hold-state).**  Every property quantified over histories / configurations needs the numerical
code to be free of cross-call state, except the state the design already has (parameter substitution stacks, name
caches of EditableModule, the graph cache of _Jac, the debug flag, per-class capability flags).  The complete table of
state *holders* on the pinned tree - (function, kind, target) triples: instance/class attribute stores outside
constructors, mutating calls on such attributes, setattr/delattr, global/nonlocal, mutation of module-level or
closure-captured containers - is frozen in `state_table.json`, each group with its reason.  A state holder that is not in
the table is reported: a new memo / cache / class-level conversion makes results depend on what was computed before
(stale graph, stale dtype, stale grid).  Like a who-may-call table, the rule is exact about *what* it reports (the new
writer) and does not judge whether a particular cache could be made safe.

**WF warning filters.**  No call of warnings.simplefilter / filterwarnings / resetwarnings in the package: the
"... or a ConvergenceWarning is raised" clauses need the warning to be able to reach the caller.

**DA `.data` assignment.**  `<tensor>.data = ...` bypasses autograd and keeps the old tensor object: never used.
"""
from __future__ import annotations
import ast
import json
import os
from typing import Dict, List, Optional, Set, Tuple
from ..model import Model, FuncInfo, own_nodes, norm_stmt, enclosing_stmt, AnalysisError
from ..report import RuleResult

HERE = os.path.dirname(os.path.abspath(__file__))
VERIF = os.path.dirname(os.path.dirname(HERE))
MUT_METHODS = {"append", "extend", "update", "pop", "clear", "setdefault", "insert", "remove", "add", "discard", "popitem",
               "__setitem__", "__delitem__", "sort", "reverse"}
CTORS = {"__init__", "__new__", "__init_subclass__", "__post_init__"}

_ANCHORS: Optional[Dict[str, Set[str]]] = None


def anchors() -> Dict[str, Set[str]]:
    """property id -> set of anchor files (from the given, fixed properties.jsonl)"""
    global _ANCHORS
    if _ANCHORS is None:
        out: Dict[str, Set[str]] = {}
        with open(os.path.join(VERIF, "properties.jsonl")) as f:
            for line in f:
                p = json.loads(line)
                out[p["id"]] = set(p["anchors"]["files"])
        # files that implement a property's behaviour although the anchor list does not name them
        out.setdefault("C03", set()).update({"xitorch/_impls/optimize/root/_jacobian.py"})
        out.setdefault("C01", set()).update({"xitorch/_impls/optimize/root/_jacobian.py", "xitorch/_impls/optimize/root/rootsolver.py"})
        out.setdefault("C14", set()).update({"xitorch/_impls/interpolate/base_interp.py"})
        import glob
        allfiles = {os.path.relpath(pth, "/repo") for pth in glob.glob("/repo/xitorch/**/*.py", recursive=True) if "/_tests/" not in pth}
        out.setdefault("C19", set()).update(allfiles)          # a leak can hide in any module
        for k in ("C02", "C04", "C08", "C13", "C16"):
            out.setdefault(k, set()).update({"xitorch/_core/pure_function.py", "xitorch/_core/editable_module.py", "xitorch/_utils/misc.py"})
        _ANCHORS = out
    return _ANCHORS


def _root_name(e: ast.AST) -> Optional[ast.AST]:
    while isinstance(e, (ast.Subscript, ast.Attribute)):
        e = e.value
    return e


def _locals_of(fn: ast.AST) -> Set[str]:
    out = set()
    a = fn.args
    for x in a.posonlyargs + a.args + a.kwonlyargs:
        out.add(x.arg)
    if a.vararg:
        out.add(a.vararg.arg)
    if a.kwarg:
        out.add(a.kwarg.arg)
    for n in own_nodes(fn):
        if isinstance(n, ast.Name) and isinstance(n.ctx, ast.Store):
            out.add(n.id)
        elif isinstance(n, (ast.FunctionDef, ast.ClassDef)):
            out.add(n.name)
        elif isinstance(n, (ast.Import, ast.ImportFrom)):
            for al in n.names:
                out.add((al.asname or al.name).split(".")[0])
        elif isinstance(n, ast.ExceptHandler) and n.name:
            out.add(n.name)
    # names declared global / nonlocal are not locals
    for n in own_nodes(fn):
        if isinstance(n, (ast.Global, ast.Nonlocal)):
            for nm in n.names:
                out.discard(nm)
    return out


def state_writes(fi: FuncInfo) -> List[Tuple[str, ast.AST]]:
    """[(key, node)] of every state-holding write in fi's own body"""
    fn = fi.node
    out: List[Tuple[str, ast.AST]] = []
    is_static = any(ast.unparse(d) == "staticmethod" for d in fn.decorator_list)
    is_method = fi.cls is not None and not is_static
    first = fn.args.args[0].arg if (is_method and fn.args.args) else None
    selfish = {first} if first else set()
    in_ctor = fi.name in CTORS
    loc = _locals_of(fn)
    imported = set(fi.module.imports)
    modlevel = set(fi.module.assigns) | set(fi.module.functions) | set(fi.module.classes)
    # a closure container persists across calls only if the nested function escapes its defining call (is returned / stored)
    escapes = True
    if fi.parent is not None:
        escapes = False
        for n in own_nodes(fi.parent.node):
            if isinstance(n, ast.Return) and n.value is not None and any(isinstance(x, ast.Name) and x.id == fi.name for x in ast.walk(n.value)):
                escapes = True
            if isinstance(n, ast.Assign) and any(isinstance(x, ast.Name) and x.id == fi.name for x in ast.walk(n.value)) and \
                    any(isinstance(t, (ast.Attribute, ast.Subscript)) for t in n.targets):
                escapes = True

    # simple aliases of instance attributes / parameter attributes: `buf = self._merged`, `memo = A.__dict__.setdefault(..)`
    fdefs: Dict[str, list] = {}
    for n_ in own_nodes(fn):
        if isinstance(n_, ast.Assign):
            for t_ in n_.targets:
                if isinstance(t_, ast.Name):
                    fdefs.setdefault(t_.id, []).append(n_.value)
        elif isinstance(n_, ast.AnnAssign) and isinstance(n_.target, ast.Name) and n_.value is not None:
            fdefs.setdefault(n_.target.id, []).append(n_.value)
        elif isinstance(n_, (ast.For, ast.With, ast.AugAssign)):
            for x_ in ast.walk(n_.target if isinstance(n_, (ast.For, ast.AugAssign)) else ast.Module(body=[], type_ignores=[])):
                if isinstance(x_, ast.Name) and isinstance(n_, ast.For):
                    fdefs.setdefault(x_.id, []).extend([None, None])       # loop variables are not aliases
    params_all = set()
    a_ = fn.args
    for x_ in a_.posonlyargs + a_.args + a_.kwonlyargs:
        params_all.add(x_.arg)
    # the autograd context of forward/backward is a per-call object, not state (outputs stored on it are AC8's business)
    if is_static and fi.cls is not None and fi.name in ("forward", "backward") and fn.args.args:
        params_all.discard(fn.args.args[0].arg)
    alias: Dict[str, str] = {}
    for nm, ds in fdefs.items():
        if len(ds) != 1 or nm in params_all or ds[0] is None:
            continue
        d = ds[0]
        while isinstance(d, ast.Call) and isinstance(d.func, ast.Attribute) and d.func.attr in ("setdefault", "get") :
            d = d.func.value
        r0 = _root_name(d)
        if isinstance(d, ast.Attribute) and isinstance(r0, ast.Name) and (r0.id in selfish or (r0.id in params_all and r0.id not in selfish)):
            alias[nm] = ast.unparse(d)

    def classify_target(t: ast.AST, node: ast.AST, mut: str = ""):
        root = _root_name(t)
        if isinstance(root, ast.Call) and ast.unparse(root.func) == "type" and root.args and isinstance(root.args[0], ast.Name) and root.args[0].id in selfish:
            out.append(("clsattr:%s%s" % (ast.unparse(t).replace(" ", ""), mut), node))     # type(self).X = ...: class-level state
            return
        if not isinstance(root, ast.Name):
            return
        if root.id in alias and (isinstance(t, ast.Subscript) or mut):
            tgt = alias[root.id]
            r1 = tgt.split(".")[0]
            if r1 in selfish:
                if not (in_ctor and r1 == first):
                    out.append(("attr:self.%s[]%s (via local alias)" % (".".join(tgt.split(".")[1:]), mut), node))
            else:
                out.append(("argattr:%s[]%s (via local alias)" % (tgt, mut), node))
            return
        # attribute of a (non-self) parameter: the caller's object is modified
        if root.id in params_all and root.id not in selfish and isinstance(t, (ast.Attribute, ast.Subscript)):
            e = t
            sub = ""
            while isinstance(e, ast.Subscript):
                e = e.value
                sub = "[]"
            if isinstance(e, ast.Attribute):
                out.append(("argattr:%s%s%s" % (ast.unparse(e), sub, mut), node))
                return
            if isinstance(e, ast.Name) and (sub or mut):
                out.append(("argmut:%s%s%s" % (e.id, sub, mut), node))
                return
        # attribute of self / cls
        if isinstance(t, (ast.Attribute, ast.Subscript)) and root.id in selfish:
            if in_ctor and root.id == first and not mut:
                return
            # the attribute name
            e = t
            sub = ""
            while isinstance(e, ast.Subscript):
                e = e.value
                sub = "[]"
            if isinstance(e, ast.Attribute):
                chain = []
                while isinstance(e, ast.Attribute):
                    chain.append(e.attr)
                    e = e.value
                kind = "clsattr" if chain and chain[-1] == "__class__" else "attr"
                out.append(("%s:%s.%s%s%s" % (kind, "self" if root.id == first else root.id, ".".join(reversed(chain)), sub, mut), node))
            return
        if isinstance(t, (ast.Subscript,)) or mut:
            if root.id in loc or root.id in imported:
                return
            kind = "global-mut" if root.id in modlevel else "closure-mut"
            if kind == "closure-mut" and not escapes:
                return
            out.append(("%s:%s%s" % (kind, root.id, mut), node))

    for n in own_nodes(fn):
        if isinstance(n, ast.Assign):
            for t in n.targets:
                for e in (t.elts if isinstance(t, (ast.Tuple, ast.List)) else [t]):
                    if isinstance(e, ast.Starred):
                        e = e.value
                    if not isinstance(e, ast.Name):
                        classify_target(e, n)
        elif isinstance(n, (ast.AugAssign, ast.AnnAssign)):
            if not isinstance(n.target, ast.Name):
                classify_target(n.target, n)
            elif isinstance(n, ast.AugAssign) and n.target.id not in loc:
                out.append(("global-mut:%s" % n.target.id, n))
        elif isinstance(n, ast.Delete):
            for t in n.targets:
                if not isinstance(t, ast.Name):
                    classify_target(t, n)
        elif isinstance(n, (ast.Global, ast.Nonlocal)):
            for nm in n.names:
                out.append(("%s:%s" % ("global" if isinstance(n, ast.Global) else "nonlocal", nm), n))
        elif isinstance(n, ast.Call):
            fnm = ast.unparse(n.func)
            if fnm in ("setattr", "delattr", "object.__setattr__", "object.__delattr__") and n.args:
                out.append(("%s:%s" % (fnm.split(".")[-1].strip("_"), ast.unparse(n.args[0])), n))
            elif isinstance(n.func, ast.Attribute) and n.func.attr in MUT_METHODS and isinstance(_root_name(n.func.value), ast.Name) and \
                    (_root_name(n.func.value).id in alias or (_root_name(n.func.value).id in params_all and _root_name(n.func.value).id not in selfish)):
                classify_target(n.func.value, n, mut=".%s()" % n.func.attr)
            elif isinstance(n.func, ast.Attribute) and n.func.attr in MUT_METHODS:
                recv = n.func.value
                root = _root_name(recv)
                if isinstance(root, ast.Name) and (root.id in selfish or root.id not in loc) and isinstance(recv, (ast.Attribute, ast.Subscript, ast.Name)):
                    if isinstance(recv, ast.Name) and (recv.id in loc or recv.id in imported):
                        continue
                    if root.id in imported:
                        continue
                    if isinstance(recv, ast.Name) and recv.id not in modlevel and not escapes:
                        continue
                    if isinstance(recv, ast.Name) and recv.id not in modlevel and fi.parent is None:
                        continue       # an unknown global (builtin/typo): not state of this package
                    if root.id in selfish and in_ctor:
                        continue
                    classify_target(recv if not isinstance(recv, ast.Name) else recv, n, mut=".%s()" % n.func.attr) if not isinstance(recv, ast.Name) else \
                        out.append(("%s:%s.%s()" % ("global-mut" if recv.id in modlevel else "closure-mut", recv.id, n.func.attr), n))
    return out


def compute_state_table(model: Model) -> Dict[str, List[str]]:
    table: Dict[str, List[str]] = {}
    for fi in model.all_functions():
        ks = sorted({k for k, _ in state_writes(fi)})
        if ks:
            table[fi.fq] = ks
    return table


def load_table() -> Dict[str, List[str]]:
    p = os.path.join(HERE, "state_table.json")
    with open(p) as f:
        d = json.load(f)
    return d["holders"]


def hidden_state(model: Model, R: RuleResult, files: Set[str]) -> int:
    table = load_table()
    n = 0
    for fi in sorted(model.all_functions(), key=lambda f: f.fq):
        if fi.module.relpath not in files:
            continue
        ws = state_writes(fi)
        allowed = set(table.get(fi.fq, []))
        # a function that moved (renamed nested def etc.) is matched by qualname only
        n += 1
        bad = [(k, node) for k, node in ws if k not in allowed]
        if bad:
            k, node = bad[0]
            R.bad(fi, enclosing_stmt(node) if not isinstance(node, ast.stmt) else node,
                  "new cross-call state: %s is written here but is not in the table of state holders (%s): results can now depend on the history of earlier calls "
                  "(stale cache / stale dtype / stale graph)" % (k, "this function holds no state on the pinned tree" if not allowed else "allowed here: %s" % sorted(allowed)),
                  what="%s writes %s" % (fi.qualname, sorted({k for k, _ in bad})))
        else:
            R.ok(fi.fq, "%s: %s" % (fi.qualname, ("state written: %s (frozen table)" % sorted(allowed & {k for k, _ in ws})) if ws else "holds no state"))
    # positive / negative control
    ctl = ast.parse("_memo = {}\n\ndef f(x):\n    if id(x) not in _memo:\n        _memo[id(x)] = g(x)\n    return _memo[id(x)]\n\ndef h(x):\n    y = {}\n    y[1] = x\n    return y\n")
    fired = _control_fires(ctl, "f")
    quiet = not _control_fires(ctl, "h")
    R.controls.append(dict(name="module-level-memo", ok=fired and quiet, detail="positive control fired=%s, negative twin quiet=%s" % (fired, quiet)))
    return n


def _control_fires(tree: ast.Module, name: str) -> bool:
    from ..model import Module
    src = ast.unparse(tree)
    m = Module("<control>", "<control>", "control", src)
    fi = m.functions[name]
    return bool(state_writes(fi))


def warning_filters(model: Model, R: RuleResult) -> int:
    n = 0
    for fi in model.all_functions():
        for c in own_nodes(fi.node):
            if isinstance(c, ast.Call) and ast.unparse(c.func) in ("warnings.simplefilter", "warnings.filterwarnings", "warnings.resetwarnings"):
                n += 1
                from ..model import ancestors
                scoped = any(isinstance(a, ast.With) and any(ast.unparse(i.context_expr) == "warnings.catch_warnings()" for i in a.items) for a in ancestors(c))
                if scoped:
                    # accepted idiom: the filter is changed inside `with warnings.catch_warnings():` and restored on exit
                    R.ok(fi.fq, "filter change scoped by `with warnings.catch_warnings()` (restored on exit): `%s`" % norm_stmt(enclosing_stmt(c)))
                    continue
                R.bad(fi, enclosing_stmt(c), "the process-wide warning filter is changed: a ConvergenceWarning issued later (by this or any other solver) no longer reaches "
                      "the caller, so a non-converged result is returned silently")
    for m in model.modules.values():
        for s in m.tree.body:
            for c in ast.walk(s):
                if isinstance(c, ast.Call) and ast.unparse(c.func) in ("warnings.simplefilter", "warnings.filterwarnings") and not isinstance(s, (ast.FunctionDef, ast.ClassDef)):
                    n += 1
                    R.bad("%s::<module>" % m.relpath, c, "module-level change of the warning filter", file=m.relpath)
    R.ok("package", "no call of warnings.simplefilter / filterwarnings / resetwarnings in %d modules" % len(model.modules))
    ctl = ast.parse("def f():\n    warnings.simplefilter('ignore', category=ConvergenceWarning)\n")
    fired = any(isinstance(c, ast.Call) and ast.unparse(c.func) == "warnings.simplefilter" for c in ast.walk(ctl))
    R.controls.append(dict(name="simplefilter", ok=fired, detail="positive control fired=%s" % fired))
    return n


def data_assignment(model: Model, R: RuleResult, files: Optional[Set[str]] = None) -> int:
    n = 0
    for fi in model.all_functions():
        if files is not None and fi.module.relpath not in files:
            continue
        for s in own_nodes(fi.node):
            tg = s.targets if isinstance(s, ast.Assign) else ([s.target] if isinstance(s, (ast.AugAssign, ast.AnnAssign)) else [])
            for t in tg:
                if isinstance(t, ast.Attribute) and t.attr == "data":
                    n += 1
                    R.bad(fi, s, "`.data` of a tensor is assigned: the caller's tensor object is kept and its content replaced outside autograd - substituted "
                          "(differentiable) tensors never reach the function and the caller's object is silently overwritten")
    R.ok("package", "no `.data = ...` assignment%s" % ("" if files is None else " in the %d anchor files" % len(files)))
    return n


# which generic rule applies to which property
HS_PROPS = {"C%02d" % i for i in range(1, 21)}
WF_PROPS = {"C01", "C03", "C05", "C16"}
DA_PROPS = {"C02", "C04", "C06", "C08", "C09", "C10", "C13", "C16", "C17"}


def common_rules(model: Model, prop: str, tier: str) -> List[RuleResult]:
    out = []
    files = anchors().get(prop, set())
    if prop in HS_PROPS and files:
        R = RuleResult(prop, "HS", "who-may-hold-state: no cross-call state outside the frozen table of state holders (anchor files of this property)", min_instances=1)
        hidden_state(model, R, files)
        out.append(R)
    if prop in WF_PROPS:
        R = RuleResult(prop, "WF", "the process-wide warning filter is never changed (a ConvergenceWarning can reach the caller)", min_instances=1)
        warning_filters(model, R)
        out.append(R)
    if prop in DA_PROPS:
        R = RuleResult(prop, "DA", "tensor `.data` is never assigned (substitution goes through set_attr; nothing bypasses autograd)", min_instances=1)
        data_assignment(model, R)
        out.append(R)
    return out
