"""Substitution layer (shared by every property whose backward pass re-evaluates user code on fresh, differentiable
copies of the object-held tensors): `useobjparams` / `uselinopparams` install tensors into the user's objects through
PureFunction wrappers and EditableModule.  If any link of that chain drops, merges or mis-places a tensor, the copies do
not reach the function and the gradient of an object-held parameter is silently lost or wrong - for every functional.
The rules here are the structural necessary conditions of that chain; each property that differentiates through object
parameters includes them under its own id (rule names SUB-*)."""
from __future__ import annotations
import ast
from typing import List
from ..model import Model, own_nodes, norm_stmt, AnalysisError, AnchorError, enclosing_stmt
from ..report import RuleResult
from ..flow import function_defs, origins

EM = "xitorch/_core/editable_module.py"
PF = "xitorch/_core/pure_function.py"


def unique_key_identity(model: Model, K: RuleResult):
    """EditableModule._get_unique_params_idxs de-duplicates by object identity: the search key derives from id(<tensor>).
    Any other key (storage pointer, value, shape) merges distinct tensors that share memory or separates aliases."""
    f = model.func(EM, "EditableModule._get_unique_params_idxs")
    sem = _unique_idxs_semantic(f)
    if sem is True:
        K.ok(f.fq, "abstract run over [T0, T1, T0, T2, T1] and [T0, T0, T1, T2, T1]: unique positions and alias maps as expected (de-duplication by object identity, groups numbered by order of first appearance)")
        return
    if isinstance(sem, str):
        K.bad(f, f.node, "parameter de-duplication must be keyed on object identity id(<tensor>); with any other key two different tensors that share "
              "storage are merged (one silently replaces the other on substitution) or aliases are separated [%s]" % sem)
        return
    defs = function_defs(f.node)
    keys = []
    for n in own_nodes(f.node):
        if isinstance(n, ast.Call) and isinstance(n.func, ast.Attribute) and n.func.attr == "index" and len(n.args) == 1:
            keys.append((n, n.args[0]))
        elif isinstance(n, ast.Compare) and len(n.ops) == 1 and isinstance(n.ops[0], (ast.In, ast.NotIn)) \
                and not (isinstance(n.left, ast.Name) and n.left.id == f.params()[1]) and "_unique_params_idxs" not in ast.unparse(n.comparators[0]):
            keys.append((n, n.left))
        elif isinstance(n, ast.Subscript) and isinstance(n.ctx, ast.Load) and isinstance(n.value, ast.Name) \
                and any(isinstance(d, ast.Dict) for d in defs.get(n.value.id, [])):
            keys.append((n, n.slice))
    if not keys:
        raise AnalysisError("SUB-K: no search key (list.index / membership / dict lookup) found in _get_unique_params_idxs")
    for site, k in keys:
        os_ = origins(k, defs)
        ok = bool(os_) and all(isinstance(o, ast.Call) and isinstance(o.func, ast.Name) and o.func.id == "id" and len(o.args) == 1 for o in os_)
        what = "de-duplication key %s <- %s" % (ast.unparse(k), sorted({ast.unparse(o) for o in os_}))
        if ok:
            K.ok(f.fq, what)
        else:
            K.bad(f, enclosing_stmt(site), "parameter de-duplication must be keyed on object identity id(<tensor>); with any other key two different tensors that share "
                  "storage are merged (one silently replaces the other on substitution) or aliases are separated", what=what)


def _unique_idxs_semantic(f):
    """abstract run (domains/kinds.py) of _get_unique_params_idxs on five parameters of which two pairs are the same object: True /
    a message / None when the body is outside the interpreter's vocabulary (the structural rule decides then)"""
    from ..domains.kinds import AObj, KindInterp
    from ..domains.dictsem import Unsupported, Raised, _Return, Tok, ADict
    me, pm, pa = f.params()[:3]
    t = [Tok("T0", is_tensor=True), Tok("T1", is_tensor=True), Tok("T2", is_tensor=True)]
    # two alias patterns: in the second one an alias follows a later unique tensor that itself follows a duplicate (position != group number)
    for pattern, w_idx, w_map in (([0, 1, 0, 2, 1], [0, 1, 3], [[0, 2], [1, 4], [3]]), ([0, 0, 1, 2, 1], [0, 2, 3], [[0, 1], [2, 4], [3]])):
        allp = [t[k] for k in pattern]
        it = KindInterp({me: AObj("module", ("EditableModule",)), pm: "m", pa: list(allp)})
        try:
            try:
                it.run(f.node.body)
                ret = None
            except _Return as r:
                ret = r.v
        except (Unsupported, TypeError, AttributeError, KeyError, ValueError):
            return None
        except (Raised, IndexError) as e:
            return "parameters %s raise %s" % (["T%d" % k for k in pattern], e)

        def entry(attr):
            d = it.env.get("%s.%s" % (me, attr))
            return d.data.get("m") if isinstance(d, ADict) else None
        idxs, maps, num = entry("_unique_params_idxs"), entry("_unique_params_maps"), entry("_number_of_params")
        if idxs is None or maps is None:
            return None
        if list(idxs) != w_idx or [list(m_) for m_ in maps] != w_map or num != 5 or ret is None or list(ret) != w_idx:
            return "parameters %s give unique positions %r, alias map %r, count %r, returned %r (expected %r, %r)" % (["T%d" % k for k in pattern], idxs, maps, num, ret, w_idx, w_map)
    return True


def _unique_fill_semantic(f):
    """abstract run of setuniqueparams: True / a message / None (outside the interpreter's vocabulary)"""
    from ..domains.kinds import AObj, KindInterp
    from ..domains.dictsem import Unsupported, Raised, _Return, Tok, ADict
    me, pm = f.params()[:2]
    va = f.vararg()
    if va is None:
        return None
    new = [Tok("N0", is_tensor=True), Tok("N1", is_tensor=True), Tok("N2", is_tensor=True)]
    got = {}
    obj = AObj("module", ("EditableModule",))
    obj.methods["setparams"] = lambda *a: got.setdefault("args", list(a)) and 0
    env = {me: obj, pm: "m", va: tuple(new),
           "%s._number_of_params" % me: ADict({"m": 5}, "n"), "%s._unique_params_maps" % me: ADict({"m": [[0, 2], [1, 4], [3]]}, "maps"),
           "%s._unique_params_idxs" % me: ADict({"m": [0, 1, 3]}, "idxs")}
    it = KindInterp(env)
    try:
        try:
            it.run(f.node.body)
        except _Return:
            pass
    except (Unsupported, TypeError, AttributeError, KeyError, IndexError, ValueError):
        return None
    except Raised as e:
        return "raises %s" % e
    a = got.get("args")
    if a is None:
        return "setparams is never called"
    want = ["m", new[0], new[1], new[0], new[2], new[1]]
    if len(a) != len(want) or a[0] != "m" or not all(x is y for x, y in zip(a[1:], want[1:])):
        return "unique tensors (N0, N1, N2) with the alias map [[0, 2], [1, 4], [3]] reach setparams as %r instead of (N0, N1, N0, N2, N1)" % (a[1:],)
    return True


def unique_fill(model: Model, M: RuleResult):
    """EditableModule.setuniqueparams puts each unique tensor under EVERY name that aliases it (loop over the whole map entry) and
    hands the complete list to setparams; setparams installs every entry (no value is skipped)."""
    f = model.func(EM, "EditableModule.setuniqueparams")
    sem = _unique_fill_semantic(f)
    if sem is True:
        M.ok(f.fq, "abstract run: unique tensors (N0, N1, N2) with the alias map [[0, 2], [1, 4], [3]] are handed to setparams as (N0, N1, N0, N2, N1): every aliasing "
             "name of a unique parameter receives the new tensor")
        M.ok(f.fq, "the complete list is handed to setparams")
    elif isinstance(sem, str):
        M.bad(f, f.node, "setuniqueparams must write the new tensor under every index of its alias map and hand the complete list to setparams: an alias left out keeps "
              "the old tensor, so part of the operator is evaluated on the old parameters [%s]" % sem)
    if sem is not None:
        g = model.func(EM, "EditableModule.setparams")
        skips = [n for n in own_nodes(g.node) if isinstance(n, ast.Continue)] + \
                [n for l in own_nodes(g.node) if isinstance(l, ast.For) for n in l.body if isinstance(n, ast.If)]
        if not skips:
            M.ok(g.fq, "setparams installs every (name, value) pair unconditionally")
        else:
            M.bad(g, skips[0], "setparams must install every (name, value) pair: a conditional skip leaves the old tensor in place without any error")
        return
    stores = [s for s in own_nodes(f.node) if isinstance(s, ast.Assign) and isinstance(s.targets[0], ast.Subscript)]
    ok = False
    why = "no indexed store found"
    for s in stores:
        idx = s.targets[0].slice
        loop = None
        n = s
        while getattr(n, "_parent", None) is not None and n is not f.node:
            n = n._parent
            if isinstance(n, ast.For) and isinstance(n.target, ast.Name) and isinstance(idx, ast.Name) and n.target.id == idx.id:
                loop = n
                break
        if loop is None:
            why = "`%s` is not inside a loop over the alias map entry" % norm_stmt(s, 60)
            continue
        it = loop.iter
        sliced = isinstance(it, ast.Subscript) and isinstance(it.slice, ast.Slice)
        if sliced:
            why = "the alias loop iterates a slice `%s`" % ast.unparse(it)
            continue
        if any(isinstance(x, (ast.Break, ast.Continue, ast.If, ast.Return)) for b in loop.body for x in ast.walk(b)):
            why = "the alias loop has a conditional / early exit"
            continue
        ok = True
    if ok:
        M.ok(f.fq, "every aliasing name of a unique parameter receives the new tensor")
    else:
        M.bad(f, stores[0] if stores else f.node, "setuniqueparams must write the new tensor under every index of its alias map (%s): an alias left out keeps "
              "the old tensor, so part of the operator is evaluated on the old parameters" % why)
    rets = [r for r in own_nodes(f.node) if isinstance(r, ast.Return) and isinstance(r.value, ast.Call)]
    if rets and ast.unparse(rets[-1].value.func) == "self.setparams" and any(isinstance(a, ast.Starred) for a in rets[-1].value.args):
        M.ok(f.fq, "the complete list is handed to setparams")
    else:
        M.bad(f, rets[-1] if rets else f.node, "setuniqueparams must hand the complete parameter list to self.setparams(methodname, *allparams)")
    g = model.func(EM, "EditableModule.setparams")
    skips = [n for n in own_nodes(g.node) if isinstance(n, ast.Continue)] + \
            [n for l in own_nodes(g.node) if isinstance(l, ast.For) for n in l.body if isinstance(n, ast.If)]
    if not skips:
        M.ok(g.fq, "setparams installs every (name, value) pair unconditionally")
    else:
        M.bad(g, skips[0], "setparams must install every (name, value) pair: a conditional skip leaves the old tensor in place without any error")


def no_escape_of_current_params(model: Model, A: RuleResult):
    """PureFunction decides whether tensors have to be (re)installed by comparing the new list with its own record of the currently
    installed ones (`_check_identical_objs(new, self.<record>)`).  That record must be private: if a method hands the list itself
    out, or keeps a list it was given, a holder that changes an element in place (`_Jac` keeps objparams() as an attribute and
    uselinopparams() substitutes `objparams[i]`) changes the record too, the new tensors compare 'identical', are never installed,
    and the function is silently evaluated on the old tensors (gradients w.r.t. object-held tensors are lost)."""
    cls = model.cls(PF, "PureFunction")
    so = cls.methods.get("set_objparams")
    if so is None:
        raise AnalysisError("SUB-A: PureFunction.set_objparams vanished")
    from ..props.c09 import identity_predicate
    try:
        _f, _n, rec, _c = identity_predicate(model)
        records = {rec}
    except AnchorError:
        records = set()
    if not records:
        raise AnalysisError("SUB-A: the record of the installed parameters (the list the new parameters are compared with) was not found")
    fresh = ("list", "tuple", "copy.copy", "copy")
    n = 0
    for c in [cls] + [k for k in model.all_classes() if k is not cls and cls in k.mro()]:
        for m in c.methods.values():
            me = m.params()[0] if m.params() else None
            params = set(m.params()[1:])
            for st in own_nodes(m.node):
                if isinstance(st, ast.Return) and isinstance(st.value, ast.Attribute) and isinstance(st.value.value, ast.Name) \
                        and st.value.value.id == me and st.value.attr in records:
                    n += 1
                    A.bad(m, st, "%s.%s returns self.%s itself: a caller that stores the list and replaces an element in place changes this object's record of "
                          "the installed tensors, so the next substitution is judged 'identical' and skipped; return a copy" % (c.name, m.name, st.value.attr))
                elif isinstance(st, ast.Return) and st.value is not None and any(isinstance(x, ast.Attribute) and x.attr in records for x in ast.walk(st.value)):
                    n += 1
                    A.ok(m.fq, "`%s` hands out a copy / derived value of the record" % norm_stmt(st, 60))
                if isinstance(st, ast.Assign) and any(isinstance(t, ast.Attribute) and isinstance(t.value, ast.Name) and t.value.id == me and t.attr in records for t in st.targets):
                    n += 1
                    v = st.value
                    if isinstance(v, ast.Name) and v.id in params:
                        A.bad(m, st, "%s.%s keeps the caller's list as its record of the installed tensors (`%s`): the caller can change it in place; "
                              "store a copy" % (c.name, m.name, norm_stmt(st, 60)))
                    else:
                        A.ok(m.fq, "record assigned from `%s`" % ast.unparse(v)[:60])
    if n == 0:
        raise AnalysisError("SUB-A: no accessor / assignment of the record found")


def rules(model: Model, prop: str, tier: str = "quick") -> List[RuleResult]:
    from ..props import c09, c10
    G = RuleResult(prop, "SUB-G", "substitution layer: sibling wrappers delegate getter and setter in the same (all-names) space", min_instances=4)
    I = RuleResult(prop, "SUB-I", "substitution layer: the identical-parameters short-cut holds for ALL pairs (truth table over same/different patterns)", min_instances=2)
    N = RuleResult(prop, "SUB-N", "substitution layer: every captured name is (re)installed, in order, through the dotted-path helpers", min_instances=5)
    K = RuleResult(prop, "SUB-K", "substitution layer: parameter de-duplication is keyed on object identity", min_instances=1)
    M = RuleResult(prop, "SUB-M", "substitution layer: every alias of a unique parameter receives the new tensor; nothing is skipped", min_instances=3)
    c09._delegation(model, G)
    c09._identical(model, I)
    c10._order(model, N)
    c10.setparams_structure(model, N)
    unique_key_identity(model, K)
    unique_fill(model, M)
    A = RuleResult(prop, "SUB-A", "substitution layer: the pure function's record of the installed tensors never escapes (accessors return copies)", min_instances=3)
    no_escape_of_current_params(model, A)
    D = RuleResult(prop, "SUB-D", "substitution layer: get_pure_function gives every kind of callable its own wrapper (abstract run over the kinds of argument)", min_instances=6)
    c09._dispatch(model, D)
    P = RuleResult(prop, "SUB-P", "substitution layer: the installed copies are removed on every exit (normal and exceptional) of the foreign-code region", min_instances=12)
    c10._pairing(model, P)
    return [G, I, N, K, M, A, D, P]
