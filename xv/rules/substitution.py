"""Substitution layer (shared by every property whose backward pass re-evaluates user code on fresh, differentiable
copies of the object-held tensors): `useobjparams` / `uselinopparams` install tensors into the user's objects through
PureFunction wrappers and EditableModule.  If any link of that chain drops, merges or mis-places a tensor, the copies do
not reach the function and the gradient of an object-held parameter is silently lost or wrong - for every functional.
The rules here are the structural necessary conditions of that chain; each property that differentiates through object
parameters includes them under its own id (rule names SUB-*)."""
from __future__ import annotations
import ast
from typing import List
from ..model import Model, own_nodes, norm_stmt, AnalysisError, enclosing_stmt
from ..report import RuleResult
from ..flow import function_defs, origins

EM = "xitorch/_core/editable_module.py"
PF = "xitorch/_core/pure_function.py"


def unique_key_identity(model: Model, K: RuleResult):
    """EditableModule._get_unique_params_idxs de-duplicates by object identity: the search key derives from id(<tensor>).
    Any other key (storage pointer, value, shape) merges distinct tensors that share memory or separates aliases."""
    f = model.func(EM, "EditableModule._get_unique_params_idxs")
    defs = function_defs(f.node)
    keys = []
    for n in own_nodes(f.node):
        if isinstance(n, ast.Call) and isinstance(n.func, ast.Attribute) and n.func.attr == "index" and len(n.args) == 1:
            keys.append((n, n.args[0]))
        elif isinstance(n, ast.Compare) and len(n.ops) == 1 and isinstance(n.ops[0], (ast.In, ast.NotIn)) \
                and not (isinstance(n.left, ast.Name) and n.left.id == f.params()[1]) and "_unique_params_idxs" not in ast.unparse(n.comparators[0]):
            keys.append((n, n.left))
        elif isinstance(n, ast.Subscript) and isinstance(n.ctx, ast.Load) and isinstance(n.value, ast.Name) \
                and any(isinstance(d, ast.Dict) for d in defs.get(n.value.id, [])):
            keys.append((n, n.slice))
    if not keys:
        raise AnalysisError("SUB-K: no search key (list.index / membership / dict lookup) found in _get_unique_params_idxs")
    for site, k in keys:
        os_ = origins(k, defs)
        ok = bool(os_) and all(isinstance(o, ast.Call) and isinstance(o.func, ast.Name) and o.func.id == "id" and len(o.args) == 1 for o in os_)
        what = "de-duplication key %s <- %s" % (ast.unparse(k), sorted({ast.unparse(o) for o in os_}))
        if ok:
            K.ok(f.fq, what)
        else:
            K.bad(f, enclosing_stmt(site), "parameter de-duplication must be keyed on object identity id(<tensor>); with any other key two different tensors that share "
                  "storage are merged (one silently replaces the other on substitution) or aliases are separated", what=what)


def unique_fill(model: Model, M: RuleResult):
    """EditableModule.setuniqueparams puts each unique tensor under EVERY name that aliases it (loop over the whole map entry) and
    hands the complete list to setparams; setparams installs every entry (no value is skipped)."""
    f = model.func(EM, "EditableModule.setuniqueparams")
    stores = [s for s in own_nodes(f.node) if isinstance(s, ast.Assign) and isinstance(s.targets[0], ast.Subscript)]
    ok = False
    why = "no indexed store found"
    for s in stores:
        idx = s.targets[0].slice
        loop = None
        n = s
        while getattr(n, "_parent", None) is not None and n is not f.node:
            n = n._parent
            if isinstance(n, ast.For) and isinstance(n.target, ast.Name) and isinstance(idx, ast.Name) and n.target.id == idx.id:
                loop = n
                break
        if loop is None:
            why = "`%s` is not inside a loop over the alias map entry" % norm_stmt(s, 60)
            continue
        it = loop.iter
        sliced = isinstance(it, ast.Subscript) and isinstance(it.slice, ast.Slice)
        if sliced:
            why = "the alias loop iterates a slice `%s`" % ast.unparse(it)
            continue
        if any(isinstance(x, (ast.Break, ast.Continue, ast.If, ast.Return)) for b in loop.body for x in ast.walk(b)):
            why = "the alias loop has a conditional / early exit"
            continue
        ok = True
    if ok:
        M.ok(f.fq, "every aliasing name of a unique parameter receives the new tensor")
    else:
        M.bad(f, stores[0] if stores else f.node, "setuniqueparams must write the new tensor under every index of its alias map (%s): an alias left out keeps "
              "the old tensor, so part of the operator is evaluated on the old parameters" % why)
    rets = [r for r in own_nodes(f.node) if isinstance(r, ast.Return) and isinstance(r.value, ast.Call)]
    if rets and ast.unparse(rets[-1].value.func) == "self.setparams" and any(isinstance(a, ast.Starred) for a in rets[-1].value.args):
        M.ok(f.fq, "the complete list is handed to setparams")
    else:
        M.bad(f, rets[-1] if rets else f.node, "setuniqueparams must hand the complete parameter list to self.setparams(methodname, *allparams)")
    g = model.func(EM, "EditableModule.setparams")
    skips = [n for n in own_nodes(g.node) if isinstance(n, ast.Continue)] + \
            [n for l in own_nodes(g.node) if isinstance(l, ast.For) for n in l.body if isinstance(n, ast.If)]
    if not skips:
        M.ok(g.fq, "setparams installs every (name, value) pair unconditionally")
    else:
        M.bad(g, skips[0], "setparams must install every (name, value) pair: a conditional skip leaves the old tensor in place without any error")


def rules(model: Model, prop: str, tier: str = "quick") -> List[RuleResult]:
    from ..props import c09, c10
    G = RuleResult(prop, "SUB-G", "substitution layer: sibling wrappers delegate getter and setter in the same (all-names) space", min_instances=4)
    I = RuleResult(prop, "SUB-I", "substitution layer: the identical-parameters short-cut holds for ALL pairs (truth table over same/different patterns)", min_instances=2)
    N = RuleResult(prop, "SUB-N", "substitution layer: every captured name is (re)installed, in order, through the dotted-path helpers", min_instances=5)
    K = RuleResult(prop, "SUB-K", "substitution layer: parameter de-duplication is keyed on object identity", min_instances=1)
    M = RuleResult(prop, "SUB-M", "substitution layer: every alias of a unique parameter receives the new tensor; nothing is skipped", min_instances=3)
    c09._delegation(model, G)
    c09._identical(model, I)
    c10._order(model, N)
    c10.setparams_structure(model, N)
    unique_key_identity(model, K)
    unique_fill(model, M)
    return [G, I, N, K, M]
